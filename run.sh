#!/bin/sh
# Entry point for every registered check.
#   run.sh --build                 build the checker (setup_cmd)
#   run.sh <Cxx> [quick|thorough]  decide the structural clauses of property Cxx on /repo's working tree
#   run.sh --replay <file>         re-check the obligation recorded in a replay file
set -u
VERIF="$(cd "$(dirname "$0")" && pwd)"
REPO="${VERIF_REPO:-/repo}"
export GOFLAGS=-mod=mod GOPROXY=off GOSUMDB=off GOTOOLCHAIN=local
unset GOWORK
BIN="$VERIF/bin/utxlint"

build() {
	need=0
	[ -x "$BIN" ] || need=1
	if [ $need -eq 0 ]; then
		for f in "$VERIF"/checker/*.go "$VERIF"/checker/go.mod; do
			[ "$f" -nt "$BIN" ] && need=1
		done
	fi
	if [ $need -eq 1 ]; then
		mkdir -p "$VERIF/bin"
		(cd "$VERIF/checker" && go build -o "$BIN.tmp.$$" . && mv "$BIN.tmp.$$" "$BIN") || {
			echo "ANALYSIS-ERROR cannot build the checker"; exit 2; }
	fi
}

case "${1:-}" in
--build)
	build
	# warm the export data of the repository's dependencies (read-only for /repo)
	(cd "$REPO" && GOFLAGS=-mod=readonly go build ./... >/dev/null 2>&1) || true
	exit 0 ;;
--replay)
	build
	exec "$BIN" -replay "$2" -repo "$REPO" -verif "$VERIF" ;;
C[0-9][0-9])
	build
	TIER="${2:-${VERIF_TIER:-quick}}"
	exec "$BIN" -prop "$1" -tier "$TIER" -repo "$REPO" -verif "$VERIF" ;;
*)
	echo "usage: run.sh --build | <Cxx> [quick|thorough] | --replay <file>"; exit 2 ;;
esac
