#!/bin/bash
# seed_round_setup.sh <round-dir> <wt-root>: for every property creates a scratch worktree <wt-root>/<Cxx> of /repo HEAD,
# an output directory <round-dir>/<Cxx> and a prompt (tools/seed_prompt.tmpl + property text + list of earlier seeded
# changes of that property to avoid). Nothing from /verif's checks or design goes into a prompt.
set -u
OUT="$1"; WT="$2"; mkdir -p "$OUT" "$WT"
python3 - "$OUT" "$WT" <<'PY'
import json,sys,os,glob,subprocess
out,wt=sys.argv[1],sys.argv[2]
props=[json.loads(l) for l in open('/verif/properties.jsonl')]
tmpl=open('/verif/tools/seed_prompt.tmpl').read()
for pr in props:
    pid=pr['id']
    os.makedirs(f'{out}/{pid}',exist_ok=True)
    text=f"{pr['id']} — {pr['title']}\n\n{pr['statement']}\n\nQuantification: {pr['quantifier']['text']}"
    open(f'{out}/{pid}/property.txt','w').write(text)
    avoid=[]
    for mp in sorted(glob.glob(f'/verif/seeded/{pid}-*/meta.json')):
        m=json.load(open(mp)); avoid.append(" - "+m['change'])
    t=tmpl.replace('__WT__',f'{wt}/{pid}').replace('__OUT__',f'{out}/{pid}').replace('__PROP__',text).replace('__AVOID__',"\n".join(avoid) or " (none)")
    open(f'{out}/{pid}/prompt.txt','w').write(t)
    subprocess.run(['git','-C','/repo','worktree','add','--detach',f'{wt}/{pid}','HEAD'],stdout=subprocess.DEVNULL,stderr=subprocess.DEVNULL)
print("ok",len(props))
PY
