#!/bin/bash
# confirm_round.sh <round-dir>: runs tools/confirm_seed.sh for every <round-dir>/<Cxx>/<mN> that has a patch.diff and no confirm.txt yet.
R="$1"
for d in "$R"/C*/m[1-4]; do
  [ -f "$d/patch.diff" ] || continue
  [ -f "$d/confirm.txt" ] && continue
  ls "$d"/*_test.go >/dev/null 2>&1 || continue
  echo "$d"
done | xargs -P 4 -I{} sh -c '/verif/tools/confirm_seed.sh {} > {}/confirm.txt.tmp 2>&1; mv {}/confirm.txt.tmp {}/confirm.txt'
for d in "$R"/C*/m[1-4]; do [ -f "$d/confirm.txt" ] && echo "$(grep -h '^SEED' $d/confirm.txt | sed 's/^SEED [^ ]*seed_out[0-9]*\///') | $(grep -h '^CHECKS' $d/confirm.txt)"; done
