#!/bin/bash
# check_refactor.sh <patch.diff>: applies a (behaviour-preserving) patch to a scratch copy of /repo's sources and runs
# every registered check on it; prints the rules that fire (false-alarm candidates). Leaves nothing behind.
set -u
export GOFLAGS=-mod=readonly GOPROXY=off GOSUMDB=off GOTOOLCHAIN=local; unset GOWORK
P="$1"
T=$(mktemp -d /tmp/refchk.XXXXXX)
trap 'rm -rf "${T:?}"' EXIT
for f in /repo/*.go /repo/go.mod /repo/go.sum; do case "$f" in *_test.go) ;; *) cp "$f" "$T/";; esac; done
( cd "$T" && git apply "$P" ) || { echo "REF $P: patch does not apply"; exit 2; }
( cd "$T" && go build ./... ) || { echo "REF $P: does not build"; exit 2; }
fired=""
for p in C01 C02 C03 C04 C05 C06 C07 C08 C09 C10 C11 C12 C13 C14 C15 C16 C17; do
  out=$(/verif/bin/utxlint -prop $p -repo "$T" -verif /verif -no-evidence -no-controls 2>&1); rc=$?
  if [ $rc -ne 0 ]; then fired="$fired $p(rc=$rc)"; echo "$out" | grep ": R[0-9][0-9][a-z]* \(violated\|undecided\|instance-floor\)\|ANALYSIS-ERROR" | cut -c1-330 | sed "s/^/    [$p] /"; fi
done
echo "REF $P: firing:${fired:- none}"
