#!/bin/bash
# try_patch.sh <patch.diff> <Cxx>...: applies a patch to a scratch copy of /repo's sources and runs the named checks on it (no evidence written).
set -u
P="$1"; shift
T=$(mktemp -d /tmp/trypatch.XXXXXX)
trap 'rm -rf "${T:?}"' EXIT
for f in /repo/*.go /repo/go.mod /repo/go.sum; do case "$f" in *_test.go) ;; *) cp "$f" "$T/";; esac; done
( cd "$T" && git apply "$P" ) || { echo "patch does not apply"; exit 2; }
for p in "$@"; do
  /verif/bin/utxlint -prop "$p" -repo "$T" -verif /verif -no-evidence -no-controls 2>&1 | grep -v "^    via" | cut -c1-400 | tail -5
done
