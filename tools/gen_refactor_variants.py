#!/usr/bin/env python3
"""gen_refactor_variants.py: regenerates selftest/variants/<prop>/refactors.json - every behaviour-preserving patch under
refactors/ becomes an inverse variant (the rules of the property must stay silent) of the properties whose rules look at
the files the patch touches."""
import json, glob, os, re
BYFILE = {
 "mappollard.go": ["C01","C02","C05","C06","C09","C10","C12","C13","C14","C17"],
 "pollard.go":    ["C01","C02","C05","C06","C10","C13","C17"],
 "polnode.go":    ["C01","C02","C05","C06","C10","C13","C17"],
 "prove.go":      ["C02","C03","C04","C05","C07","C08","C14","C15","C17"],
 "stump.go":      ["C01","C03","C04","C07","C11","C17"],
 "utils.go":      ["C03","C04","C10","C15","C16"],
}
per = {}
for d in sorted(glob.glob('/verif/refactors/r*')):
    name = os.path.basename(d)
    files = set(re.findall(r'^diff --git a/(\S+)', open(d+'/patch.diff').read(), flags=re.M))
    props = set()
    for f in files:
        props.update(BYFILE.get(f, []))
    for p in props:
        per.setdefault(p, []).append({"name": "refactor-"+name, "rule": "R"+p[1:], "patch": f"refactors/{name}/patch.diff", "inverse": True})
for f in glob.glob('/verif/selftest/variants/*/refactors.json'):
    os.remove(f)
for p, vs in sorted(per.items()):
    os.makedirs(f'/verif/selftest/variants/{p}', exist_ok=True)
    json.dump(vs, open(f'/verif/selftest/variants/{p}/refactors.json','w'), indent=1)
    print(p, len(vs))
