#!/usr/bin/env python3
"""add_seed_variants.py <suffix>: for the stored seeds whose id contains -<suffix>m, appends one thorough-tier variant per
(property, rule) listed in meta.json:rules_firing to selftest/variants/<prop>/seeded.json (what tools/reconfirm_all.sh does for
all seeds, without re-running them)."""
import json, glob, os, sys
suffix = sys.argv[1]
n = 0
for mp in sorted(glob.glob('/verif/seeded/*/meta.json')):
    m = json.load(open(mp))
    sid = m['id']
    if f'-{suffix}m' not in sid or m.get('status') != 'valid':
        continue
    for pr in m.get('rules_firing', []):
        prop, rule = pr.split(':')
        p = f'/verif/selftest/variants/{prop}/seeded.json'
        vs = json.load(open(p)) if os.path.exists(p) else []
        name = f'seeded-{sid}'
        if any(v['name'] == name and v['rule'] == rule for v in vs):
            continue
        vs.append({"name": name, "rule": rule, "patch": f"seeded/{sid}/patch.diff", "expect": ""})
        os.makedirs(os.path.dirname(p), exist_ok=True)
        json.dump(vs, open(p, 'w'), indent=1)
        n += 1
print("added", n)
