#!/usr/bin/env python3
"""store_seeds.py <srcroot> <suffix>: copies confirmed seeds from <srcroot>/<Cxx>/<mN> (each with patch.diff,
seeded_demo_test.go, notes.md, confirm.txt written by tools/confirm_seed.sh) into /verif/seeded/<Cxx>-<suffix><mN>/
with a meta.json. Descriptions come from DESC below."""
import json, os, re, shutil, subprocess, sys
DESC = {
 "C12/m1": ("(*MapPollard).VerifyPartialProof takes RLock instead of Lock although remember=true goes on to ingest (writes)", "a query from another goroutine while VerifyPartialProof(remember=true) is between the first and last Put of ingest"),
 "C12/m2": ("(*MapPollard).Prune takes the write lock above the 'if m.Full return' early-out while the deferred Unlock stays below it", "a full forest, one Prune call, then any other method: permanent deadlock"),
 "C13/m1": ("RestorePollardFrom builds the Pollard from a composite literal instead of NewAccumulator(), silently dropping full=true", "write, restore, then at least one further block with additions: the restored forest prunes and cannot prove what the original can"),
 "C13/m2": ("(*Pollard).WriteTo swallows the error of writeOne through a shadowed err and a break", "a sink failing at an offset >= 16: WriteTo returns (n, nil) for a truncated snapshot"),
 "C04/m1": ("the check len(candidatePositions) != len(rootCandidates) is removed from Verify and (*Pollard).Verify", "targets naming both children of a root and the root itself (7 leaves, targets [4 5 10]): index out of range panic in all five entry points"),
 "C04/m2": ("(*MapPollard).VerifyPartialProof narrowed to RLock with an explicit RUnlock and a call of the locking Verify; the early 'proof too short' return leaks the read lock", "a rejected partial proof followed by any write-locked call: blocks forever"),
 "C03/m1": ("(*MapPollard).verify runs the stand-alone Verify only if !m.cached(delHashes)", "every claimed hash already a cached leaf and an adversarial claim (wrong position, swapped positions, altered proof hash): accepted"),
 "C03/m2": ("(*Pollard).Verify drops the 'if err != nil' after checkNoEmptyHashes (err is overwritten by the next call)", "a zero proof hash at the right place: an inner-node hash is accepted at a lower position by Pollard.Verify only"),
 "C14/m1": ("the stand-alone GetMissingPositions sorts the held proof's targets in place (defensive copy dropped)", "a held proof whose targets are not position-sorted and a caller that keeps using them with its parallel hashes"),
 "C14/m2": ("(*MapPollard).VerifyPartialProof hands the unsorted origTargets to ProofPositions", "more than one target in non-sorted order with some canonical positions already held: a valid partial proof is rejected"),
 "C10/m1": ("(*MapPollard).remove/uncacheLeaves folded into one pass that deletes each hash from the index while validating the list", "a Modify rejected because a later hash is untracked: the earlier live leaves are no longer found"),
 "C10/m2": ("(*MapPollard).addSingle indexes Parent(m.NumLeaves) instead of Parent(position) when the leaf climbs over an empty root", "NumLeaves = 3 mod 4 with the last three leaves deleted, then a remembered add climbing two rows"),
 "C17/m1": ("(*Pollard).add takes &adds[i] and sets add.Remember = true on the caller's []Leaf", "the same []Leaf applied to a Pollard first and a partial MapPollard afterwards"),
 "C17/m2": ("(*MapPollard).Prove builds the proof hashes in a receiver-owned buffer that the next Prove overwrites", "proofA := Prove(x); Prove(y); then any use of proofA"),
 "C05/m1": ("(*MapPollard).ingest returns an error on a proof-length mismatch while verify discards ingest's error", "a proof with a trailing unused hash: Verify(remember) returns nil but caches nothing, the following Modify fails"),
 "C05/m2": ("(*Stump).del rejects, after Verify accepted, when len(ProofPositions) != len(proof.Proof)", "a proof with a trailing unused hash: Stump.Update refuses the block its own Verify and both forests accept"),
 "C09/m1": ("(*MapPollard).addSingle: cached-position update guard pNode.Hash == add.Hash weakened to h == 0", "both the 1-leaf and the 2-leaf tree fully deleted, then a remembered add"),
 "C09/m2": ("(*MapPollard).remove sorts and de-twins the caller's proof.Targets in place when no translation is needed", "compact layout, a block deleting two leaves with non-ascending targets, then Undo with the same proof"),
 "C06/m1": ("(*MapPollard).undoSingleAdd uncaches only when h == 0", "a remembered addition overwriting an emptied row-0 root, then Undo of that block"),
 "C06/m2": ("(*MapPollard).getRootsAfterDel translates the block's targets from TreeRows(m.NumLeaves) instead of TreeRows(m.NumLeaves-numAdds)", "a target above row 0, additions overwriting the emptied root and crossing a power of two, then Undo"),
 "C07/m1": ("(*Stump).add records the added leaf before lifting it over the destroyed empty roots", "a block that empties the lowest root(s) and adds a remembered leaf that climbs only over empty roots"),
 "C07/m2": ("getHashAndPosHashSubset keys its lookup by Hash.mini() (12 bytes) instead of the full hash", "two leaf hashes sharing their first 12 bytes, one remembered (about 2^48 work)"),
 "C08/m1": ("pruneEdges: row > prevForestRows changed to row >= prevForestRows", "a cached leaf on the top row of the pre-block forest, then Undo of any block on top"),
 "C08/m2": ("(*Proof).undoAdd filters superfluous proof hashes only when targets were pruned", "an undone block that adds leaves none of which was remembered, merging a cached leaf's small tree with an older root"),
 "C01/m1": ("", ""), "C01/m2": ("", ""), "C02/m1": ("", ""), "C02/m2": ("", ""), "C11/m1": ("", ""), "C11/m2": ("", ""),
 "C15/m1": ("", ""), "C15/m2": ("", ""), "C16/m1": ("", ""), "C16/m2": ("", ""),
}
def main():
    root, suffix = sys.argv[1], sys.argv[2]
    extra = {}
    if len(sys.argv) > 3:
        extra = json.load(open(sys.argv[3]))
    head = subprocess.check_output(['git', '-C', '/repo', 'rev-parse', '--short', 'HEAD']).decode().strip()
    for prop in sorted(os.listdir(root)):
        for m in ('m1', 'm2', 'm3', 'm4'):
            src = os.path.join(root, prop, m)
            if not os.path.exists(os.path.join(src, 'confirm.txt')) or not os.path.exists(os.path.join(src, 'patch.diff')):
                continue
            conf = open(os.path.join(src, 'confirm.txt')).read()
            lines = [l for l in conf.splitlines() if l.startswith('SEED')]
            if not lines:
                continue
            line = lines[0]
            ok = 'demo-on-clean=PASS' in line and 'suite-on-patched=PASS' in line and 'FAIL-as-wanted' in line
            sid = f"{prop}-{suffix}{m}"
            what, needs = extra.get(f"{prop}/{m}", DESC.get(f"{prop}/{m}", ("", "")))
            dst = f"/verif/seeded/{sid}"
            if not ok:
                print("NOT CONFIRMED", sid, line)
                continue
            os.makedirs(dst, exist_ok=True)
            shutil.copy(os.path.join(src, 'patch.diff'), dst + '/patch.diff')
            demo = [f for f in os.listdir(src) if f.endswith('_test.go')][0]
            shutil.copy(os.path.join(src, demo), dst + '/seeded_demo_test.go.txt')
            if os.path.exists(os.path.join(src, 'notes.md')):
                shutil.copy(os.path.join(src, 'notes.md'), dst + '/notes.md')
            checks = [l for l in conf.splitlines() if l.startswith('CHECKS')][0]
            fired = re.findall(r'(C\d\d)\(rc=1\)', checks)
            rules = sorted(set(re.findall(r'\[(C\d\d)\] \S+ (R\d\d[a-z]?) (?:violated|undecided|instance-floor)', conf)))
            meta = {"id": sid, "property": prop, "change": what, "needs_to_manifest": needs,
                    "author": "independent sub-agent given only the property text (and, in round 2, the list of round-1 changes to avoid) and a scratch worktree",
                    "confirmed": {"how": "tools/confirm_seed.sh in a fresh scratch worktree of /repo HEAD: demo on clean tree, go build, full unedited suite on patched tree, demo on patched tree, then every registered check against the patched scratch tree",
                                  "repo_commit": head, "demo_on_clean": "PASS", "suite_on_patched": "PASS", "demo_on_patched": "FAIL (as wanted)", "race_flag": "race=[-race]" in line},
                    "status": "valid", "checks_firing": fired, "rules_firing": [f"{a}:{b}" for a, b in rules]}
            json.dump(meta, open(dst + '/meta.json', 'w'), indent=1)
            print(sid, fired, meta["rules_firing"])
main()
