#!/usr/bin/env python3
"""gen_seed_table.py: rewrites the seed table of DESIGN.md section 10 (between the seed-table markers, or, the first
time, from the line starting '<N> seeded defects are kept' to the end of the table) from seeded/*/meta.json."""
import json, glob, re
rows=[]; caught=0; n=0
for mp in sorted(glob.glob('/verif/seeded/*/meta.json')):
    m=json.load(open(mp)); n+=1
    rules=sorted({r.split(':')[1] for r in m.get('rules_firing',[])})
    if rules: caught+=1
    st=m['status'].split(':')[0]
    rows.append(f"| {m['id']} | {m['property']} | {m['change']} | {m['needs_to_manifest']} | {', '.join(rules) or '—'} | {st} |")
head=(f"{n} seeded defects are kept, {caught} are reported by at least one rule. The rules\n"
      "listed are those that fire on the patched tree (a rule id in another\n"
      "property's family means that property's check fires too).\n\n"
      "| id | property | change | needs, in order to manifest | rules that report it | status |\n"
      "|----|----------|--------|-----------------------------|----------------------|--------|\n")
block="<!-- seed-table:begin -->\n"+head+"\n".join(rows)+"\n<!-- seed-table:end -->\n"
d=open('/verif/DESIGN.md').read()
if '<!-- seed-table:begin -->' in d:
    d=re.sub(r'<!-- seed-table:begin -->.*?<!-- seed-table:end -->\n', lambda _: block, d, flags=re.S)
else:
    d=re.sub(r'\d+ seeded defects are kept.*?\n(\|[^\n]*\n)+', lambda _: block, d, count=1, flags=re.S)
open('/verif/DESIGN.md','w').write(d)
print(n,caught)
