#!/usr/bin/env python3
"""Regenerates /verif/MANIFEST.json from the table below (kept in one place so
the manifest stays valid while checks are added)."""
import json, os

V = os.path.dirname(os.path.dirname(os.path.abspath(__file__)))
props = [json.loads(l) for l in open(os.path.join(V, "properties.jsonl"))]

NOTE = ("Trusted base: go/types, go/ssa and the VTA/CHA call graph of golang.org/x/tools v0.29.0, and the checker's own rule tables "
        "(stdlib summaries, requires-sorted table, API pairing contracts). Assumes no unsafe/reflect/cgo/goroutines in the package (checked each run). "
        "The check decides the named structural clauses for every path of the current source; it does not execute utreexo and does not decide the "
        "numerical behaviour (see DESIGN.md section 5 'does not decide').")

claimed = {
 "C12": dict(
   text="Static lockset analysis decides, for all schedules, that every access to MapPollard's guarded fields (direct or through the Nodes/CachedLeaves "
        "interfaces) is made under the required RWMutex mode on every path, that no lock holder re-enters the lock, that each exported call is one "
        "critical section - counting the sections of the functions it calls, so a query assembled from separately locked getters is refused - that every return releases exactly what it holds, and that the mutex of a live instance is never replaced. Sufficient for data-race freedom and whole-block visibility through "
        "the package's own code, and that a function which acquires the lock and makes any call inside the section releases it with defer (a recovered panic in the user's node store or stream must not leave the lock held); correctness of the returned values is not decided.",
   ref="DESIGN.md 5/C12, engine E4",
   technique="static lockset / typestate dataflow over go/ssa CFGs with interprocedural lock requirements (custom analyzer)"),
}

claimed["C13"] = dict(
   text="Static io-discipline analysis over the whole (de)serialization closure decides, for every reader chunking, truncation point and writer failure "
        "offset at once, that no stream is consumed with a short-read-unsafe Read, that every I/O or nested error leaves the function as a non-nil error "
        "(callbacks included; only io.EOF at a record boundary may become success), that every operation's byte count reaches the returned total, that no fallible call is deferred (its error could never reach the caller), that "
        "each restore function succeeds only behind a post-read consistency test, that the restored object carries the constructor's configuration, that a record buffer reused across records has every byte it assigns assigned on every path to the write, that the caller's reader is never handed to a wrapper that may read ahead of the reported count, that the end of the stream is never turned into success (the formats announce their record counts), that failing returns report the running byte total, and that each operation's count is added to that total before the error test that follows it (so the bytes a failing operation did transfer are reported), that the restore loops of the map forest store every record they read and take over the header fields of the stream on every path, that a memoized size would be reset by every method that changes the forest, and that every store of the receiver the map forest's restore refills is emptied first (the stream describes the whole forest; found D25). Round-trip equality of the restored forest is not decided.",
   ref="DESIGN.md 5/C13, engines E6+E2",
   technique="static error-propagation (dominance/region analysis on go/ssa), who-may-call rule for raw Read, typed-AST count accumulation, must-pass-through gate (custom analyzer)")

claimed["C03"] = dict(
   text="Static path analysis decides the rejection plumbing that soundness needs and that positive-only tests cannot see: on every path, every error raised inside "
        "the verification spine reaches the caller as a non-nil error; a root is counted as matched only under an equality between a stored root and a recomputed "
        "candidate; success is returned only behind 'candidates == matches' and, in a verifier that compares the hash and target counts, only after that comparison; the hashing core sees caller-supplied hashes only behind a length check and behind a refusal of the reserved zero hash (which the core "
        "would move up unhashed); a failing return of the core is guarded by a comparison of the claimed position with a bound computed from the leaf count; siblinghood is never "
        "concluded from rightSib(a)==b alone; the verifiers use the positions the candidates were computed at; and on every verification path positions are used in the coordinate "
        "system (tree layout vs the map forest's TotalRows layout) the accompanying height denotes; neither input of the core's parent-hash step can be the default value of its variable, and a cursor over claimed hashes advances only past an entry that was read. These are necessary conditions of soundness, decided for all inputs (five of "
        "them fired on the pinned tree and were repaired); the work loop of the core ends towards success only on a test that looks at the work list; the zero-hash refusal reads each list under a loop over that same list (a single pass bounded by the other list leaves a tail unchecked); that the core recomputes the right candidates (arithmetic, hashing) is not decided.",
   ref="DESIGN.md 5/C03, engine E2",
   technique="static error-propagation and guard (dominating branch edge) analysis on go/ssa, anchors resolved by role; coordinate-layout abstract interpretation of the verification paths (custom analyzer)")

claimed["C04"] = dict(
   text="Static path analysis over the verification closure decides, for all inputs: a rejected Stump.Update has written nothing (no state write can reach a "
        "failing return; complete for that clause); no discarded error can be non-nil (callee error condition excluded by a dominating guard on the same SSA values); "
        "every loop matches a terminating idiom or a reviewed entry and the reviewed merge loop makes progress on every path; caller-supplied slices, and in the two "
        "matching verifiers every computed index, are bounded by a dominating length test (a bound by another slice's length needs a dominating relation between the two lengths - also for a computed slice indexed up to the length of a caller's list, and for a slice made with a fixed length that is filled through its own counter). "
        "Termination of the two reviewed loops and absence of index panics in helpers are not decided.",
   ref="DESIGN.md 5/C04, engine E2",
   technique="static must-not-precede (CFG reachability with error-edge refinement), guard analysis on SSA values, loop-idiom classification on the typed AST (custom analyzer)")

claimed["C17"] = dict(
   text="A slice-ownership abstract interpretation of the 16 API entries decides, for all inputs, that no mutation sink (element store, copy, append to a "
        "shortened slice, in-place sort/delete, read-into) is reachable with a backing array owned by the caller, that returned slices are fresh or the caller's "
        "own, and that no caller-owned array is retained in the receiver. As a may-analysis over all paths this is a sufficient argument for the non-mutation "
        "clause under the stated assumptions; no store is exempted.",
   ref="DESIGN.md 5/C17, engine E3",
   technique="static ownership/alias dataflow: context-sensitive abstract interpretation over go/ssa with stdlib mutation summaries (custom analyzer)")

claimed["C11"] = dict(
   text="Static path/dataflow rules on the verifier-state update decide structural necessary conditions of the update data: every added leaf is recorded on every "
        "path of the add loop, the previous leaf count is read before the add phase, the add lists are sorted after the last insertion, the destroyed-roots list is "
        "computed from the pre-add state, the delete lists come from the core run with emptied targets, every success return hands out the filled update data, the recorded position "
        "of an added leaf depends on the lifting call, no node is identified by a truncated hash, the leaf count is only ever incremented, no count taken from a length is narrowed, and the simulation behind ToDestroy agrees in control structure with its clone in the caching-schedule tracker. The hashes and positions inside the lists are not decided.",
   ref="DESIGN.md 5/C11, engine E2",
   technique="static must-pass-through (dominance over loop latches), ordering and provenance rules on go/ssa; phases resolved by role (custom analyzer)")
claimed["C07"] = dict(
   text="Thin claim: static rules decide the clause 'every added leaf it asked to remember' at its only source (every added leaf is listed in the update data on "
        "every path) and the wiring of the cached-proof update (each phase fed from its own UpdateData lists, positions paired with their hashes, remove before add "
        "on the returned hashes); the recorded position of an added leaf depends on the call that lifts it over overwritten empty roots; remembered leaves are looked up by their "
        "full hash, never by a position computed from the leaf count or by a truncated hash; a discarded error of a position function in the update is excluded by a guard or a reviewed lemma covering every failing return of the callee (a failing call would pair the leaf with position 0); a list the update walks like one side of a merge is sorted first; a list a helper returns resized is taken from its result. Positions, canonicity and retention over deletions are not decided.",
   ref="DESIGN.md 5/C07, engine E2",
   technique="static must-pass-through and dataflow-wiring rules on go/ssa (custom analyzer)")

claimed["C10"] = dict(
   text="A who-may-insert analysis of the leaf indexes (found by type) decides for all paths that a key enters an index only as an API leaf-hash parameter, as an "
        "update of an entry a dominating lookup of the same key found, from a serialised stream, or under a flag set only at target positions — so internal-node "
        "hashes cannot be reported as leaves — that every success path of both Modify implementations removes every deleted hash from the index, every undone addition leaves "
        "it, and a Modify rejected by validation has not touched it; that the indexed position is the position expression the node is stored at, follows the node on every step of a "
        "multi-step move, and is re-translated before TotalRows is switched; and that a position read either goes through the keyed node store or gates the pointer walk from an arithmetically "
        "chosen root by an exact existence test of the position against the leaf count (a read outside the forest gives the zero hash), that a hit under the pointer forest's truncated-hash key is confirmed by comparing the full hash before it is reported as found, and (layout analysis) that the map forest's look-ups translate positions in the right direction and return them in the tree layout. Positions returned (arithmetic) and the hash read at an existing position are not decided.",
   ref="DESIGN.md 5/C10, engine E5",
   technique="static who-may-insert rule with typed key provenance (interprocedural backward slice), guard analysis, must-pass-through pairing and ordering rules on go/ssa (custom analyzer)")
claimed["C09"] = dict(
   text="Thin claim: static guard rules decide that proof material is stored in the partial forest only behind a successful verification of the same values (with "
        "no other caller of the storing function than the documented unverified entry), that the pruning primitive never receives a position that could be a root; that a "
        "function switching TotalRows finishes every translation from the old TotalRows first; that Prune clears the keep flag of a leaf it un-indexes on every continuing path; that a "
        "moved node is re-inserted on every path that deletes it; and (layout analysis) that everything stored, fetched, indexed or fed to position arithmetic is in the coordinate "
        "system of the accompanying forest height; and that the keep flag stored with a node in a loop is computed for that position, never carried over from an earlier one; the from-roots constructor stores every root it is given; a node whose hash was just recomputed never inherits the keep flag of another node; the deletion-undo moves climbed subtrees back under the existence test of the sibling position, never under a node-store look-up. Truth of stored hashes through moves (arithmetic), minimality and provability of the cache are not decided.",
   ref="DESIGN.md 5/C09, engine E2",
   technique="static dominance/guard rules, who-may-call, must-pass-through pairing rules and coordinate-layout abstract interpretation on go/ssa (custom analyzer)")

claimed["C15"] = dict(
   text="Static guard and dataflow rules on the schedule generator decide, for all histories and limits, the memory bound clause: the working cache grows only "
        "under a strict len(cache) < maxMemory test on the value appended to or right after a one-element removal, and every scheduled position is read from that "
        "cache; the ordering clause: each row is sorted after its last append; and three conditions of completeness: recorded deletions are sorted ascending before de-twinning, "
        "every recorded root state has the block's deletions applied, the TTL table is recomputed before it is read, tree/branch detection with a discarded error is applied to a tracked position only behind an exact existence test, generating a schedule never writes through a recorded list or an alias of it, no allocation is sized by the memory limit, a list a helper returns resized is taken from its result, and the tracker's simulation of the empty roots that additions write over agrees in control structure with the verifier's clone of it, every root a block empties is marked (no early exit from the outer marking loop), and the TTL table the generator rebuilds is allocated on every path that fills it. That positions are the right insertion slots and uniqueness are not decided.",
   ref="DESIGN.md 5/C15, engine E2",
   technique="static guard analysis on SSA values, value-web dataflow, must-pass-through rules and order-class dataflow (taint to requires-sorted sinks) on go/ssa (custom analyzer)")
claimed["C01"] = dict(
   text="Thin claim: a static sibling cross-check of the three block-application implementations decides three clauses necessary for equal roots — delete phase "
        "dominates add phase, the older root is the left hash input and the incoming node the right one, and merging is guarded by the root not being empty; and where the map forest moves a node (delete at the old position, put at the new one: growth, "
        "move-up, undo) the put happens on every path that deletes, empty roots included; the map forest's growth step (sized for one more leaf) is reached on every iteration of the loop over the added leaves; while a block is applied the leaf count is only ever incremented; and the growth step dominates every store of the inserted leaf. Root equality over all histories (position arithmetic, deletion, TotalRows) is not decided.",
   ref="DESIGN.md 5/C01, engine E2",
   technique="static sibling-agreement cross-check: dominance, data-dependence classification of hash inputs and guard rules on go/ssa (custom analyzer)")


claimed["C14"] = dict(
   text="An order-class abstract interpretation of the proof-algebra entries (and of the consumers of their results) decides, for all inputs, the clause 'targets and "
        "hashes given in any parallel order': at every site that combines positions with hashes index by index both operands are in the same order class (caller order, "
        "sorted copy, canonical proof order of the same group); no slice still in a caller-chosen order reaches a function that requires sorted input; proof restriction "
        "succeeds only behind the coverage test and returns hashes and targets in request order; positions are used (and returned) in the coordinate system the accompanying "
        "forest height denotes; computing missing positions never reorders the targets of the proof the caller holds, decides what is missing by look-ups of the node store on every non-empty request, the hashes supplied for the missing positions are read through their own cursor, the single-target proof-position helper is never accumulated over a loop of targets, and the stand-alone missing-positions function takes the held set from the sorted copy of the caller's proof targets element for element; no list the combination returns is a concatenation of one proof's list behind the other's; the restriction runs the hashing core on every path to a success return. Canonicity/exactness of the combined or restricted proof and of the "
        "missing positions (position arithmetic) are not decided.",
   ref="DESIGN.md 5/C14, engine E7",
   technique="static order-class dataflow: flow- and context-sensitive abstract interpretation over go/ssa with in-place-sort tracking; pairing, taint-to-sink and output-contract rules (custom analyzer)")
claimed["C05"] = dict(
   text="Static rules decide the clause 'for every accepted encoding - any target order, trailing unused proof hashes': the caller's target order never reaches a "
        "requires-sorted function and hashes are paired with targets only in the same order class, in verification, block application and undo of all three "
        "implementations; neither forest's Modify reads the proof hashes anywhere in its call closure (sufficient for independence from junk or non-canonical proof "
        "hashes); all three implementations delete before they add. Equality of the resulting roots with each other and with the reference is not decided.",
   ref="DESIGN.md 5/C05, engines E7+E2",
   technique="static order-class dataflow (taint to requires-sorted sinks, pairing classes), field-read scan over the call closure, dominance (custom analyzer)")
claimed["C02"] = dict(
   text="Thin claim on both provers, decided for all inputs: the returned targets are filled index by index from the requested hashes (request order); the returned proof "
        "hashes are filled in the order of the proof positions computed from a sorted copy of those same targets (canonical order); the request order never reaches the "
        "proof-position function; a hash that cannot be read yields an error, never a proof with a hole; the map forest returns its targets in the tree layout; a literal position is returned only for a forest that has ever had one leaf; a full pointer forest marks every node it creates under Modify to be kept, and prunes nieces only in pairs. That positions are true, that the proof verifies everywhere and "
        "that the two provers agree are not decided.",
   ref="DESIGN.md 5/C02, engines E7+E2",
   technique="static order-class dataflow with map-fill idiom recognition and output contracts; guard rule on fetch sites (custom analyzer)")

claimed["C16"] = dict(
   text="Thin claim. The numerical identities of the 64-bit position arithmetic are NOT decided. Five structural necessary conditions are decided for all inputs: the "
        "call closure of the exported position functions computes with integers only (no floating-point value, no call into package math other than math/bits - float64 "
        "cannot represent every position or leaf count at heights near 63), and in ProofPositions every step that replaces a working target by its parent also appends "
        "to the list of computable positions on every path to the next iteration; every left shift by a variable amount in that closure is computed in a 64-bit type (forests have up to 63 rows); "
        "a leaf count converted to a signed integer is only compared, never an operand of arithmetic; a row is compared with a forest height only inclusively (the top row is a row); a value is compared with the biggest position of a row (maxPositionAtRow, maxPossiblePosAtRow) only inclusively, and a position with 1<<rows only strictly.",
   ref="DESIGN.md 5/C16",
   technique="static type/effect lint over the call closure (no float values, no math calls) and a must-pass-through rule on go/ssa (custom analyzer)")

pending = {}  # id -> reason, for properties whose check is not built yet

not_applicable = {}

claimed["C06"] = dict(
   text="Thin claim. Equality of the complete observable state before a block and after its undo is numerical and is NOT decided. Decided for all inputs, as necessary conditions: "
        "in the closure of the three Undo entries a caller never drops the updated list a helper returns while it goes on using the list it passed in (each undo step sees what the "
        "previous one left); every undone addition leaves the leaf index; a node moved back is re-inserted on every path that deletes it; the undone block's targets are used in "
        "the layout of the forest before the block and hashes are paired with positions of one order class; each forest's Undo runs its undo-one-addition step - which decrements "
        "the leaf count on every success path - on every iteration of a loop bounded by the block's number of additions; a proof-hash list the undo allocates itself is filled before the hashing core sees it; a root position the map forest's undo re-creates gets its node back (by the add-undo step or by the closing write-back of the previous roots); the deletion-undo moves climbed subtrees back under the existence test of the sibling position, never under a node-store look-up.",
   ref="DESIGN.md 5/C06, engines E2+E7",
   technique="static dataflow (dropped-result / later-use analysis), must-pass-through and dominance rules on go/ssa, order-class and coordinate-layout abstract interpretation (custom analyzer)")

claimed["C08"] = dict(
   text="Thin claim. That the undone cached proof is canonical, verifies and holds exactly the right leaves is position arithmetic and set equality and is NOT decided. Decided for "
        "all inputs, as necessary conditions: in (*Proof).Undo and everything it reaches hashes are paired with positions of one order class and caller order never reaches a "
        "requires-sorted sink; the updated lists returned by the undo helpers are taken over by the caller; the block's additions are reverted before its deletions and the deletion "
        "step works with the leaf count before the additions (numLeaves - numAdds); within one function the elements of a position list that is never written are read with one leaf count only "
        "(a contradiction there is the known finding F2: undoAdd drops live leaves when the block destroyed empty roots); an existence decision made with maxPositionAtRow is dominated by a test that the forest had leaves; de-twinning inserts the parent of a sibling pair in order; a slice filled slot by slot from another list is not read again after that list was reordered.",
   ref="DESIGN.md 5/C08, engines E2+E7",
   technique="static dominance / dataflow rules on go/ssa and order-class abstract interpretation (custom analyzer)")

checks = []
na = []
for p in props:
    i = p["id"]
    if i in claimed:
        c = claimed[i]
        checks.append({
            "property_id": i,
            "quick_cmd": f"./run.sh {i} quick",
            "thorough_cmd": f"./run.sh {i} thorough",
            "evidence_file": f"/verif/evidence/{i}.json",
            "replay_cmd_template": "./run.sh --replay {path}",
            "engine": "utxlint",
            "level_claimed": {"category": "other", "text": c["text"], "design_ref": c["ref"]},
            "level_note": NOTE,
            "technique": c["technique"],
        })
    elif i in not_applicable:
        na.append({"property_id": i, "reason": not_applicable[i]})
    else:
        na.append({"property_id": i, "reason": pending.get(i, "check not built yet (implementation in progress; see DESIGN.md section 0 for the planned verdict)")})

m = {
 "version": 1,
 "setup_cmd": "./run.sh --build",
 "hooks": {"guard": "verif",
           "enable": "none needed: the checks are static and read the source as it is; no hook commits exist (the tag is only used to also analyse files guarded by it, should any appear)",
           "baseline_off_cmd": "cd /repo && go test -vet=off -count=1 ./...",
           "source_commits": [], "add_only": True},
 "engines": [{"name": "utxlint", "path": "/verif/checker", "serves_properties": [c["property_id"] for c in checks],
              "kind_free_text": "repository-specific static analyzer: go/packages + go/types + go/ssa + VTA/CHA call graph; path/dominance rules, lockset, slice-ownership abstract interpretation, flow- and context-sensitive order-class and coordinate-layout abstract interpretation, io discipline"}],
 "checks": checks,
 "not_applicable": na,
 "notes": "All checks are static (no utreexo code is executed). Twenty-four genuine defects reported by the rules on the pinned tree were repaired in /repo by 'fix:' commits and two are recorded as known findings (F1: C10, F2: C08) because no small repair passes the unedited suite / exists; see known_findings.json and DESIGN.md section 6. The independently seeded defects are kept under seeded/ (DESIGN.md section 10); those a rule reports are re-applied as self-test variants by every thorough run.",
}
json.dump(m, open(os.path.join(V, "MANIFEST.json"), "w"), indent=1)
print("checks:", [c["property_id"] for c in checks], "not_applicable:", [n["property_id"] for n in na])
