#!/bin/bash
# confirm_seed.sh <seed_dir> [props...]
# Confirms a seeded defect (patch.diff + seeded_demo_test.go) in a scratch worktree of /repo:
#   1. clean tree + demo: demo passes      2. patched tree: full suite (without demo) passes
#   3. patched tree + demo: demo fails     4. runs the registered checks against the patched scratch tree
# Prints a one-line summary; leaves nothing behind.
set -u
export GOFLAGS=-mod=mod GOPROXY=off GOSUMDB=off GOTOOLCHAIN=local; unset GOWORK
SEED="$1"; shift
PROPS="${*:-C01 C02 C03 C04 C05 C06 C07 C08 C09 C10 C11 C12 C13 C14 C15 C16 C17}"
WT=$(mktemp -d /tmp/confirm.XXXXXX)
git -C /repo worktree add --detach "$WT" HEAD >/dev/null 2>&1 || { echo "cannot create worktree"; exit 2; }
cleanup() { git -C /repo worktree remove --force "$WT" >/dev/null 2>&1; rm -rf "$WT"; }
trap cleanup EXIT
DEMO=$(ls "$SEED"/*_test.go | head -1)
RACE=""
grep -qi -- "-race" "$SEED/notes.md" 2>/dev/null && grep -qi "go test.*-race" "$SEED/notes.md" && RACE="-race"
[ -n "${SEED_RACE:-}" ] && RACE="-race"
cp "$DEMO" "$WT/seeded_demo_test.go"
names=$(grep -ho "^func \(Test\|Fuzz\)[A-Za-z0-9_]*" "$WT/seeded_demo_test.go" | sed 's/func //' | paste -sd'|')
( cd "$WT" && timeout 900 go test -vet=off -count=1 $RACE -run "^($names)\$" . >"$WT/.r1" 2>&1 ); r1=$?
rm "$WT/seeded_demo_test.go"
git -C "$WT" apply "$SEED/patch.diff" || { echo "SEED $SEED: patch does not apply"; exit 2; }
( cd "$WT" && go build ./... >"$WT/.rb" 2>&1 ); rb=$?
( cd "$WT" && timeout 1500 go test -vet=off -count=1 ./... >"$WT/.r2" 2>&1 ); r2=$?
cp "$DEMO" "$WT/seeded_demo_test.go"
( cd "$WT" && timeout 900 go test -vet=off -count=1 $RACE -run "^($names)\$" . >"$WT/.r3" 2>&1 ); r3=$?
rm "$WT/seeded_demo_test.go"
echo "SEED $SEED race=[$RACE]: demo-on-clean=$([ $r1 -eq 0 ] && echo PASS || echo FAIL) build=$rb suite-on-patched=$([ $r2 -eq 0 ] && echo PASS || echo FAIL) demo-on-patched=$([ $r3 -ne 0 ] && echo FAIL-as-wanted || echo PASS-unwanted)"
[ $r1 -ne 0 ] && tail -15 "$WT/.r1"
[ $r2 -ne 0 ] && tail -15 "$WT/.r2"
[ $r3 -ne 0 ] && grep -m3 -- "--- FAIL\|panic\|DATA RACE\|timed out" "$WT/.r3"
caught=""
for p in $PROPS; do
  out=$(/verif/bin/utxlint -prop $p -repo "$WT" -verif /verif -no-evidence -no-controls 2>&1); rc=$?
  if [ $rc -ne 0 ]; then caught="$caught $p(rc=$rc)"; echo "$out" | grep -v "^VIOLATION\|^    via" | grep ": R[0-9]" | head -4 | sed "s/^/    [$p] /"; fi
done
echo "CHECKS firing on patched tree:${caught:- none}"
