#!/bin/bash
# reconfirm_all.sh: re-runs tools/confirm_seed.sh for every /verif/seeded/<id> against the current /repo HEAD and the
# current checker, rewrites meta.json (status, checks_firing, rules_firing) and selftest/variants/<prop>/seeded.json.
set -u
cd /verif
T=$(mktemp -d /tmp/reconf.XXXX)
for d in seeded/*; do id=$(basename $d); mkdir -p $T/$id; cp $d/patch.diff $T/$id/; cp $d/seeded_demo_test.go.txt $T/$id/seeded_demo_test.go; [ -f $d/notes.md ] && cp $d/notes.md $T/$id/; done
ls -d $T/* | xargs -P 12 -I{} sh -c './tools/confirm_seed.sh {} > {}/confirm.txt 2>&1'
python3 - "$T" <<'PY'
import json,os,re,subprocess,sys,glob
T=sys.argv[1]
head=subprocess.check_output(['git','-C','/repo','rev-parse','--short','HEAD']).decode().strip()
variants={}
for sid in sorted(os.listdir('/verif/seeded')):
    mp=f'/verif/seeded/{sid}/meta.json'
    m=json.load(open(mp))
    conf=open(f'{T}/{sid}/confirm.txt').read()
    lines=[l for l in conf.splitlines() if l.startswith('SEED')]
    if not lines:
        print(sid,'NO RESULT'); continue
    line=lines[0]
    checks=[l for l in conf.splitlines() if l.startswith('CHECKS')]
    fired=re.findall(r'(C\d\d)\(rc=1\)',checks[0]) if checks else []
    rules=sorted(set(re.findall(r'\[(C\d\d)\] \S+ (R\d\d[a-z]?) (?:violated|undecided|instance-floor)',conf)))
    m['reconfirmed']={"repo_commit":head,
        "demo_on_clean":"PASS" if "demo-on-clean=PASS" in line else "FAIL",
        "suite_on_patched":"PASS" if "suite-on-patched=PASS" in line else "FAIL",
        "demo_on_patched":"FAIL (as wanted)" if "FAIL-as-wanted" in line else "PASS (unwanted)"}
    if "suite-on-patched=FAIL" in line:
        m['status']="superseded: after the fix commits in /repo the existing suite fails with this change, so it no longer qualifies as a test-passing defect"
    elif "patch does not apply" in conf:
        m['status']="superseded: the patch no longer applies to /repo HEAD"
    else:
        m['status']="valid"
    m['checks_firing']=fired
    m['rules_firing']=[f"{a}:{b}" for a,b in rules]
    json.dump(m,open(mp,'w'),indent=1)
    print(sid, m['status'][:10], fired, m['rules_firing'])
    if m['status']=="valid":
        for a,b in rules:
            variants.setdefault(a,[]).append({"name":f"seeded-{sid}","rule":b,"patch":f"seeded/{sid}/patch.diff","expect":""})
for f in glob.glob('/verif/selftest/variants/*/seeded.json'):
    os.remove(f)
for prop,vs in variants.items():
    os.makedirs(f'/verif/selftest/variants/{prop}',exist_ok=True)
    json.dump(vs,open(f'/verif/selftest/variants/{prop}/seeded.json','w'),indent=1)
PY
rm -rf $T
