package utreexo

import (
	"reflect"
	"testing"
)

// NOT an honest block (outside the quantification of C17), kept as a pointer
// to a latent write site: (*MapPollard).undoDeletion writes the hashes it has
// stored through the by-value Proof parameter into the caller's proof hashes
// (mappollard.go: `proof.Proof[i] = leaf.Hash`). With an honest proof the
// values written are the values already there. A full pollard doesn't need
// the proof hashes for an undo (it rebuilds them when the length is off), and
// a caller that passes a proof of the right length with placeholder hashes
// gets them overwritten.
func TestUnchangedMapPollardUndoRewritesProof(t *testing.T) {
	leaves := make([]Leaf, 4)
	for i := range leaves {
		leaves[i] = Leaf{Hash: Hash{byte(i + 1), 0xc1, 0x7e}}
	}
	m := NewMapPollard(true)
	if err := m.Modify(leaves, nil, Proof{}); err != nil {
		t.Fatal(err)
	}
	prevRoots := m.GetRoots()
	dels := []Hash{leaves[0].Hash}
	proof, err := m.Prove(dels)
	if err != nil {
		t.Fatal(err)
	}
	if err := m.Modify(nil, dels, proof); err != nil {
		t.Fatal(err)
	}

	placeholder := Proof{Targets: proof.Targets, Proof: make([]Hash, len(proof.Proof))}
	for i := range placeholder.Proof {
		placeholder.Proof[i] = Hash{0xff}
	}
	want := append([]Hash{}, placeholder.Proof...)
	if err := m.Undo(0, placeholder, dels, prevRoots); err != nil {
		t.Fatal(err)
	}
	if !reflect.DeepEqual(m.GetRoots(), prevRoots) {
		t.Fatalf("roots after the undo differ")
	}
	if !reflect.DeepEqual(placeholder.Proof, want) {
		t.Errorf("MapPollard.Undo wrote into the caller's proof hashes: have %x.., want %x..",
			placeholder.Proof[0][:4], want[0][:4])
	}
}
