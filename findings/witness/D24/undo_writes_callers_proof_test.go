package utreexo

import (
	"reflect"
	"sync"
	"testing"
)

func undoProofDemoSetup(t *testing.T, n int) (forests []*MapPollard, adds []Leaf, delHashes []Hash, proof Proof, before Stump) {
	mkHash := func(i int) Hash {
		var h Hash
		h[0] = byte(i)
		h[31] = 0xD2
		return h
	}
	leaves := make([]Leaf, 8)
	for i := range leaves {
		leaves[i] = Leaf{Hash: mkHash(i + 1), Remember: true}
	}
	for i := 0; i < n; i++ {
		p := NewMapPollard(true)
		if err := p.Modify(leaves, nil, Proof{}); err != nil {
			t.Fatal(err)
		}
		forests = append(forests, &p)
	}
	before = forests[0].GetStump()
	delHashes = []Hash{leaves[0].Hash, leaves[5].Hash}
	adds = []Leaf{{Hash: mkHash(101)}, {Hash: mkHash(102)}}
	proof, err := forests[0].Prove(delHashes)
	if err != nil {
		t.Fatal(err)
	}
	for _, p := range forests {
		if err := p.Modify(adds, delHashes, proof); err != nil {
			t.Fatal(err)
		}
	}
	return
}

// Run with:  go test -race -vet=off -count=1 -run TestUnchangedUndoRacesOnCallersProof .
//
// Two goroutines use the block's undo data, which they share read-only as far as they are
// concerned: one undoes the block on a map forest, the other checks the same proof against the
// roots-only verifier (or undoes the same block on a second map forest). Undo writes into
// proof.Proof, so the race detector reports a data race inside (*MapPollard).undoDeletion.
func TestUnchangedUndoRacesOnCallersProof(t *testing.T) {
	forests, adds, delHashes, proof, before := undoProofDemoSetup(t, 2)

	var wg sync.WaitGroup
	wg.Add(3)
	for _, p := range forests {
		go func(p *MapPollard) {
			defer wg.Done()
			if err := p.Undo(uint64(len(adds)), proof, delHashes, before.Roots); err != nil {
				t.Error(err)
			}
		}(p)
	}
	go func() {
		defer wg.Done()
		if _, err := Verify(before, delHashes, proof); err != nil {
			t.Error(err)
		}
	}()
	wg.Wait()
}

// The same write seen without the race detector: when a hash in the caller's proof differs
// from what the (full) forest stores at that position, Undo succeeds and silently rewrites
// the caller's slice.
func TestUnchangedUndoRewritesCallersProof(t *testing.T) {
	forests, adds, delHashes, proof, before := undoProofDemoSetup(t, 1)

	mine := Proof{Targets: append([]uint64{}, proof.Targets...), Proof: append([]Hash{}, proof.Proof...)}
	mine.Proof[0][7] ^= 0xff
	snapshot := append([]Hash{}, mine.Proof...)

	if err := forests[0].Undo(uint64(len(adds)), mine, delHashes, before.Roots); err != nil {
		t.Fatalf("Undo: %v", err)
	}
	if !reflect.DeepEqual(snapshot, mine.Proof) {
		t.Fatalf("Undo wrote into the proof slice of its caller:\n was: %s\n now: %s",
			printHashes(snapshot), printHashes(mine.Proof))
	}
}
