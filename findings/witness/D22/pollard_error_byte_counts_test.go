package utreexo

import (
	"bytes"
	"crypto/sha256"
	"errors"
	"io"
	"testing"
)

// sink that accepts `limit` bytes in total and then fails (partial write + error).
type ubcFailWriter struct {
	limit, accepted int
}

func (f *ubcFailWriter) Write(p []byte) (int, error) {
	room := f.limit - f.accepted
	if room >= len(p) {
		f.accepted += len(p)
		return len(p), nil
	}
	f.accepted += room
	return room, errors.New("sink full")
}

// reader that counts what was handed out.
type ubcCountReader struct {
	r io.Reader
	n int
}

func (c *ubcCountReader) Read(p []byte) (int, error) {
	n, err := c.r.Read(p)
	c.n += n
	return n, err
}

func ubcPollard(t *testing.T) (*Pollard, []byte) {
	p := NewAccumulator()
	adds := make([]Leaf, 8)
	for i := range adds {
		adds[i] = Leaf{Hash: sha256.Sum256([]byte{0xc1, byte(i)})}
	}
	if err := p.Modify(adds, nil, Proof{}); err != nil {
		t.Fatal(err)
	}
	var buf bytes.Buffer
	if _, err := p.WriteTo(&buf); err != nil {
		t.Fatal(err)
	}
	return &p, buf.Bytes()
}

// Pollard.WriteTo on a sink that fails part-way: the byte count that comes back with
// the error has to be the number of bytes the sink took.
func TestUnchangedPollardWriteToCountOnFailingSink(t *testing.T) {
	p, stream := ubcPollard(t)
	// Fail at a node boundary (16 byte header + k records of 34 bytes) so that no
	// partially written field is involved.
	for _, k := range []int{16 + 34, 16 + 34*7, len(stream) - 34} {
		fw := &ubcFailWriter{limit: k}
		n, err := p.WriteTo(fw)
		if err == nil {
			t.Fatalf("sink failing at %d: no error", k)
		}
		if int(n) != fw.accepted {
			t.Errorf("sink failing at offset %d of %d: WriteTo reports %d bytes, the sink took %d",
				k, len(stream), n, fw.accepted)
		}
	}
}

// RestorePollardFrom on a strict prefix: the byte count that comes back with the error
// has to be the number of bytes taken from the reader.
func TestUnchangedRestorePollardFromCountOnTruncatedStream(t *testing.T) {
	_, stream := ubcPollard(t)
	for _, k := range []int{16 + 34, 16 + 34*7, len(stream) - 34} {
		cr := &ubcCountReader{r: bytes.NewReader(stream[:k])}
		n, _, err := RestorePollardFrom(cr)
		if err == nil {
			t.Fatalf("prefix of %d bytes: no error", k)
		}
		if int(n) != cr.n {
			t.Errorf("prefix of %d of %d bytes: RestorePollardFrom reports %d bytes, %d were consumed",
				k, len(stream), n, cr.n)
		}
	}
}
