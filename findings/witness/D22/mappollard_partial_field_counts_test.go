package utreexo

import (
	"bytes"
	"crypto/sha256"
	"errors"
	"io"
	"testing"
)

type umcFailWriter struct {
	limit, accepted int
}

func (f *umcFailWriter) Write(p []byte) (int, error) {
	room := f.limit - f.accepted
	if room >= len(p) {
		f.accepted += len(p)
		return len(p), nil
	}
	f.accepted += room
	return room, errors.New("sink full")
}

type umcCountReader struct {
	r io.Reader
	n int
}

func (c *umcCountReader) Read(p []byte) (int, error) {
	n, err := c.r.Read(p)
	c.n += n
	return n, err
}

// MapPollard.Write / MapPollard.Read: when the sink fails, or the stream ends, in the
// middle of a field, the bytes of that field that did go through are not counted.
func TestUnchangedMapPollardCountsOnPartialField(t *testing.T) {
	m := NewMapPollard(false)
	adds := make([]Leaf, 4)
	for i := range adds {
		adds[i] = Leaf{Hash: sha256.Sum256([]byte{0xc2, byte(i)}), Remember: true}
	}
	if err := m.Modify(adds, nil, Proof{}); err != nil {
		t.Fatal(err)
	}
	var buf bytes.Buffer
	if _, err := m.Write(&buf); err != nil {
		t.Fatal(err)
	}
	stream := buf.Bytes()

	// 1+8+8 header bytes, then a 32 byte hash: offset 30 is inside the first hash.
	const k = 30
	fw := &umcFailWriter{limit: k}
	n, err := m.Write(fw)
	if err == nil {
		t.Fatal("no error from a failing sink")
	}
	if n != fw.accepted {
		t.Errorf("Write: sink failing at offset %d: reported %d bytes, the sink took %d", k, n, fw.accepted)
	}

	cr := &umcCountReader{r: bytes.NewReader(stream[:k])}
	m2 := NewMapPollard(false)
	rn, err := m2.Read(cr)
	if err == nil {
		t.Fatal("no error from a truncated stream")
	}
	if rn != cr.n {
		t.Errorf("Read: prefix of %d bytes: reported %d bytes, %d were consumed", k, rn, cr.n)
	}
}
