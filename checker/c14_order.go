package main

import (
	"fmt"
	"go/types"
	"sort"
	"strings"

	"golang.org/x/tools/go/ssa"
)

// Order contracts of the API entries: for every parameter (by position) the
// order class the documentation gives its slices. Field names of the exported
// structs (Proof.Targets, Proof.Proof, UpdateData.*) are API; parameter names
// are not and are never consulted.
//
// Groups are symbolic: slices in the same group and class are parallel (equal
// length, element i of one belongs to element i of the other).

type fieldOC map[string]OC // "" for a plain slice parameter, field name for struct parameters

type orderContract struct {
	params []fieldOC // index = parameter position (receiver included)
}

func raw(g string) OC    { return OC{ocRaw, g} }
func canon(g string) OC  { return OC{ocCanon, g} }
func sorted(g string) OC { return OC{ocSorted, g} }

func proofOC(g string) fieldOC { return fieldOC{"Targets": raw(g), "Proof": canon(g)} }

var updateDataOC = fieldOC{
	"NewDelPos": sorted("UD"), "NewDelHash": sorted("UD"),
	"NewAddPos": sorted("UA"), "NewAddHash": sorted("UA"),
}

var orderContracts = map[string]orderContract{
	// func Verify(stump Stump, delHashes []Hash, proof Proof)
	"Verify": {[]fieldOC{nil, {"": raw("T")}, proofOC("T")}},
	// func (s *Stump) Update(delHashes, addHashes []Hash, proof Proof)
	"(*Stump).Update": {[]fieldOC{nil, {"": raw("T")}, {"": raw("ADD")}, proofOC("T")}},
	// Verify(delHashes []Hash, proof Proof, remember bool)
	"(*Pollard).Verify":    {[]fieldOC{nil, {"": raw("T")}, proofOC("T")}},
	"(*MapPollard).Verify": {[]fieldOC{nil, {"": raw("T")}, proofOC("T")}},
	"(*MapPollard).Ingest": {[]fieldOC{nil, {"": raw("T")}, proofOC("T")}},
	// Modify(adds []Leaf, delHashes []Hash, proof Proof)
	"(*Pollard).Modify":    {[]fieldOC{nil, {"": raw("ADD")}, {"": raw("T")}, proofOC("T")}},
	"(*MapPollard).Modify": {[]fieldOC{nil, {"": raw("ADD")}, {"": raw("T")}, proofOC("T")}},
	// Undo(numAdds uint64, proof Proof, hashes, prevRoots []Hash)
	"(*Pollard).Undo":    {[]fieldOC{nil, nil, proofOC("T"), {"": raw("T")}, {"": OC{ocBuilt, "prevRoots"}}}},
	"(*MapPollard).Undo": {[]fieldOC{nil, nil, proofOC("T"), {"": raw("T")}, {"": OC{ocBuilt, "prevRoots"}}}},
	// VerifyPartialProof(origTargets []uint64, delHashes, proofHashes []Hash, remember bool)
	"(*MapPollard).VerifyPartialProof": {[]fieldOC{nil, {"": raw("T")}, {"": raw("T")}, {"": OC{ocBuilt, "partial proof"}}}},
	// GetMissingPositions(origTargets []uint64)
	"(*MapPollard).GetMissingPositions": {[]fieldOC{nil, {"": raw("T")}}},
	// func NewMapPollardFromRoots(rootHashes []Hash, numLeaves uint64, full bool)
	"NewMapPollardFromRoots": {[]fieldOC{{"": OC{ocBuilt, "roots"}}}},
	// func GetMissingPositions(numLeaves uint64, proofTargets, desiredTargets []uint64)
	"GetMissingPositions": {[]fieldOC{nil, {"": raw("P")}, {"": raw("D")}}},
	// func AddProof(proofA, proofB Proof, targetHashesA, targetHashesB []Hash, numLeaves uint64)
	"AddProof": {[]fieldOC{proofOC("A"), proofOC("B"), {"": raw("A")}, {"": raw("B")}}},
	// func GetProofSubset(proof Proof, hashes []Hash, wants []uint64, numLeaves uint64)
	"GetProofSubset": {[]fieldOC{proofOC("T"), {"": raw("T")}, {"": raw("W")}}},
	// func (p *Proof) Update(cachedHashes, addHashes []Hash, blockTargets []uint64, remembers []uint32, updateData UpdateData)
	"(*Proof).Update": {[]fieldOC{proofOC("P"), {"": raw("P")}, {"": raw("ADD")}, {"": raw("B")}, {"": OC{ocBuilt, "remembers"}}, updateDataOC}},
	// func (p *Proof) Undo(numAdds, numLeaves uint64, dels []uint64, delHashes, cachedHashes []Hash, toDestroy []uint64, proof Proof)
	"(*Proof).Undo": {[]fieldOC{proofOC("P"), nil, nil, {"": raw("B")}, {"": raw("B")}, {"": raw("P")}, {"": OC{ocBuilt, "toDestroy"}}, proofOC("B")}},
	// func (cs *CachingScheduleTracker) AddBlockSummary(deletions []uint64, numAdds uint16)
	"(*CachingScheduleTracker).AddBlockSummary": {[]fieldOC{nil, {"": raw("D")}}},
	// func getPrevPos(totalRows uint8, cached, deleted, toDestroy []uint64, numAdds uint16, numLeaves uint64)
	// (reached from genTTLs with the recorded deletions of a block, kept in the prover's order)
	"getPrevPos": {[]fieldOC{nil, {"": OC{ocBuilt, "cached"}}, {"": raw("D")}, {"": OC{ocBuilt, "toDestroy"}}}},
	// Prune(hashes []Hash)
	"(*MapPollard).Prune": {[]fieldOC{nil, {"": raw("H")}}},
	// Prove(hashes []Hash)
	"(*Pollard).Prove":    {[]fieldOC{nil, {"": raw("H")}}},
	"(*MapPollard).Prove": {[]fieldOC{nil, {"": raw("H")}}},
	// look-ups: GetLeafPosition(hash Hash), GetLeafHashPositions(hashes []Hash), GetHash(pos uint64)
	"(*MapPollard).GetLeafPosition":      {[]fieldOC{nil, nil}},
	"(*MapPollard).GetLeafHashPositions": {[]fieldOC{nil, {"": raw("H")}}},
	"(*MapPollard).GetHash":              {[]fieldOC{nil, nil}},
}

// layoutOverride: position parameters that are not in the current tree layout
// when the entry is called. Undo receives the targets of the block it undoes:
// positions of the forest before that block's additions.
var layoutOverride = map[string]CrdSet{
	"(*MapPollard).Undo/arg2.Targets": crdPrev,
}

// seedOrderEntry builds the abstract arguments and the initial state of an entry.
func seedOrderEntry(it *oInterp, p *Program, fn *ssa.Function, st *OState) []*OV {
	name := p.FuncName(fn)
	oc := orderContracts[name]
	var args []*OV
	classFor := func(i int, field string, dflt string) OC {
		if i < len(oc.params) && oc.params[i] != nil {
			if c, ok := oc.params[i][field]; ok {
				return c
			}
		}
		return OC{ocBuilt, "param:" + dflt}
	}
	for i, par := range fn.Params {
		av := newOV()
		label := fmt.Sprintf("%s/arg%d", name, i)
		switch u := par.Type().Underlying().(type) {
		case *types.Slice:
			a := it.arr("tok:"+label, par.Name())
			st.cls[a] = csOf(classFor(i, "", label))
			if isPositionSlice(par.Type()) {
				st.crd[a] = crdTree
			}
			av = ovArr(a)
		case *types.Struct:
			for f := 0; f < u.NumFields(); f++ {
				if !isSliceT(u.Field(f).Type()) {
					continue
				}
				fnm := u.Field(f).Name()
				a := it.arr("tok:"+label+"."+fnm, par.Name()+"."+fnm)
				st.cls[a] = csOf(classFor(i, fnm, label+"."+fnm))
				if isPositionSlice(u.Field(f).Type()) {
					st.crd[a] = crdTree
					if c, ok := layoutOverride[label+"."+fnm]; ok {
						st.crd[a] = c
					}
				}
				av.ensure(fmt.Sprintf(".%d", f)).join(ovArr(a))
			}
		case *types.Pointer:
			sty, ok := u.Elem().Underlying().(*types.Struct)
			if !ok {
				break
			}
			c := it.cell("recv:"+label, "*"+par.Name())
			content := newOV()
			for f := 0; f < sty.NumFields(); f++ {
				// only pointer parameters with a tabled contract carry tracked slices
				// (the accumulators' own state is not order-classified)
				if !isSliceT(sty.Field(f).Type()) || i >= len(oc.params) || oc.params[i] == nil {
					continue
				}
				fnm := sty.Field(f).Name()
				a := it.arr("tok:"+label+"."+fnm, par.Name()+"."+fnm)
				st.cls[a] = csOf(classFor(i, fnm, label+"."+fnm))
				if isPositionSlice(sty.Field(f).Type()) {
					st.crd[a] = crdTree
				}
				content.ensure(fmt.Sprintf(".%d", f)).join(ovArr(a))
			}
			st.mem[c] = content
			av = &OV{Locs: map[oLoc]bool{{c, ""}: true}}
		}
		args = append(args, av)
	}
	return args
}

// ---------------------------------------------------------------------------

type orderRun struct {
	it      *oInterp
	entries []*ssa.Function
	rets    map[*ssa.Function]*OV
	outs    map[*ssa.Function]*OState
	seeds   map[*ssa.Function][]*OV
}

// runOrderEngine interprets the entries and returns the engine with its events.
func runOrderEngine(p *Program, r *Report, rule string, names []string) *orderRun {
	or := &orderRun{it: newOInterp(p), rets: map[*ssa.Function]*OV{}, outs: map[*ssa.Function]*OState{}, seeds: map[*ssa.Function][]*OV{}}
	for _, n := range names {
		fn := p.Func(n)
		if fn == nil {
			r.MissingAnchor(rule, n, "API entry named by the property not found")
			continue
		}
		if _, ok := orderContracts[n]; !ok {
			r.MissingAnchor(rule, n, "no order contract tabled for this entry")
			continue
		}
		st := newOState()
		args := seedOrderEntry(or.it, p, fn, st)
		ret, out := or.it.analyze(fn, args, st, nil)
		if ok := or.it.lastOK; ok != nil {
			out = ok // output contracts are about what a successful call returns
		}
		or.entries = append(or.entries, fn)
		or.rets[fn], or.outs[fn], or.seeds[fn] = ret, out, args
	}
	for _, n := range sortedKeys(requiresSorted) {
		if p.Func(n) == nil && !hasGenericOrigin(p, n) {
			r.MissingAnchor(rule, n, "function of the requires-sorted table not found (renamed or removed): its call sites can no longer be checked")
		}
	}
	for n := range or.it.missing {
		r.MissingAnchor(rule, n, "anchor of the order engine not found")
	}
	r.Stats["e7.functions_interpreted"] = len(or.it.funcsHit)
	r.Stats["e7.contexts"] = len(or.it.memo)
	r.Stats["e7.arrays"] = len(or.it.arrs)
	r.Stats["e7.events"] = len(or.it.events)
	return or
}

// hasGenericOrigin: a generic function is only present through instantiations.
func hasGenericOrigin(p *Program, name string) bool {
	for _, f := range p.Funcs {
		if o := f.Origin(); o != nil && p.FuncName(o) == name {
			return true
		}
		if baseName(p.FuncName(f)) == name {
			return true
		}
	}
	if m := p.SSA.Members[name]; m != nil {
		return true
	}
	return false
}

// siteKey names a call site without lines: function, callee, ordinal among the
// function's call sites of that callee (in source order).
func siteKey(p *Program, in ssa.Instruction, what string) string {
	fn := in.Parent()
	type cs struct {
		pos int
		in  ssa.Instruction
	}
	var all []cs
	base := what
	if i := strings.IndexByte(base, '#'); i >= 0 {
		base = base[:i]
	}
	for _, b := range fn.Blocks {
		for _, x := range b.Instrs {
			c, ok := x.(*ssa.Call)
			if !ok {
				continue
			}
			nm := ""
			if sc := c.Common().StaticCallee(); sc != nil {
				if o := sc.Origin(); o != nil {
					nm = p.FuncName(o)
				} else {
					nm = baseName(p.FuncName(sc))
				}
			}
			if nm == base || strings.HasSuffix(nm, "."+base) {
				all = append(all, cs{int(c.Pos()), x})
			}
		}
	}
	if _, isStore := in.(*ssa.Store); isStore {
		// composite literal: ordinal among the stores into field 1 of hashAndPos variables
		for _, b := range fn.Blocks {
			for _, x := range b.Instrs {
				s, ok := x.(*ssa.Store)
				if !ok {
					continue
				}
				fa, ok := s.Addr.(*ssa.FieldAddr)
				if !ok || !p.localNamed(deref(fa.X.Type()), "hashAndPos") {
					continue
				}
				all = append(all, cs{int(InstrPos(s)), x})
			}
		}
	}
	sort.Slice(all, func(i, j int) bool { return all[i].pos < all[j].pos })
	ord := 0
	for i, c := range all {
		if c.in == in {
			ord = i + 1
		}
	}
	return fmt.Sprintf("%s->%s@%d", p.FuncName(fn), what, ord)
}

// pairVerdict decides whether two class sets describe the same order.
func pairVerdict(a, b ClassSet) (ok bool, undecided bool, why string) {
	if len(a) == 0 || len(b) == 0 {
		return true, false, "one operand is nil/absent (nothing is paired)"
	}
	a, b = a.nonEmpty(), b.nonEmpty()
	if len(a) == 0 || len(b) == 0 {
		return true, false, "one operand has no elements or is a zero-filled placeholder (its order is immaterial)"
	}
	ca, oka := a.single()
	cb, okb := b.single()
	if oka && okb {
		if ca == cb {
			return true, false, "both operands are in class " + ca.String()
		}
		if (ca.K == ocEmpty || ca.K == ocSingle) && (cb.K == ocEmpty || cb.K == ocSingle) {
			return true, false, "both operands are empty or one-element literals"
		}
		if ca.K == ocBuilt || cb.K == ocBuilt || ca.K == ocSBuilt || cb.K == ocSBuilt || ca.K == ocEmpty || cb.K == ocEmpty {
			if ca.K >= ocBuilt && cb.K >= ocBuilt {
				return false, true, "operands were assembled separately (" + ca.String() + " vs " + cb.String() + "); their alignment cannot be established"
			}
			// a resolved class against an unresolved one
			return false, true, "one operand is in class " + ca.String() + ", the other was assembled locally (" + cb.String() + ")"
		}
		return false, false, "operands are in different order classes: " + ca.String() + " vs " + cb.String()
	}
	if a.equal(b) {
		return false, true, "both operands may be in any of " + a.String() + " and the analysis cannot correlate the paths"
	}
	return false, false, "operands may be in different order classes: " + a.String() + " vs " + b.String()
}

type orderRules struct {
	pair, sink, output, coord string
}

// reportOrderEvents turns the engine's events into obligations.
func reportOrderEvents(p *Program, r *Report, or *orderRun, rules orderRules) (nPair, nSink int) {
	type agg struct {
		key      string
		pos      string
		bad      *oEvent
		und      *oEvent
		whyBad   string
		whyUnd   string
		okWhy    string
		n        int
		resolved bool
	}
	pairs := map[string]*agg{}
	sinks := map[string]*agg{}
	coords := map[string]*agg{}
	var pk, sk, ck []string
	for _, e := range or.it.events {
		switch e.Kind {
		case oevPair, oevIndexPar:
			if rules.pair == "" {
				continue
			}
			key := siteKey(p, e.In, e.What)
			if e.Kind == oevIndexPar {
				key = fmt.Sprintf("%s/index-parallel(%s,%s)", p.FuncName(e.Fn), e.NameA, e.NameB)
			}
			a := pairs[key]
			if a == nil {
				a = &agg{key: key, pos: posOf(p, e.In)}
				pairs[key] = a
				pk = append(pk, key)
			}
			a.n++
			ok, und, why := pairVerdict(e.A, e.B)
			if e.Kind == oevIndexPar && und {
				ok, und = true, false
			}
			switch {
			case ok:
				a.okWhy = fmt.Sprintf("%s ∥ %s: %s", e.NameA, e.NameB, why)
				if resolvedClass(e.A) && resolvedClass(e.B) {
					a.resolved = true
				}
			case und:
				if a.und == nil {
					a.und, a.whyUnd = e, fmt.Sprintf("%s ∥ %s: %s", e.NameA, e.NameB, why)
				}
			default:
				if a.bad == nil {
					a.bad, a.whyBad = e, fmt.Sprintf("%s is paired index by index with %s, but %s", e.NameA, e.NameB, why)
				}
			}
		case oevSink:
			if rules.sink == "" {
				continue
			}
			key := siteKey(p, e.In, e.What)
			a := sinks[key]
			if a == nil {
				a = &agg{key: key, pos: posOf(p, e.In)}
				sinks[key] = a
				sk = append(sk, key)
			}
			a.n++
			if c, isRaw := e.A.hasRaw(); isRaw {
				if a.bad == nil {
					what := "still in the caller's order"
					if c.K == ocDesc {
						what = "sorted in descending order"
					}
					a.bad, a.whyBad = e, fmt.Sprintf("a slice %s (%s; possible classes %s) reaches %s, which requires input sorted ascending", what, c.String(), e.A.String(), e.What)
				}
			} else if c, isConcat := e.A.hasConcat(); isConcat {
				if a.bad == nil {
					a.bad, a.whyBad = e, fmt.Sprintf("a sorted list with another sorted list appended behind it (%s; possible classes %s) reaches %s, which requires input sorted ascending: two ascending runs are one ascending list only if every element of the second is larger than every element of the first, which nothing here establishes (a merge or a sort would)", c.String(), e.A.String(), e.What)
				}
			} else {
				a.okWhy = "argument classes " + e.A.String() + ": never the caller's order"
			}
		case oevCoord:
			if rules.coord == "" {
				continue
			}
			key := siteKey(p, e.In, e.What)
			a := coords[key]
			if a == nil {
				a = &agg{key: key, pos: posOf(p, e.In)}
				coords[key] = a
				ck = append(ck, key)
			}
			a.n++
			if !e.Have.compatible(e.Need) {
				if a.bad == nil {
					a.bad, a.whyBad = e, fmt.Sprintf("%s may be in the %s layout but %s works in the %s layout: positions are read in the wrong coordinate system", e.NameA, (e.Have&^(e.Need|crdBoth)).String(), e.What, e.Need.String())
				}
			} else {
				a.okWhy = fmt.Sprintf("%s is in the %s layout, as %s needs (%s)", e.NameA, e.Have.String(), e.What, e.Need.String())
			}
		case oevUndecided:
			rule := rules.pair
			if rule == "" {
				rule = rules.sink
			}
			if rule == "" {
				rule = rules.output
			}
			r.Undecided(rule, "engine/"+p.FuncName(e.Fn)+"/"+e.What, p.Pos(e.Fn.Pos()), e.Detail)
		}
	}
	sort.Strings(pk)
	sort.Strings(sk)
	var resolvedKeys []string
	for _, k := range pk {
		a := pairs[k]
		switch {
		case a.bad != nil:
			r.Violate(rules.pair, k, a.pos, a.whyBad, a.bad.Stack...)
		case a.und != nil:
			// One operand was assembled locally (its order is not a named class):
			// nothing can be compared. Recorded as not decided; the floor on
			// resolved sites keeps a formerly decided site from silently moving here.
			r.Discharge(rules.pair, k, a.pos, "NOT DECIDED (no verdict): "+a.whyUnd, false)
			r.Stats["pair_sites_not_decided"]++
		default:
			if a.resolved {
				r.Stats["pair_sites_resolved"]++
				resolvedKeys = append(resolvedKeys, k)
			}
			r.Discharge(rules.pair, k, a.pos, fmt.Sprintf("%s (in %d context(s))", a.okWhy, a.n), a.resolved)
		}
	}
	if rules.pair != "" {
		r.Notes = append(r.Notes, "resolved pairing sites: "+strings.Join(resolvedKeys, "; "))
	}
	for _, k := range sk {
		a := sinks[k]
		if a.bad != nil {
			r.Violate(rules.sink, k, a.pos, a.whyBad, a.bad.Stack...)
		} else {
			r.Discharge(rules.sink, k, a.pos, fmt.Sprintf("%s (in %d context(s))", a.okWhy, a.n), true)
		}
	}
	sort.Strings(ck)
	for _, k := range ck {
		a := coords[k]
		if a.bad != nil {
			r.Violate(rules.coord, k, a.pos, a.whyBad, a.bad.Stack...)
		} else {
			r.Discharge(rules.coord, k, a.pos, fmt.Sprintf("%s (in %d context(s))", a.okWhy, a.n), true)
		}
	}
	r.Stats["coord_sites"] = len(ck)
	return len(pk), len(sk)
}

// outSpec names what an entry must return: result index, optional struct
// field, and the admissible classes.
type outSpec struct {
	result int
	field  string // "" = the result itself
	allow  []OC
	what   string
}

func checkOutputs(p *Program, r *Report, or *orderRun, rule string, specs map[string][]outSpec) int {
	n := 0
	for _, fn := range or.entries {
		name := p.FuncName(fn)
		for _, sp := range specs[name] {
			n++
			key := fmt.Sprintf("%s/result#%d", name, sp.result)
			if sp.field != "" {
				key += "." + sp.field
			}
			v := or.rets[fn].fld(sp.result)
			if sp.field != "" {
				rt := fn.Signature.Results().At(sp.result).Type()
				st, ok := rt.Underlying().(*types.Struct)
				idx := -1
				if ok {
					for i := 0; i < st.NumFields(); i++ {
						if st.Field(i).Name() == sp.field {
							idx = i
						}
					}
				}
				if idx < 0 {
					r.Undecided(rule, key, p.Pos(fn.Pos()), "result field not found")
					continue
				}
				v = v.fld(idx)
			}
			cls := or.outs[fn].classOf(v)
			var bad []string
			for c := range cls {
				ok := c.K == ocEmpty || c.K == ocSingle
				for _, a := range sp.allow {
					if a == c {
						ok = true
					}
				}
				if !ok {
					bad = append(bad, c.String())
				}
			}
			sort.Strings(bad)
			var allow []string
			for _, a := range sp.allow {
				allow = append(allow, a.String())
			}
			switch {
			case len(cls) == 0:
				r.Undecided(rule, key, p.Pos(fn.Pos()), "the returned value designates no array the analysis knows")
			case len(bad) > 0:
				r.Violate(rule, key, p.Pos(fn.Pos()), fmt.Sprintf("%s: may be returned in order class %s, contract requires %s", sp.what, strings.Join(bad, ","), strings.Join(allow, "|")), "in "+name)
			default:
				r.Discharge(rule, key, p.Pos(fn.Pos()), fmt.Sprintf("%s: returned in %s (admissible: %s, empty, single)", sp.what, cls.String(), strings.Join(allow, "|")), true)
			}
		}
	}
	return n
}

// checkOutputLayout: a position slice returned by an entry of the map forest
// must be in the tree layout (the coordinate system of the API).
func checkOutputLayout(p *Program, r *Report, or *orderRun, rule string, name string, result int, field string) {
	var fn *ssa.Function
	for _, f := range or.entries {
		if p.FuncName(f) == name {
			fn = f
		}
	}
	if fn == nil {
		return
	}
	key := name + "/layout-of-result"
	v := or.rets[fn].fld(result)
	if field != "" {
		st, ok := fn.Signature.Results().At(result).Type().Underlying().(*types.Struct)
		idx := -1
		for i := 0; ok && i < st.NumFields(); i++ {
			if st.Field(i).Name() == field {
				idx = i
			}
		}
		if idx < 0 {
			r.Undecided(rule, key, p.Pos(fn.Pos()), "result field not found")
			return
		}
		v = v.fld(idx)
	}
	c := or.outs[fn].crdOf(v)
	if c == 0 && v != nil {
		c = v.Crd // a single position
	}
	switch {
	case c == 0:
		r.Undecided(rule, key, p.Pos(fn.Pos()), "the layout of the returned positions is unknown to the analysis")
	case !c.compatible(crdTree):
		r.Violate(rule, key, p.Pos(fn.Pos()), "the returned positions may be in the "+(c&^(crdTree|crdBoth)).String()+" layout; the API exchanges positions in the tree layout (TreeRows(NumLeaves))", "in "+name)
	default:
		r.Discharge(rule, key, p.Pos(fn.Pos()), "the returned positions are in the "+c.String()+" layout", true)
	}
}

// alignedOutputs checks that two returned slices come out in the same class
// (e.g. the cached hashes returned by (*Proof).Update and the targets left in
// the receiver).
func checkAlignedReceiver(p *Program, r *Report, or *orderRun, rule string, names []string) {
	for _, fn := range or.entries {
		name := p.FuncName(fn)
		found := false
		for _, n := range names {
			if n == name {
				found = true
			}
		}
		if !found {
			continue
		}
		key := name + "/returned-hashes∥receiver.Targets"
		out := or.outs[fn]
		// receiver cell
		recv := or.seeds[fn][0]
		cur := out.load(recv)
		st, _ := deref(fn.Params[0].Type()).Underlying().(*types.Struct)
		ti := -1
		for i := 0; st != nil && i < st.NumFields(); i++ {
			if st.Field(i).Name() == "Targets" {
				ti = i
			}
		}
		if ti < 0 {
			r.Undecided(rule, key, p.Pos(fn.Pos()), "receiver has no Targets field")
			continue
		}
		tc := out.classOf(cur.fld(ti))
		hc := out.classOf(or.rets[fn].fld(0))
		// early error returns hand back the caller's own hashes with an untouched receiver: both raw
		ok, und, why := pairVerdict(tc, hc)
		if !ok && !und {
			// compare class by class: every class of the hashes must be one of the targets' classes
			all := true
			for c := range hc {
				if !tc[c] {
					all = false
				}
			}
			for c := range tc {
				if !hc[c] {
					all = false
				}
			}
			if all {
				ok, why = true, "targets and hashes range over the same classes "+tc.String()
			}
		}
		switch {
		case ok:
			r.Discharge(rule, key, p.Pos(fn.Pos()), "the hashes returned and the targets left in the receiver are parallel: "+why, true)
		case und:
			if tc.equal(hc) {
				r.Discharge(rule, key, p.Pos(fn.Pos()), "the hashes returned and the targets left in the receiver range over the same classes "+tc.String(), true)
			} else {
				r.Undecided(rule, key, p.Pos(fn.Pos()), "receiver.Targets "+tc.String()+" vs returned hashes "+hc.String()+": "+why)
			}
		default:
			r.Violate(rule, key, p.Pos(fn.Pos()), "the hashes returned are not parallel to the targets left in the receiver: receiver.Targets "+tc.String()+" vs returned hashes "+hc.String(), "in "+name)
		}
	}
}

// ---------------------------------------------------------------------------
// C14

var c14Entries = []string{
	"AddProof", "GetProofSubset", "GetMissingPositions",
	"(*MapPollard).GetMissingPositions", "(*MapPollard).VerifyPartialProof",
	// consumers of the combined / restricted proofs: their pairing sites
	// (calculateHashes, ingest, undoDeletion, cached-proof update) are the
	// "parallel order" clause of the statement
	"Verify", "(*MapPollard).Ingest", "(*MapPollard).Undo", "(*Proof).Update", "(*Proof).Undo",
}

func runC14(p *Program, r *Report) {
	r.Rule("R14a", "PAIRING: wherever positions and hashes are combined index by index (toHashAndPos, hashAndPos{a,b}, a[i]/b[i] under one index) both operands are in the same order class")
	r.Rule("R14b", "ORDER-TAINT: no slice still in an order chosen by the caller reaches a function documented as requiring sorted input")
	r.Rule("R14c", "COVERAGE-GATE: proof restriction returns success only behind the test that every wanted target is covered, whose failing edge returns an error")
	r.Rule("R14d", "OUTPUT-ORDER: proof restriction returns hashes and targets in the order of the request")
	or := runOrderEngine(p, r, "R14a", c14Entries)
	r.Rule("R14e", "LAYOUT: positions are handed to position arithmetic, to the proof-position function and to the node store only in the coordinate system (tree layout vs the map forest's TotalRows layout) that the accompanying forest height denotes")
	nPair, nSink := reportOrderEvents(p, r, or, orderRules{pair: "R14a", sink: "R14b", coord: "R14e"})
	r.Floor("R14a", "pairing sites reached from the entries", nPair, 18)
	r.Floor("R14b", "requires-sorted call sites reached from the entries", nSink, 40)
	checkOutputs(p, r, or, "R14d", map[string][]outSpec{
		"GetProofSubset": {
			{result: 0, allow: []OC{raw("W")}, what: "hashes of the restricted proof"},
			{result: 1, field: "Targets", allow: []OC{raw("W")}, what: "targets of the restricted proof"},
		},
	})
	checkCoverageGate(p, r)
	checkOutputLayout(p, r, or, "R14e", "(*MapPollard).GetMissingPositions", 0, "")
	checkHeldTargetsUntouched(p, r)
	checkHeldSetIsCallers(p, r, or, "R14k")
	r.Rule("R14g", "SPARSE-LIST-CURSOR: the hashes supplied for the missing positions are consumed through their own cursor, advanced exactly where one is consumed, never indexed by the counter of the loop over all proof positions")
	checkSparseCursor(p, r, "R14g")
	r.Rule("R14h", "MISSING-DECIDED-BY-LOOKUP: every result of the missing-positions method for a non-empty request is reached through look-ups of the node store, never through a configuration shortcut")
	checkMissingByLookup(p, r, "R14h")
	{
		var es []*ssa.Function
		for _, n := range []string{"AddProof", "GetProofSubset", "GetMissingPositions", "(*MapPollard).GetMissingPositions", "(*MapPollard).VerifyPartialProof"} {
			if f := p.Func(n); f != nil {
				es = append(es, f)
			}
		}
		checkThreadedState(p, r, "R14i", es, 1)
	}
	r.Rule("R14l", "SUBTRACTION-NOT-SKIPPED: a subtraction step of the proof combination runs on every path, or is skipped only on a test of the length of the list being subtracted")
	checkSubtractionNotSkipped(p, r, "R14l", "AddProof", 2)
	r.Rule("R14m", "UNION-NOT-CONCATENATION: no list the proof combination returns is assembled by putting a list of one proof behind a list of the other (append(a, b...), AppendMany, copy, slices.Concat, directly or in a helper); the lists of the two proofs are joined by the de-duplicating merges")
	checkUnionNotConcat(p, r, "R14m", "AddProof", 2)
	r.Rule("R14n", "RESTRICTION-RECOMPUTES: the hashing core runs on every path to a success return of the proof restriction (the proof of a subset contains nodes computed from the targets that are dropped)")
	checkRestrictionRecomputes(p, r, "R14n", "GetProofSubset", "calculateHashes")
	r.Rule("R14j", "JOINT-PROOF-POSITIONS: the single-target proof-position helper is never called in a loop whose results are accumulated into one list (the proof of several targets is computed by the joint function)")
	checkJointProofPositions(p, r, "R14j")
}

// checkHeldTargetsUntouched (R14f): the stand-alone GetMissingPositions is
// documented to sort the desired targets it is given, but the targets of the
// proof the caller already holds stay parallel to the caller's hashes only if
// they are not reordered: no mutation sink may be reachable with that slice
// (slice-ownership engine E3, one entry, one protected parameter).
func checkHeldTargetsUntouched(p *Program, r *Report) {
	r.Rule("R14f", "HELD-PROOF-UNTOUCHED: computing the missing positions does not reorder or overwrite the targets of the proof the caller already holds (they stay parallel to the caller's hashes)")
	fn := p.Func("GetMissingPositions")
	if fn == nil {
		r.MissingAnchor("R14f", "GetMissingPositions", "stand-alone missing-positions function not found")
		return
	}
	it := newInterp(p)
	seed := seedEntry(it, p, fn)
	// the held proof's targets: the first []uint64 parameter
	var held *Obj
	for i, par := range fn.Params {
		if isPositionSlice(par.Type()) && i < len(seed.tokens)+8 {
			for _, tok := range seed.tokens {
				if tok.Name == par.Name() && held == nil {
					held = tok
				}
			}
			if held != nil {
				break
			}
		}
	}
	if held == nil {
		r.Undecided("R14f", "GetMissingPositions/held-targets", p.Pos(fn.Pos()), "cannot identify the parameter carrying the held proof's targets")
		return
	}
	for round := 0; round < 12; round++ {
		it.round++
		it.changed = false
		it.analyze(seed.fn, seed.args, nil)
		if !it.changed {
			break
		}
	}
	key := "GetMissingPositions/held-targets"
	for _, e := range it.order {
		if e.Obj != held {
			continue
		}
		switch e.Kind {
		case evMutate:
			r.Violate("R14f", key, posOf(p, e.In), "the targets of the held proof are written: "+e.What+" in "+p.FuncName(e.In.Parent())+"; the caller's parallel hashes no longer belong to them", e.Stack...)
			return
		case evUndecided:
			r.Undecided("R14f", key, posOf(p, e.In), "the held proof's targets are "+e.What)
			return
		}
	}
	r.Discharge("R14f", key, p.Pos(fn.Pos()), "no mutation sink is reachable with the held proof's targets ("+held.Name+")", true)
}

// checkCoverageGate (R14c): in GetProofSubset every success return is
// dominated by the false edge of a test len(X) > 0 (or != 0) whose true edge
// returns a non-nil error, where X derives from subtracting the proof's
// targets from the wants.
func checkCoverageGate(p *Program, r *Report) {
	fn := p.Func("GetProofSubset")
	if fn == nil {
		r.MissingAnchor("R14c", "GetProofSubset", "proof restriction not found")
		return
	}
	key := "GetProofSubset/coverage-gate"
	// wants parameter: the []uint64 parameter; proof: the struct parameter
	var wants, proof ssa.Value
	for _, par := range fn.Params {
		if sl, ok := par.Type().Underlying().(*types.Slice); ok {
			if b, ok := sl.Elem().Underlying().(*types.Basic); ok && b.Kind() == types.Uint64 {
				wants = par
			}
		}
		if p.localNamed(par.Type(), "Proof") {
			proof = par
		}
	}
	if wants == nil || proof == nil {
		r.Undecided("R14c", key, p.Pos(fn.Pos()), "cannot identify the wants / proof parameters")
		return
	}
	fromWants := func(v ssa.Value) bool {
		return flowsFrom(v, func(x ssa.Value) bool { return x == wants }, 0, map[ssa.Value]bool{})
	}
	fromTargets := func(v ssa.Value) bool {
		return flowsFrom(v, func(x ssa.Value) bool {
			if f, ok := x.(*ssa.Field); ok && f.X == proof && fieldName(proof.Type(), f.Field) == "Targets" {
				return true
			}
			return paramFieldRead(fn, x, paramIndex(fn, proof), "Targets")
		}, 0, map[ssa.Value]bool{})
	}
	// candidate gates: If on len(X) > 0 / != 0 with X = call(…) having one arg from wants and one from proof.Targets
	var gate *ssa.If
	for _, b := range fn.Blocks {
		if len(b.Instrs) == 0 {
			continue
		}
		iff, ok := b.Instrs[len(b.Instrs)-1].(*ssa.If)
		if !ok {
			continue
		}
		bo, ok := iff.Cond.(*ssa.BinOp)
		if !ok {
			continue
		}
		x, isLen := lenArg(bo.X)
		if !isLen {
			continue
		}
		c, ok := bo.Y.(*ssa.Const)
		if !ok || c.Value == nil || c.Int64() != 0 {
			continue
		}
		if bo.Op.String() != ">" && bo.Op.String() != "!=" {
			continue
		}
		call, ok := x.(*ssa.Call)
		if !ok || len(call.Common().Args) < 2 {
			continue
		}
		if !(fromWants(call.Common().Args[0]) && fromTargets(call.Common().Args[1])) {
			continue
		}
		if !blockReturnsNonNilError(b.Succs[0]) {
			continue
		}
		gate = iff
	}
	if gate == nil {
		r.Violate("R14c", key, p.Pos(fn.Pos()), "no test 'wants minus proof targets is non-empty -> return an error' found: a restriction to a target the proof does not cover would not be refused", "in GetProofSubset")
		return
	}
	bad := 0
	for _, ret := range successReturns(fn) {
		if !edgeDominates(gate.Block(), gate.Block().Succs[1], ret.Block()) {
			bad++
		}
	}
	if bad > 0 {
		r.Violate("R14c", key, posOf(p, gate), fmt.Sprintf("%d success return(s) are not behind the coverage test", bad), "in GetProofSubset")
		return
	}
	r.Discharge("R14c", key, posOf(p, gate), "every success return is dominated by the edge on which (wants − proof.Targets) is empty; the other edge returns an error", true)
}

// flowsFrom is derivesDeep extended through call arguments, re-slices and
// interface conversions: v is computed from a value satisfying pred.
func flowsFrom(v ssa.Value, pred func(ssa.Value) bool, depth int, seen map[ssa.Value]bool) bool {
	if v == nil || depth > 12 || seen[v] {
		return false
	}
	if derivesDeep(v, pred, 0, map[ssa.Value]bool{}) {
		return true
	}
	seen[v] = true
	switch x := v.(type) {
	case *ssa.Call:
		for _, a := range x.Common().Args {
			if flowsFrom(a, pred, depth+1, seen) {
				return true
			}
		}
	case *ssa.Extract:
		return flowsFrom(x.Tuple, pred, depth+1, seen)
	case *ssa.Slice:
		return flowsFrom(x.X, pred, depth+1, seen)
	case *ssa.MakeInterface:
		return flowsFrom(x.X, pred, depth+1, seen)
	case *ssa.Phi:
		for _, e := range x.Edges {
			if flowsFrom(e, pred, depth+1, seen) {
				return true
			}
		}
	case *ssa.UnOp:
		if al, ok := x.X.(*ssa.Alloc); ok {
			for _, ref := range *al.Referrers() {
				if s, ok := ref.(*ssa.Store); ok && s.Addr == al && flowsFrom(s.Val, pred, depth+1, seen) {
					return true
				}
			}
			return false
		}
		return flowsFrom(x.X, pred, depth+1, seen)
	case *ssa.Field:
		return flowsFrom(x.X, pred, depth+1, seen)
	case *ssa.FieldAddr:
		if al, ok := x.X.(*ssa.Alloc); ok {
			for _, ref := range *al.Referrers() {
				switch rr := ref.(type) {
				case *ssa.Store:
					if rr.Addr == al && flowsFrom(rr.Val, pred, depth+1, seen) {
						return true
					}
				case *ssa.FieldAddr:
					if rr.Field != x.Field {
						continue
					}
					for _, r2 := range *rr.Referrers() {
						if st, ok := r2.(*ssa.Store); ok && st.Addr == rr && flowsFrom(st.Val, pred, depth+1, seen) {
							return true
						}
					}
				}
			}
			return false
		}
		return flowsFrom(x.X, pred, depth+1, seen)
	case *ssa.BinOp:
		return flowsFrom(x.X, pred, depth+1, seen) || flowsFrom(x.Y, pred, depth+1, seen)
	case *ssa.Convert:
		return flowsFrom(x.X, pred, depth+1, seen)
	case *ssa.IndexAddr:
		return flowsFrom(x.X, pred, depth+1, seen)
	case *ssa.Index:
		return flowsFrom(x.X, pred, depth+1, seen)
	}
	return false
}

func paramIndex(fn *ssa.Function, v ssa.Value) int {
	for i, par := range fn.Params {
		if par == v {
			return i
		}
	}
	return -1
}

// ---------------------------------------------------------------------------
// C05

var c05Entries = []string{
	"(*Stump).Update", "(*Pollard).Modify", "(*MapPollard).Modify",
	"Verify", "(*Pollard).Verify", "(*MapPollard).Verify",
	"(*Pollard).Undo", "(*MapPollard).Undo",
}

func runC05(p *Program, r *Report) {
	r.Rule("R05a", "ORDER-INDEPENDENCE: in verification, block application and undo, the caller's target order never reaches a function that requires sorted input, and hashes are paired with targets only in the same order class")
	r.Rule("R05b", "PROOF-HASH NON-INTERFERENCE: neither forest's block application reads the proof hashes (trailing or non-canonical proof hashes cannot influence the forests)")
	r.Rule("R05c", "PHASE-ORDER: all three implementations delete before they add")
	or := runOrderEngine(p, r, "R05a", c05Entries)
	r.Rule("R05d", "LAYOUT: in verification (with remembering), block application and undo, positions are used only in the coordinate system (tree layout vs TotalRows layout) that the accompanying forest height denotes")
	nPair, nSink := reportOrderEvents(p, r, or, orderRules{pair: "R05a", sink: "R05a", coord: "R05d"})
	r.Floor("R05a", "pairing and requires-sorted sites reached from the block-application entries", nPair+nSink, 14)
	r.Rule("R05h", "NOT-THE-LAST-ITERATION-ONLY: a boolean that a function of the block-application and verification closure returns after a loop is not a flag that every iteration overwrites with what it found (a predicate over a list must not forget the earlier elements)")
	checkNotLastIterationOnly(p, r, "R05h", []string{"(*MapPollard).Modify", "(*Pollard).Modify", "(*Stump).Update", "Verify", "(*Pollard).Verify", "(*MapPollard).Verify", "(*MapPollard).VerifyPartialProof"}, 3)

	// R05b: field-read scan over the reach of both Modify implementations
	n := 0
	for _, name := range []string{"(*Pollard).Modify", "(*MapPollard).Modify"} {
		fn := p.Func(name)
		if fn == nil {
			r.MissingAnchor("R05b", name, "block application not found")
			continue
		}
		n++
		var hits []string
		var firstPos string
		for _, g := range sortedFuncs(p, p.StaticReach(fn)) {
			for _, b := range g.Blocks {
				for _, in := range b.Instrs {
					var t types.Type
					var idx int
					switch x := in.(type) {
					case *ssa.Field:
						t, idx = x.X.Type(), x.Field
					case *ssa.FieldAddr:
						t, idx = x.X.Type(), x.Field
					default:
						continue
					}
					if p.localNamed(t, "Proof") && fieldName(t, idx) == "Proof" {
						hits = append(hits, p.FuncName(g)+" at "+posOf(p, in))
						if firstPos == "" {
							firstPos = posOf(p, in)
						}
					}
				}
			}
		}
		key := name + "/reads-proof-hashes"
		if len(hits) > 0 {
			r.Violate("R05b", key, firstPos, "block application reads Proof.Proof ("+strings.Join(hits, "; ")+"): an accepted proof with junk or non-canonical proof hashes could now change the forest", "in "+name)
		} else {
			r.Discharge("R05b", key, p.Pos(fn.Pos()), fmt.Sprintf("no read of Proof.Proof in the %d functions reachable from %s", len(p.StaticReach(fn)), name), true)
		}
	}
	r.Floor("R05b", "forest block applications", n, 2)
	// the verifier-state update: after its verifier accepted the block it must not
	// look at the proof hashes again (their number, their contents) - only the
	// verifier and the hashing core may read them
	if upd := p.Func("(*Stump).Update"); upd != nil {
		va := resolveVerifyAnchors(p)
		var hits []string
		firstPos := ""
		for _, g := range sortedFuncs(p, p.StaticReach(upd)) {
			if g == va.verify || g == va.core || (va.core != nil && p.StaticReach(va.core)[g]) || (va.verify != nil && g != upd && p.StaticReach(va.verify)[g] && !isStumpMethod(p, g)) {
				continue
			}
			for _, b := range g.Blocks {
				for _, in := range b.Instrs {
					var t types.Type
					var idx int
					switch x := in.(type) {
					case *ssa.Field:
						t, idx = x.X.Type(), x.Field
					case *ssa.FieldAddr:
						t, idx = x.X.Type(), x.Field
					default:
						continue
					}
					if p.localNamed(t, "Proof") && fieldName(t, idx) == "Proof" {
						hits = append(hits, p.FuncName(g)+" at "+posOf(p, in))
						if firstPos == "" {
							firstPos = posOf(p, in)
						}
					}
				}
			}
		}
		key := "(*Stump).Update/reads-proof-hashes"
		if len(hits) > 0 {
			r.Violate("R05b", key, firstPos, "the verifier-state update reads Proof.Proof outside its verifier and the hashing core ("+strings.Join(hits, "; ")+"): an encoding its own verifier accepts (trailing unused proof hashes) could be refused or applied differently", "in (*Stump).Update")
		} else {
			r.Discharge("R05b", key, p.Pos(upd.Pos()), "outside the verifier and the hashing core the verifier-state update never reads Proof.Proof", true)
		}
	} else {
		r.MissingAnchor("R05b", "(*Stump).Update", "verifier-state update not found")
	}

	// R05c = R01a
	sub := NewReport("C05")
	sub.curCfg = r.curCfg
	runC01(p, sub)
	for _, o := range sub.Obs {
		if o.Rule != "R01a" {
			continue
		}
		switch o.Status {
		case Discharged:
			r.Discharge("R05c", o.Key, o.Pos, o.Detail, o.Nontrivial)
		case Violated:
			r.Violate("R05c", o.Key, o.Pos, o.Detail, o.Path...)
		default:
			r.Undecided("R05c", o.Key, o.Pos, o.Detail)
		}
	}
}

// ---------------------------------------------------------------------------
// C02

var c02Entries = []string{"(*Pollard).Prove", "(*MapPollard).Prove"}

func runC02(p *Program, r *Report) {
	r.Rule("R02a", "REQUEST-ORDER: both provers return the targets in the order of the requested hashes and the proof hashes in the canonical order of those same targets")
	r.Rule("R02b", "SORTED-TO-PROOFPOS: the positions handed to the proof-position function are a sorted copy, never the request order")
	r.Rule("R02c", "NO-SILENT-HOLE: a prover that cannot read a needed hash returns an error, never a proof with a hole")
	or := runOrderEngine(p, r, "R02a", c02Entries)
	r.Rule("R02d", "LAYOUT: the provers compute proof positions in the layout of the forest height they pass along, and the map forest returns its targets in the tree layout")
	_, nSink := reportOrderEvents(p, r, or, orderRules{pair: "R02b", sink: "R02b", coord: "R02d"})
	r.Floor("R02b", "requires-sorted call sites in the provers", nSink, 2)
	specs := map[string][]outSpec{}
	for _, n := range c02Entries {
		specs[n] = []outSpec{
			{result: 0, field: "Targets", allow: []OC{raw("H")}, what: "targets of the proof"},
			{result: 0, field: "Proof", allow: []OC{canon("H")}, what: "proof hashes"},
		}
	}
	n := checkOutputs(p, r, or, "R02a", specs)
	r.Floor("R02a", "prover results", n, 4)
	checkOutputLayout(p, r, or, "R02d", "(*MapPollard).Prove", 0, "Targets")
	checkNoSilentHole(p, r)
}

// checkNoSilentHole (R02c): in each prover, the loop that fetches the proof
// hashes tests every fetched hash (== empty, or the found flag of a lookup)
// and the failing edge returns a non-nil error.
func checkNoSilentHole(p *Program, r *Report) {
	n := 0
	for _, name := range c02Entries {
		fn := p.Func(name)
		if fn == nil {
			r.MissingAnchor("R02c", name, "prover not found")
			continue
		}
		// fetch sites: calls in a loop whose result (a Hash or a (Leaf,bool)) feeds the proof hashes;
		// searched in the prover and in the helpers of the same receiver it calls
		// (the fetch loop may have been extracted into a method)
		scope := []*ssa.Function{fn}
		for _, sc := range callsIn(p, fn) {
			if callee := sc.call.Common().StaticCallee(); callee != nil && p.owns(callee) && callee.Signature.Recv() != nil && fn.Signature.Recv() != nil &&
				types.Identical(callee.Signature.Recv().Type(), fn.Signature.Recv().Type()) && errorResultIndex(callee.Signature) >= 0 {
				if v := errChain(sc.call, ErrChainOpts{}); v.OK {
					scope = append(scope, callee)
				}
			}
		}
		for _, fn := range scope {
			for _, b := range fn.Blocks {
				for _, in := range b.Instrs {
					c, ok := in.(*ssa.Call)
					if !ok {
						continue
					}
					hdr, _ := enclosingRangeIndex(b)
					if hdr == nil {
						continue
					}
					res := c.Common().Signature().Results()
					var fetched bool
					var okFlag ssa.Value
					var hashVal ssa.Value
					switch {
					case res.Len() == 1 && isHashType(res.At(0).Type()) && c.Common().StaticCallee() != nil && p.owns(c.Common().StaticCallee()) && len(c.Common().Args) == 2 && isUint64(c.Common().Args[1].Type()):
						fetched, hashVal = true, c
					case res.Len() == 2 && c.Common().IsInvoke() && c.Common().Method.Name() == "Get" && p.localNamed(res.At(0).Type(), "Leaf") && isUint64(c.Common().Args[0].Type()):
						fetched = true
						okFlag = resultValue(c, 1)
					}
					if !fetched {
						continue
					}
					// only fetches whose position comes from the proof-position list
					n++
					key := fmt.Sprintf("%s/fetch->%s", name, exprName(c))
					guarded := false
					// find an If in the loop body testing the hash against empty or the ok flag
					for _, bb := range fn.Blocks {
						if len(bb.Instrs) == 0 || !(b == bb || b.Dominates(bb)) {
							continue
						}
						iff, ok := bb.Instrs[len(bb.Instrs)-1].(*ssa.If)
						if !ok {
							continue
						}
						var errSucc *ssa.BasicBlock
						if okFlag != nil && iff.Cond == okFlag {
							errSucc = bb.Succs[1]
						} else if bo, ok := iff.Cond.(*ssa.BinOp); ok && hashVal != nil && (bo.X == hashVal || bo.Y == hashVal) {
							other := bo.Y
							if bo.Y == hashVal {
								other = bo.X
							}
							if isEmptyGlobal(other) {
								if bo.Op.String() == "==" {
									errSucc = bb.Succs[0]
								} else if bo.Op.String() == "!=" {
									errSucc = bb.Succs[1]
								}
							}
						}
						if errSucc != nil && blockReturnsNonNilError(errSucc) {
							guarded = true
						}
					}
					if guarded {
						r.Discharge("R02c", key, posOf(p, c), "the fetched hash is tested and the missing case returns a non-nil error", true)
					} else {
						r.Violate("R02c", key, posOf(p, c), "a hash fetched for the proof is not tested for absence with an error return: a proof with a hole could be returned as success", "in "+name)
					}
				}
			}
		}
	}
	r.Floor("R02c", "proof-hash fetch sites in the provers", n, 2)

	// R02e: a prover may return a constant position only for a forest that has
	// ever had exactly one leaf.
	r.Rule("R02e", "NO-CONSTANT-POSITION: a prover returns a literal position only behind the test that the forest has ever had exactly one leaf (NumLeaves == 1); any other lone leaf has climbed away from position 0")
	m := 0
	for _, name := range c02Entries {
		fn := p.Func(name)
		if fn == nil {
			continue
		}
		for _, ret := range returnsOf(fn) {
			if !isSuccessReturn(ret) {
				continue
			}
			// literal position slices stored into the returned Proof
			v := retOperands(ret)[0]
			u, ok := v.(*ssa.UnOp)
			if !ok {
				continue
			}
			al, ok := u.X.(*ssa.Alloc)
			if !ok {
				continue
			}
			for _, ref := range *al.Referrers() {
				fa, ok := ref.(*ssa.FieldAddr)
				if !ok || fieldName(fa.X.Type(), fa.Field) != "Targets" {
					continue
				}
				for _, r2 := range *fa.Referrers() {
					st, ok := r2.(*ssa.Store)
					if !ok || st.Addr != fa || !dominatesInstr(st, ret) {
						continue
					}
					sl, ok := st.Val.(*ssa.Slice)
					if !ok {
						continue
					}
					if lit, ok := sl.X.(*ssa.Alloc); !ok || !strings.Contains(lit.Comment, "slicelit") {
						continue
					}
					m++
					key := fmt.Sprintf("%s/literal-targets#%d", name, m)
					guarded := false
					for _, g := range guardsAt(ret.Block()) {
						rel, ok := relOf(g)
						if !ok || rel.Op.String() != "==" {
							continue
						}
						for _, pr := range [][2]ssa.Value{{rel.X, rel.Y}, {rel.Y, rel.X}} {
							_, f, isField := fieldRead(pr[0])
							c, isConst := pr[1].(*ssa.Const)
							if isField && f == "NumLeaves" && isConst && c.Value != nil && c.Uint64() == 1 {
								guarded = true
							}
						}
					}
					if guarded {
						r.Discharge("R02e", key, posOf(p, ret), "the literal position is returned only when NumLeaves == 1", true)
					} else {
						r.Violate("R02e", key, posOf(p, ret), "a literal position is returned without the test NumLeaves == 1: the only live leaf of a forest that once had more leaves is not at position 0", "in "+name)
					}
				}
			}
		}
	}
	r.Stats["literal_position_returns"] = m
}

func isStumpMethod(p *Program, f *ssa.Function) bool {
	return f.Signature.Recv() != nil && p.localNamed(f.Signature.Recv().Type(), "Stump")
}

func isUint64(t types.Type) bool {
	b, ok := t.Underlying().(*types.Basic)
	return ok && b.Kind() == types.Uint64
}

// checkHeldSetIsCallers (R14k): the stand-alone GetMissingPositions works out
// what the caller already has from the targets of the proof it holds. The
// list that is subtracted from the desired targets and the list handed to the
// proof-position function as "held" must be those targets themselves (a sorted
// copy: order class sorted(P) of the parameter's group), not something derived
// from them by a step that changes the elements (de-twinning replaces held
// leaves by their parent, which is then no longer removed from the request and
// whose children are no longer counted as available).
func checkHeldSetIsCallers(p *Program, r *Report, or *orderRun, rule string) {
	r.Rule(rule, "HELD-SET-IS-THE-CALLERS: the held list that the stand-alone missing-positions function subtracts from the request and hands to the proof-position function is the sorted copy of the caller's proof targets, element for element")
	fn := p.Func("GetMissingPositions")
	if fn == nil {
		r.MissingAnchor(rule, "GetMissingPositions", "stand-alone missing-positions function not found")
		return
	}
	want := OC{ocSorted, "P"}
	seen := map[string][]string{}
	ok := map[string]bool{}
	var pos = map[string]string{}
	for _, e := range or.it.events {
		if e.Kind != oevSink {
			continue
		}
		inFn := e.Fn == fn
		if !inFn && len(e.Stack) > 0 && strings.HasPrefix(e.Stack[0], "GetMissingPositions") {
			inFn = true
		}
		if !inFn {
			continue
		}
		if e.What != "ProofPositions#0" && e.What != "subtractSortedSlice#1" {
			continue
		}
		seen[e.What] = append(seen[e.What], e.A.String())
		if len(e.A) == 1 && e.A[want] {
			ok[e.What] = true
			pos[e.What] = posOf(p, e.In)
		}
	}
	for _, what := range []string{"subtractSortedSlice#1", "ProofPositions#0"} {
		key := "GetMissingPositions/" + what + "/held-set"
		switch {
		case ok[what]:
			r.Discharge(rule, key, pos[what], "a call of "+what+" receives exactly the sorted copy of the caller's proof targets (class "+want.String()+")", true)
		case len(seen[what]) == 0:
			r.Undecided(rule, key, p.Pos(fn.Pos()), "no call of "+what+" is reached from the stand-alone missing-positions function: cannot tell how the held set is taken into account")
		default:
			r.Violate(rule, key, p.Pos(fn.Pos()), fmt.Sprintf("no call of %s receives the sorted copy of the caller's proof targets (classes seen: %s): the held set was replaced by a list with other elements, so held targets are not removed from the request or their positions are not counted as available", what, strings.Join(seen[what], "; ")), "in GetMissingPositions")
		}
	}
}
