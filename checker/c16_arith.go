package main

import (
	"fmt"
	"go/token"
	"go/types"
	"strings"

	"golang.org/x/tools/go/ssa"
)

// C16 (thin): two structural necessary conditions of the exported position
// arithmetic. The numerical identities themselves are not decided.

var c16Exported = []string{
	"Parent", "LeftChild", "RightChild", "ChildMany", "ParentMany", "DetectRow",
	"RootPositions", "TreeRows", "DetectOffset", "ProofPositions",
}

func runC16(p *Program, r *Report) {
	r.Rule("R16a", "INTEGER-ONLY: no floating-point value and no call into package math (other than math/bits) occurs in the call closure of the exported position functions: float64 cannot represent every 64-bit position or leaf count")
	r.Rule("R16b", "COMPUTABLE-FOLLOWS-PARENT: in ProofPositions every step that replaces a working target by its parent also appends to the list of computable positions on every path to the next iteration")
	var entries []*ssa.Function
	for _, n := range c16Exported {
		if f := p.Func(n); f != nil {
			entries = append(entries, f)
		} else {
			r.MissingAnchor("R16a", n, "exported position function not found")
		}
	}
	reach := p.StaticReach(entries...)
	nf := 0
	for _, fn := range sortedFuncs(p, reach) {
		nf++
		key := p.FuncName(fn) + "/integer-only"
		var bad ssa.Instruction
		why := ""
		isFloat := func(t types.Type) bool {
			b, ok := t.Underlying().(*types.Basic)
			return ok && b.Info()&(types.IsFloat|types.IsComplex) != 0
		}
		for _, b := range fn.Blocks {
			for _, in := range b.Instrs {
				if v, ok := in.(ssa.Value); ok && isFloat(v.Type()) && bad == nil {
					bad, why = in, "a floating-point value is computed"
				}
				if c, ok := in.(*ssa.Call); ok {
					if f := calleeFunc(c.Common()); f != nil && f.Pkg() != nil && f.Pkg().Path() == "math" && bad == nil {
						bad, why = in, "math."+f.Name()+" is called"
					}
					for _, a := range c.Common().Args {
						if isFloat(a.Type()) && bad == nil {
							bad, why = in, "a floating-point argument is passed"
						}
					}
				}
			}
		}
		if bad != nil {
			r.Violate("R16a", key, posOf(p, bad), why+" in position arithmetic: float64 has a 53-bit mantissa, so the result is wrong for large positions / leaf counts (heights near 63)", "in "+p.FuncName(fn))
		} else {
			r.Discharge("R16a", key, p.Pos(fn.Pos()), "integer arithmetic only", false)
		}
	}
	r.Floor("R16a", "functions in the closure of the exported position arithmetic", nf, 15)

	r.Rule("R16c", "SHIFT-WIDTH: in the closure of the exported position arithmetic a left shift by a variable amount (a row, a height) is computed in a 64-bit type")
	r.Rule("R16d", "NO-SIGNED-LEAFCOUNT-ARITHMETIC: a leaf count converted to a signed integer type is only compared or passed on, never an operand of arithmetic")
	checkShiftAndCountWidth(p, r, "R16c", "R16d", reach, 5)
	r.Rule("R16e", "TOP-ROW-IS-A-ROW: a row (a DetectRow result or a loop counter) is compared with a forest height (a TreeRows result, a TotalRows field, a parameter that receives one at every call site) only inclusively: row <= H inside, row > H outside")
	checkTopRowIsARow(p, r, "R16e")
	r.Rule("R16f", "THE-MAXIMUM-IS-A-POSITION: a value is compared with the result of maxPositionAtRow / maxPossiblePosAtRow (the biggest position of a row) only inclusively: x <= max inside, x > max outside")
	checkMaximumIsAPosition(p, r, "R16f", 6)
	r.Rule("R16g", "ROW-ZERO-ENDS-BEFORE-ONE-SHIFTED: a position (by role) is compared with 1<<rows only strictly: pos < 1<<rows on row 0, pos >= 1<<rows above it")
	checkRowZeroTestStrict(p, r, "R16g")

	// R16b
	pp := p.Func("ProofPositions")
	if pp == nil {
		r.MissingAnchor("R16b", "ProofPositions", "proof-position function not found")
		return
	}
	// the computable list: the value web of result #1
	web := map[ssa.Value]bool{}
	var grow func(v ssa.Value)
	grow = func(v ssa.Value) {
		if v == nil || web[v] {
			return
		}
		web[v] = true
		switch x := v.(type) {
		case *ssa.Phi:
			for _, e := range x.Edges {
				grow(e)
			}
		case *ssa.Call:
			if builtinName(x.Common()) == "append" {
				grow(x.Common().Args[0])
			}
		case *ssa.Slice:
			grow(x.X)
		}
	}
	for _, ret := range returnsOf(pp) {
		if ops := retOperands(ret); len(ops) == 2 {
			grow(ops[1])
		}
	}
	isComputableAppend := func(in ssa.Instruction) bool {
		c, ok := in.(*ssa.Call)
		return ok && builtinName(c.Common()) == "append" && web[ssa.Value(c)]
	}
	parentFn := p.Func("Parent")
	n := 0
	for _, b := range pp.Blocks {
		for _, in := range b.Instrs {
			st, ok := in.(*ssa.Store)
			if !ok {
				continue
			}
			if _, isIA := st.Addr.(*ssa.IndexAddr); !isIA {
				continue
			}
			c, ok := st.Val.(*ssa.Call)
			if !ok || parentFn == nil || c.Common().StaticCallee() != parentFn {
				continue
			}
			n++
			key := fmt.Sprintf("ProofPositions/parent-step#%d", n)
			hdr := innermostLoopHeader(b)
			target := func(x ssa.Instruction) bool {
				if _, isRet := x.(*ssa.Return); isRet {
					return true
				}
				return hdr != nil && x.Block() == hdr && x == hdr.Instrs[0]
			}
			if at, esc := escapes(st, isComputableAppend, target); esc {
				r.Violate("R16b", key, posOf(p, st), fmt.Sprintf("a working target is replaced by its parent but a path reaches %s without listing a computable position: the second result misses an ancestor that can be computed", posOf(p, at)), "in ProofPositions")
			} else {
				r.Discharge("R16b", key, posOf(p, st), "every path to the next iteration appends to the computable list", true)
			}
		}
	}
	r.Floor("R16b", "parent steps in ProofPositions", n, 2)
}

func init() {
	register(&PropertyDef{
		ID:    "C16",
		Title: "Exported position arithmetic matches the forest geometry",
		Explanation: "Thin claim. The identities of the 64-bit position arithmetic are numerical and are NOT decided. Two structural necessary conditions are: R16a - the call " +
			"closure of the exported position functions computes with integers only (no floating-point value, no call into package math other than math/bits): float64 has " +
			"a 53-bit mantissa and cannot represent every position or leaf count the property quantifies over (heights up to 63); R16b - in ProofPositions every step that " +
			"replaces a working target by its parent also appends to the list of computable positions on every path to the next iteration (the second result lists the " +
			"computable ancestors).",
		NotDecided: "every numerical clause: that parent/child/ancestor functions are mutually inverse, root positions, row detection, translation between heights, the exact " +
			"contents of both results of ProofPositions. A wrong shift, mask or off-by-one is invisible to these rules.",
		Rules: []RuleDef{{ID: "R16", Statement: "integer-only position arithmetic; computable list follows parent steps", Run: runC16}},
	})
}

// ---------------------------------------------------------------------------
// R16c SHIFT-WIDTH and R16d NO-SIGNED-LEAFCOUNT-ARITHMETIC.
//
// The property ranges over forests of up to 63 rows and over all leaf counts.
// R16c: a left shift by a variable amount (a row, a height) is computed in a
// 64-bit type - "1 << row" in a narrower type silently yields 0 from row 32 (or
// 8, 16) on. R16d: a leaf count converted to a signed integer is only compared,
// never an operand of arithmetic - int(numLeaves) is negative from 2^63 on and
// 2*int(numLeaves) overflows from 2^62 on.

// leafCountParams: parameters that receive a leaf count, found by role: the
// parameter of TreeRows and of numRoots, and every parameter passed on to one.
func leafCountParams(p *Program) map[*ssa.Parameter]bool {
	set := map[*ssa.Parameter]bool{}
	for _, n := range []string{"TreeRows", "numRoots"} {
		if f := p.Func(n); f != nil && len(f.Params) == 1 {
			set[f.Params[0]] = true
		}
	}
	var strip func(v ssa.Value, d int) ssa.Value
	strip = func(v ssa.Value, d int) ssa.Value {
		if d > 6 {
			return v
		}
		switch x := v.(type) {
		case *ssa.Convert:
			return strip(x.X, d+1)
		case *ssa.ChangeType:
			return strip(x.X, d+1)
		case *ssa.BinOp:
			if x.Op == token.ADD || x.Op == token.SUB {
				return strip(x.X, d+1)
			}
		}
		return v
	}
	for changed := true; changed; {
		changed = false
		for _, fn := range p.Funcs {
			for _, b := range fn.Blocks {
				for _, in := range b.Instrs {
					c, ok := in.(*ssa.Call)
					if !ok {
						continue
					}
					callee := c.Common().StaticCallee()
					if callee == nil || callee.Pkg != p.SSA || len(callee.Params) != len(c.Common().Args) {
						continue
					}
					for i, a := range c.Common().Args {
						if !set[callee.Params[i]] {
							continue
						}
						if par, ok := strip(a, 0).(*ssa.Parameter); ok && isUint64(par.Type()) && !set[par] {
							set[par] = true
							changed = true
						}
					}
				}
			}
		}
	}
	return set
}

// isLeafCountValue: a leaf-count parameter or a load of a field called NumLeaves.
func isLeafCountValue(v ssa.Value, lc map[*ssa.Parameter]bool) bool {
	switch x := v.(type) {
	case *ssa.Parameter:
		return lc[x]
	case *ssa.UnOp:
		if fa, ok := x.X.(*ssa.FieldAddr); ok && x.Op == token.MUL {
			if st, ok := deref(fa.X.Type()).Underlying().(*types.Struct); ok && st.Field(fa.Field).Name() == "NumLeaves" {
				return true
			}
		}
	case *ssa.Field:
		if st, ok := x.X.Type().Underlying().(*types.Struct); ok && st.Field(x.Field).Name() == "NumLeaves" {
			return true
		}
	}
	return false
}

func checkShiftAndCountWidth(p *Program, r *Report, ruleShift, ruleCount string, reach map[*ssa.Function]bool, floorShift int) {
	lc := leafCountParams(p)
	nShift, nConv := 0, 0
	for _, fn := range sortedFuncs(p, reach) {
		name := p.FuncName(fn)
		si, ci := 0, 0
		for _, b := range fn.Blocks {
			for _, in := range b.Instrs {
				switch x := in.(type) {
				case *ssa.BinOp:
					if ruleShift != "" && x.Op == token.SHL {
						if _, isConst := x.Y.(*ssa.Const); isConst {
							continue
						}
						bt, ok := x.Type().Underlying().(*types.Basic)
						if !ok {
							continue
						}
						si++
						nShift++
						key := fmt.Sprintf("%s/shl#%d/width", name, si)
						if basicBits(bt) < 64 {
							r.Violate(ruleShift, key, posOf(p, x), fmt.Sprintf("a left shift by a variable amount is computed in %s (%d bits): the forest has up to 63 rows, and from shift count %d on the result is silently 0 - rows, positions or bits above that are lost", bt.Name(), basicBits(bt), basicBits(bt)), "in "+name)
						} else {
							r.Discharge(ruleShift, key, posOf(p, x), "variable left shift computed in a 64-bit type", true)
						}
					}
				case *ssa.Convert:
					if ruleCount == "" {
						continue
					}
					bt, ok := x.Type().Underlying().(*types.Basic)
					if !ok || bt.Info()&types.IsInteger == 0 || bt.Info()&types.IsUnsigned != 0 {
						continue
					}
					if !dependsOn(x.X, func(v ssa.Value) bool { return isLeafCountValue(v, lc) }) {
						continue
					}
					ci++
					nConv++
					key := fmt.Sprintf("%s/signed-leaf-count#%d", name, ci)
					var bad ssa.Instruction
					for _, ref := range *x.Referrers() {
						if bo, ok := ref.(*ssa.BinOp); ok {
							switch bo.Op {
							case token.ADD, token.SUB, token.MUL, token.QUO, token.SHL:
								if bad == nil {
									bad = bo
								}
							}
						}
					}
					if bad != nil {
						r.Violate(ruleCount, key, posOf(p, bad), fmt.Sprintf("a leaf count converted to %s (signed) is an operand of arithmetic: the property ranges over all leaf counts, int(n) is negative from 2^63 on and a product or sum of it overflows earlier (2*int(n) from 2^62 on) - a size, bound or index computed from it is then negative", bt.Name()), "in "+name)
					} else {
						r.Discharge(ruleCount, key, posOf(p, x), "the signed copy of the leaf count is only compared or passed on, not an operand of arithmetic", true)
					}
				}
			}
		}
	}
	if ruleShift != "" {
		r.Floor(ruleShift, "left shifts by a variable amount in the closure", nShift, floorShift)
	}
	if ruleCount != "" {
		r.Stats["signed_leafcount_conversions"] = nConv
	}
}

// ---------------------------------------------------------------------------
// R16e TOP-ROW-IS-A-ROW. A forest of height H has rows 0..H: the top row holds
// the root of a perfect forest, and the sole survivor of a deleted tree can be
// lifted onto it. A comparison between a row and a height therefore only ever
// says "row <= H" (inside) or "row > H" (outside); "row < H" as a loop bound or
// "row >= H" as an exclusion drops the top row. Rows and heights are told
// apart by role: a height is a result of TreeRows, a load of a TotalRows
// field, or a uint8 parameter that receives a height at every call site; a row
// is a result of DetectRow or a counter that a loop increments.

func heightParams(p *Program) map[*ssa.Parameter]bool {
	rowsFn := p.Func("TreeRows")
	set := map[*ssa.Parameter]bool{}
	isU8 := func(t types.Type) bool {
		b, ok := t.Underlying().(*types.Basic)
		return ok && b.Kind() == types.Uint8
	}
	var isHeight func(v ssa.Value, d int) bool
	isHeight = func(v ssa.Value, d int) bool {
		if d > 5 {
			return false
		}
		switch x := v.(type) {
		case *ssa.Call:
			return rowsFn != nil && x.Common().StaticCallee() == rowsFn
		case *ssa.Parameter:
			return set[x]
		case *ssa.Convert:
			return isHeight(x.X, d+1)
		case *ssa.UnOp:
			if fa, ok := x.X.(*ssa.FieldAddr); ok && x.Op == token.MUL {
				return fieldName(fa.X.Type(), fa.Field) == "TotalRows"
			}
		case *ssa.Field:
			return fieldName(x.X.Type(), x.Field) == "TotalRows"
		case *ssa.Phi:
			for _, e := range x.Edges {
				if !isHeight(e, d+1) {
					return false
				}
			}
			return len(x.Edges) > 0
		}
		return false
	}
	type site struct {
		fn  *ssa.Function
		idx int
	}
	for changed := true; changed; {
		changed = false
		all := map[*ssa.Parameter]bool{}
		seen := map[*ssa.Parameter]bool{}
		for _, fn := range p.Funcs {
			for _, b := range fn.Blocks {
				for _, in := range b.Instrs {
					c, ok := in.(ssa.CallInstruction)
					if !ok {
						continue
					}
					callee := c.Common().StaticCallee()
					if callee == nil || callee.Pkg != p.SSA || len(callee.Params) != len(c.Common().Args) {
						continue
					}
					for i, a := range c.Common().Args {
						par := callee.Params[i]
						if !isU8(par.Type()) {
							continue
						}
						if !seen[par] {
							seen[par] = true
							all[par] = true
						}
						if !isHeight(a, 0) {
							all[par] = false
						}
					}
				}
			}
		}
		for par, ok := range all {
			if ok && !set[par] {
				set[par] = true
				changed = true
			}
		}
	}
	return set
}

func checkTopRowIsARow(p *Program, r *Report, rule string) {
	rowsFn, detect := p.Func("TreeRows"), p.Func("DetectRow")
	if rowsFn == nil || detect == nil {
		r.MissingAnchor(rule, "TreeRows / DetectRow", "row functions not found")
		return
	}
	hp := heightParams(p)
	var isHeight func(v ssa.Value, d int) bool
	isHeight = func(v ssa.Value, d int) bool {
		if d > 5 {
			return false
		}
		switch x := v.(type) {
		case *ssa.Call:
			return x.Common().StaticCallee() == rowsFn
		case *ssa.Parameter:
			return hp[x]
		case *ssa.Convert:
			return isHeight(x.X, d+1)
		case *ssa.UnOp:
			if fa, ok := x.X.(*ssa.FieldAddr); ok && x.Op == token.MUL {
				return fieldName(fa.X.Type(), fa.Field) == "TotalRows"
			}
		case *ssa.Field:
			return fieldName(x.X.Type(), x.Field) == "TotalRows"
		}
		return false
	}
	var isRow func(v ssa.Value, d int) bool
	isRow = func(v ssa.Value, d int) bool {
		if d > 5 {
			return false
		}
		switch x := v.(type) {
		case *ssa.Call:
			return x.Common().StaticCallee() == detect
		case *ssa.Convert:
			return isRow(x.X, d+1)
		case *ssa.Phi:
			// a counter: a header phi that receives itself plus one around the loop
			if len(latches(x.Block())) == 0 {
				return false
			}
			for _, e := range x.Edges {
				if bo, ok := e.(*ssa.BinOp); ok && bo.Op == token.ADD && bo.X == ssa.Value(x) {
					if c, ok := bo.Y.(*ssa.Const); ok && c.Value != nil && c.Value.String() == "1" {
						return true
					}
				}
			}
		}
		return false
	}
	n := 0
	for _, fn := range p.Funcs {
		if fn.Blocks == nil || strings.Contains(p.FuncName(fn), "String") {
			continue // debug printers
		}
		idx := 0
		for _, b := range fn.Blocks {
			for _, in := range b.Instrs {
				bo, ok := in.(*ssa.BinOp)
				if !ok {
					continue
				}
				var op token.Token
				switch {
				case isRow(bo.X, 0) && isHeight(bo.Y, 0):
					op = bo.Op
				case isHeight(bo.X, 0) && isRow(bo.Y, 0):
					op = map[token.Token]token.Token{token.LSS: token.GTR, token.GTR: token.LSS, token.LEQ: token.GEQ, token.GEQ: token.LEQ, token.EQL: token.EQL, token.NEQ: token.NEQ}[bo.Op]
				default:
					continue
				}
				switch op {
				case token.LSS, token.GEQ, token.LEQ, token.GTR:
				default:
					continue
				}
				idx++
				n++
				key := fmt.Sprintf("%s/row-vs-height#%d", p.FuncName(fn), idx)
				if op == token.LEQ || op == token.GTR {
					r.Discharge(rule, key, posOf(p, bo), "the row is compared inclusively with the height (row <= H inside, row > H outside)", true)
				} else {
					r.Violate(rule, key, posOf(p, bo), fmt.Sprintf("a row is compared with a forest height using %s: a forest of height H has rows 0..H, so the top row - the root of a perfect forest, or a leaf lifted onto it - is treated as outside", map[token.Token]string{token.LSS: "row < H", token.GEQ: "row >= H"}[op]), "in "+p.FuncName(fn))
				}
			}
		}
	}
	r.Floor(rule, "comparisons of a row with a forest height", n, 8)
}

// ---------------------------------------------------------------------------
// R08j ROWS-NOT-SMALLER-THAN-THE-COUNT'S. A forest is described to the
// position functions by a leaf count and a height. The height may be that of
// the count, or a larger layout (the allocated rows, the rows after the
// additions); it can never be the height of a *smaller* forest: a call that
// passes the count n together with TreeRows(n - k) reads the roots of the
// n-leaf forest in a layout that cannot hold them. (Passing n - k with
// TreeRows(n) is fine: positions of the smaller forest in the larger layout.)

func checkRowsNotSmallerThanCounts(p *Program, r *Report, rule string) {
	rowsFn := p.Func("TreeRows")
	if rowsFn == nil {
		r.MissingAnchor(rule, "TreeRows", "row function not found")
		return
	}
	lc := leafCountParams(p)
	hp := heightParams(p)
	// the argument of the TreeRows call a height value was computed by (through one local variable)
	var rowsArg func(v ssa.Value, d int) ssa.Value
	rowsArg = func(v ssa.Value, d int) ssa.Value {
		if d > 4 {
			return nil
		}
		switch x := v.(type) {
		case *ssa.Call:
			if x.Common().StaticCallee() == rowsFn && len(x.Common().Args) == 1 {
				return x.Common().Args[0]
			}
		case *ssa.Convert:
			return rowsArg(x.X, d+1)
		case *ssa.UnOp:
			if al, ok := x.X.(*ssa.Alloc); ok {
				var only ssa.Value
				for _, ref := range *al.Referrers() {
					if st, ok := ref.(*ssa.Store); ok && st.Addr == ssa.Value(al) {
						if only != nil {
							return nil
						}
						only = st.Val
					}
				}
				return rowsArg(only, d+1)
			}
		}
		return nil
	}
	n := 0
	for _, fn := range p.Funcs {
		if fn.Blocks == nil {
			continue
		}
		idx := 0
		for _, sc := range callsIn(p, fn) {
			callee := sc.call.Common().StaticCallee()
			if callee == nil || callee.Pkg != p.SSA || callee == rowsFn {
				continue
			}
			args := sc.call.Common().Args
			if len(args) != len(callee.Params) {
				continue
			}
			// only callees that describe ONE forest: exactly one leaf count and exactly one height
			// (a helper that takes two heights translates between layouts)
			nCount, nHeight := 0, 0
			for _, q := range callee.Params {
				if lc[q] {
					nCount++
				}
				if hp[q] || (isUint8(q.Type()) && strings.Contains(strings.ToLower(q.Name()), "rows")) {
					nHeight++
				}
			}
			if nCount != 1 || nHeight != 1 {
				continue
			}
			for i, pi := range callee.Params {
				if !lc[pi] {
					continue
				}
				for j, pj := range callee.Params {
					if !hp[pj] && !(isUint8(pj.Type()) && strings.Contains(strings.ToLower(pj.Name()), "rows")) {
						continue
					}
					x := rowsArg(args[j], 0)
					if x == nil {
						continue
					}
					idx++
					n++
					key := fmt.Sprintf("%s->%s#%d/count-and-rows", p.FuncName(fn), p.FuncName(callee), idx)
					smaller := false
					if bo, ok := x.(*ssa.BinOp); ok && bo.Op == token.SUB && sameArith(bo.X, args[i]) {
						smaller = true
					}
					if smaller {
						r.Violate(rule, key, posOf(p, sc.call), "the call describes a forest by the leaf count n together with the height of a smaller forest, TreeRows(n - k): the roots and positions of the n-leaf forest do not fit that layout (passing n - k with TreeRows(n) would be fine)", "in "+p.FuncName(fn))
					} else {
						r.Discharge(rule, key, posOf(p, sc.call), "the height handed over with the leaf count is not that of a smaller forest", true)
					}
				}
			}
		}
	}
	r.Floor(rule, "calls that pass a leaf count together with a TreeRows height", n, 8)
}
