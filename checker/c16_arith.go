package main

import (
	"fmt"
	"go/types"

	"golang.org/x/tools/go/ssa"
)

// C16 (thin): two structural necessary conditions of the exported position
// arithmetic. The numerical identities themselves are not decided.

var c16Exported = []string{
	"Parent", "LeftChild", "RightChild", "ChildMany", "ParentMany", "DetectRow",
	"RootPositions", "TreeRows", "DetectOffset", "ProofPositions",
}

func runC16(p *Program, r *Report) {
	r.Rule("R16a", "INTEGER-ONLY: no floating-point value and no call into package math (other than math/bits) occurs in the call closure of the exported position functions: float64 cannot represent every 64-bit position or leaf count")
	r.Rule("R16b", "COMPUTABLE-FOLLOWS-PARENT: in ProofPositions every step that replaces a working target by its parent also appends to the list of computable positions on every path to the next iteration")
	var entries []*ssa.Function
	for _, n := range c16Exported {
		if f := p.Func(n); f != nil {
			entries = append(entries, f)
		} else {
			r.MissingAnchor("R16a", n, "exported position function not found")
		}
	}
	reach := p.StaticReach(entries...)
	nf := 0
	for _, fn := range sortedFuncs(p, reach) {
		nf++
		key := p.FuncName(fn) + "/integer-only"
		var bad ssa.Instruction
		why := ""
		isFloat := func(t types.Type) bool {
			b, ok := t.Underlying().(*types.Basic)
			return ok && b.Info()&(types.IsFloat|types.IsComplex) != 0
		}
		for _, b := range fn.Blocks {
			for _, in := range b.Instrs {
				if v, ok := in.(ssa.Value); ok && isFloat(v.Type()) && bad == nil {
					bad, why = in, "a floating-point value is computed"
				}
				if c, ok := in.(*ssa.Call); ok {
					if f := calleeFunc(c.Common()); f != nil && f.Pkg() != nil && f.Pkg().Path() == "math" && bad == nil {
						bad, why = in, "math."+f.Name()+" is called"
					}
					for _, a := range c.Common().Args {
						if isFloat(a.Type()) && bad == nil {
							bad, why = in, "a floating-point argument is passed"
						}
					}
				}
			}
		}
		if bad != nil {
			r.Violate("R16a", key, posOf(p, bad), why+" in position arithmetic: float64 has a 53-bit mantissa, so the result is wrong for large positions / leaf counts (heights near 63)", "in "+p.FuncName(fn))
		} else {
			r.Discharge("R16a", key, p.Pos(fn.Pos()), "integer arithmetic only", false)
		}
	}
	r.Floor("R16a", "functions in the closure of the exported position arithmetic", nf, 15)

	// R16b
	pp := p.Func("ProofPositions")
	if pp == nil {
		r.MissingAnchor("R16b", "ProofPositions", "proof-position function not found")
		return
	}
	// the computable list: the value web of result #1
	web := map[ssa.Value]bool{}
	var grow func(v ssa.Value)
	grow = func(v ssa.Value) {
		if v == nil || web[v] {
			return
		}
		web[v] = true
		switch x := v.(type) {
		case *ssa.Phi:
			for _, e := range x.Edges {
				grow(e)
			}
		case *ssa.Call:
			if builtinName(x.Common()) == "append" {
				grow(x.Common().Args[0])
			}
		case *ssa.Slice:
			grow(x.X)
		}
	}
	for _, ret := range returnsOf(pp) {
		if ops := retOperands(ret); len(ops) == 2 {
			grow(ops[1])
		}
	}
	isComputableAppend := func(in ssa.Instruction) bool {
		c, ok := in.(*ssa.Call)
		return ok && builtinName(c.Common()) == "append" && web[ssa.Value(c)]
	}
	parentFn := p.Func("Parent")
	n := 0
	for _, b := range pp.Blocks {
		for _, in := range b.Instrs {
			st, ok := in.(*ssa.Store)
			if !ok {
				continue
			}
			if _, isIA := st.Addr.(*ssa.IndexAddr); !isIA {
				continue
			}
			c, ok := st.Val.(*ssa.Call)
			if !ok || parentFn == nil || c.Common().StaticCallee() != parentFn {
				continue
			}
			n++
			key := fmt.Sprintf("ProofPositions/parent-step#%d", n)
			hdr := innermostLoopHeader(b)
			target := func(x ssa.Instruction) bool {
				if _, isRet := x.(*ssa.Return); isRet {
					return true
				}
				return hdr != nil && x.Block() == hdr && x == hdr.Instrs[0]
			}
			if at, esc := escapes(st, isComputableAppend, target); esc {
				r.Violate("R16b", key, posOf(p, st), fmt.Sprintf("a working target is replaced by its parent but a path reaches %s without listing a computable position: the second result misses an ancestor that can be computed", posOf(p, at)), "in ProofPositions")
			} else {
				r.Discharge("R16b", key, posOf(p, st), "every path to the next iteration appends to the computable list", true)
			}
		}
	}
	r.Floor("R16b", "parent steps in ProofPositions", n, 2)
}

func init() {
	register(&PropertyDef{
		ID:    "C16",
		Title: "Exported position arithmetic matches the forest geometry",
		Explanation: "Thin claim. The identities of the 64-bit position arithmetic are numerical and are NOT decided. Two structural necessary conditions are: R16a - the call " +
			"closure of the exported position functions computes with integers only (no floating-point value, no call into package math other than math/bits): float64 has " +
			"a 53-bit mantissa and cannot represent every position or leaf count the property quantifies over (heights up to 63); R16b - in ProofPositions every step that " +
			"replaces a working target by its parent also appends to the list of computable positions on every path to the next iteration (the second result lists the " +
			"computable ancestors).",
		NotDecided: "every numerical clause: that parent/child/ancestor functions are mutually inverse, root positions, row detection, translation between heights, the exact " +
			"contents of both results of ProofPositions. A wrong shift, mask or off-by-one is invisible to these rules.",
		Rules: []RuleDef{{ID: "R16", Statement: "integer-only position arithmetic; computable list follows parent steps", Run: runC16}},
	})
}
