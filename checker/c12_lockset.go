package main

import (
	"fmt"
	"go/types"
	"sort"
	"strings"

	"golang.org/x/tools/go/ssa"
)

// E4: lockset analysis for the struct that carries a sync.RWMutex (MapPollard).
//
// Slots are read from the code: the lock is the field of type
// (*)sync.RWMutex / (*)sync.Mutex; the guarded set G is every other field of
// that struct that is written anywhere outside a thread-local constructor
// context; interface-typed guarded fields are also accessed through their
// methods, classified reader/writer by looking at the package's own
// implementations.

const (
	lkNone = 0
	lkR    = 1
	lkW    = 2
)

func lkName(k int) string { return [...]string{"none", "read-lock", "write-lock"}[k] }

type lockInfo struct {
	p        *Program
	named    *types.Named
	st       *types.Struct
	lockIdx  int
	guarded  map[int]bool         // field index -> guarded
	immut    map[int]int          // field index -> number of constructor writes
	ifaceG   map[*types.Named]int // interface type of a guarded field -> field index
	mutators map[string]bool      // "Iface.Method" -> true if a package implementation mutates
}

type lkAccess struct {
	in    ssa.Instruction
	field string
	kind  int
	what  string
}

func isMutexType(t types.Type) bool {
	return typeIs(t, "sync", "RWMutex") || typeIs(t, "sync", "Mutex")
}

func findLockStructs(p *Program) []*lockInfo {
	var out []*lockInfo
	scope := p.Types.Scope()
	for _, name := range scope.Names() {
		tn, ok := scope.Lookup(name).(*types.TypeName)
		if !ok {
			continue
		}
		n, ok := tn.Type().(*types.Named)
		if !ok {
			continue
		}
		st, ok := n.Underlying().(*types.Struct)
		if !ok {
			continue
		}
		for i := 0; i < st.NumFields(); i++ {
			if isMutexType(st.Field(i).Type()) {
				out = append(out, &lockInfo{p: p, named: n, st: st, lockIdx: i,
					guarded: map[int]bool{}, immut: map[int]int{}, ifaceG: map[*types.Named]int{}, mutators: map[string]bool{}})
				break
			}
		}
	}
	return out
}

// baseIsLocal reports whether the struct pointer x designates a local value
// under construction (an Alloc in the same function): such accesses cannot be
// shared with another goroutine yet.
func baseIsLocal(x ssa.Value) bool {
	_, ok := x.(*ssa.Alloc)
	return ok
}

func (li *lockInfo) isS(t types.Type) bool {
	n := namedOf(t)
	return n != nil && n.Obj() == li.named.Obj()
}

// classifyFields decides which fields are guarded: written outside a
// constructor context at least once.
func (li *lockInfo) classifyFields() {
	for _, fn := range li.p.Funcs {
		for _, b := range fn.Blocks {
			for _, in := range b.Instrs {
				fa, ok := in.(*ssa.FieldAddr)
				if !ok || !li.isS(fa.X.Type()) || fa.Field == li.lockIdx {
					continue
				}
				for _, ref := range *fa.Referrers() {
					wr := false
					switch r := ref.(type) {
					case *ssa.Store:
						wr = r.Addr == fa
					case *ssa.UnOp:
						wr = false
					default:
						// address escapes (passed somewhere): treat as a write
						wr = true
					}
					if !wr {
						continue
					}
					if baseIsLocal(fa.X) {
						li.immut[fa.Field]++
					} else {
						li.guarded[fa.Field] = true
					}
				}
			}
		}
	}
	// Interface-typed fields are mutated through their methods: they are
	// guarded whenever some method of the interface is a mutator.
	for i := 0; i < li.st.NumFields(); i++ {
		if i == li.lockIdx {
			continue
		}
		ft := li.st.Field(i).Type()
		n, ok := types.Unalias(ft).(*types.Named)
		if !ok {
			continue
		}
		if it, ok := n.Underlying().(*types.Interface); ok {
			anyMut := false
			for m := 0; m < it.NumMethods(); m++ {
				if li.ifaceMethodMutates(n, it.Method(m)) {
					li.mutators[n.Obj().Name()+"."+it.Method(m).Name()] = true
					anyMut = true
				}
			}
			if anyMut {
				li.guarded[i] = true
				li.ifaceG[n] = i
			}
		}
	}
}

// ifaceMethodMutates looks at the package's implementations of the interface
// method: a map update, a delete, or a store through the receiver makes it a
// mutator. With no implementation in the package the name decides.
func (li *lockInfo) ifaceMethodMutates(iface *types.Named, m *types.Func) bool {
	found := false
	mut := false
	for _, fn := range li.p.Funcs {
		recv := fn.Signature.Recv()
		if recv == nil || fn.Name() != m.Name() || fn.Parent() != nil {
			continue
		}
		if !types.Implements(recv.Type(), iface.Underlying().(*types.Interface)) {
			continue
		}
		found = true
		if bodyMutates(fn) {
			mut = true
		}
	}
	if !found {
		switch m.Name() {
		case "Get", "Length", "Len", "ForEach", "Has", "String":
			return false
		}
		return true
	}
	return mut
}

func bodyMutates(fn *ssa.Function) bool {
	for _, b := range fn.Blocks {
		for _, in := range b.Instrs {
			switch x := in.(type) {
			case *ssa.MapUpdate:
				return true
			case *ssa.Store:
				if _, isAlloc := x.Addr.(*ssa.Alloc); !isAlloc {
					return true
				}
			case *ssa.Call:
				if builtinName(x.Common()) == "delete" {
					return true
				}
			}
		}
	}
	return false
}

// lockOp classifies a call/defer as an operation on the struct's lock.
// Returns op name ("Lock","RLock","Unlock","RUnlock") or "".
func (li *lockInfo) lockOp(c *ssa.CallCommon) (string, bool) {
	f := calleeFunc(c)
	if f == nil || f.Pkg() == nil || f.Pkg().Path() != "sync" {
		return "", true
	}
	recv := f.Type().(*types.Signature).Recv()
	if recv == nil || !isMutexType(recv.Type()) {
		return "", true
	}
	switch f.Name() {
	case "Lock", "RLock", "Unlock", "RUnlock":
	default:
		return "", true
	}
	// receiver value: c.Args[0] for static method calls
	var rv ssa.Value
	if len(c.Args) > 0 {
		rv = c.Args[0]
	}
	return f.Name(), li.isLockRecv(rv, 0)
}

// isLockRecv: v denotes the struct's lock - the field itself (or the pointer
// loaded from it), possibly through a local variable that only ever holds
// that pointer, also when the variable is captured by a closure.
func (li *lockInfo) isLockRecv(v ssa.Value, depth int) bool {
	if v == nil || depth > 6 {
		return false
	}
	switch x := v.(type) {
	case *ssa.FieldAddr:
		return li.isS(x.X.Type()) && x.Field == li.lockIdx
	case *ssa.UnOp:
		return li.isLockRecv(x.X, depth+1)
	case *ssa.Phi:
		for _, e := range x.Edges {
			if !li.isLockRecv(e, depth+1) {
				return false
			}
		}
		return len(x.Edges) > 0
	case *ssa.Alloc:
		n := 0
		for _, ref := range *x.Referrers() {
			if st, ok := ref.(*ssa.Store); ok && st.Addr == ssa.Value(x) {
				if !li.isLockRecv(st.Val, depth+1) {
					return false
				}
				n++
			}
		}
		return n > 0
	case *ssa.FreeVar:
		fn := x.Parent()
		par := fn.Parent()
		if par == nil {
			return false
		}
		for i, fv := range fn.FreeVars {
			if fv != x {
				continue
			}
			for _, b := range par.Blocks {
				for _, in := range b.Instrs {
					if mc, ok := in.(*ssa.MakeClosure); ok && mc.Fn == ssa.Value(fn) && i < len(mc.Bindings) {
						return li.isLockRecv(mc.Bindings[i], depth+1)
					}
				}
			}
		}
	}
	return false
}

// releaseClosure: fn is a closure whose only mutex operation is one release of
// the struct's lock (the body of "defer func() { lock.Unlock() }()").
func (li *lockInfo) releaseClosure(fn *ssa.Function) (string, bool) {
	if fn == nil || fn.Parent() == nil || fn.Blocks == nil {
		return "", false
	}
	op := ""
	for _, b := range fn.Blocks {
		for _, in := range b.Instrs {
			ci, ok := in.(ssa.CallInstruction)
			if !ok {
				continue
			}
			o, resolved := li.lockOp(ci.Common())
			if o == "" {
				continue
			}
			if !resolved || (o != "Unlock" && o != "RUnlock") || op != "" {
				return "", false
			}
			if _, isDefer := in.(*ssa.Defer); isDefer {
				return "", false
			}
			op = o
		}
	}
	return op, op != ""
}

// accessesOf lists guarded-field accesses of one instruction.
func (li *lockInfo) accessesOf(in ssa.Instruction) []lkAccess {
	var out []lkAccess
	switch x := in.(type) {
	case *ssa.FieldAddr:
		if !li.isS(x.X.Type()) || x.Field == li.lockIdx || !li.guarded[x.Field] || baseIsLocal(x.X) {
			return nil
		}
		name := li.st.Field(x.Field).Name()
		for _, ref := range *x.Referrers() {
			switch r := ref.(type) {
			case *ssa.Store:
				if r.Addr == x {
					out = append(out, lkAccess{r, name, lkW, "store"})
				} else {
					out = append(out, lkAccess{r, name, lkW, "address escapes"})
				}
			case *ssa.UnOp:
				out = append(out, lkAccess{r, name, lkR, "load"})
			case *ssa.DebugRef:
			default:
				out = append(out, lkAccess{ref, name, lkW, "address used"})
			}
		}
	case *ssa.UnOp:
		// whole-struct load *m
		if x.Op.String() == "*" && li.isS(x.Type()) {
			if _, isS := x.Type().Underlying().(*types.Struct); isS && !baseIsLocal(x.X) {
				out = append(out, lkAccess{x, "*", lkR, "whole-struct load"})
			}
		}
	case ssa.CallInstruction:
		c := x.Common()
		if c.IsInvoke() {
			if n, ok := types.Unalias(c.Value.Type()).(*types.Named); ok {
				if idx, ok := li.ifaceG[n]; ok {
					kind := lkR
					if li.mutators[n.Obj().Name()+"."+c.Method.Name()] {
						kind = lkW
					}
					// values loaded from a local struct under construction are exempt
					if u, ok := c.Value.(*ssa.UnOp); ok {
						if fa, ok := u.X.(*ssa.FieldAddr); ok && baseIsLocal(fa.X) {
							return nil
						}
					}
					out = append(out, lkAccess{x, li.st.Field(idx).Name(), kind, "." + c.Method.Name() + "()"})
				}
			}
		}
	}
	return out
}

type lkFuncInfo struct {
	fn       *ssa.Function
	locker   bool
	entry    bool
	ownKind  int // max kind of own accesses (for internal functions)
	req      int
	acq      bool
	accesses map[ssa.Instruction][]lkAccess
	nAcc     int
}

type lkState struct {
	held     int
	released bool
	deferred int
	valid    bool
}

func meetState(a, b lkState) lkState {
	if !a.valid {
		return b
	}
	if !b.valid {
		return a
	}
	out := lkState{valid: true}
	out.held = min(a.held, b.held)
	out.deferred = min(a.deferred, b.deferred)
	out.released = a.released || b.released
	return out
}

func runLockset(p *Program, r *Report) {
	r.Rule("R12a", "LOCKSET: every access to a guarded field (and every call of a function that touches guarded state without locking) holds the required lock mode on every path")
	r.Rule("R12b", "NO-REENTRY: no function holding the lock calls one that (transitively) acquires it")
	r.Rule("R12c", "SINGLE-SECTION: the lock is never re-acquired after a release on the same path (one critical section per call)")
	r.Rule("R12d", "IMMUTABLE-UNGUARDED: fields read without the lock are written only on local values under construction")
	r.Rule("R12e", "SYNC-CLOSURES: closures that touch guarded state are consumed synchronously by the creating frame")
	r.Rule("R12f", "BALANCED: every return releases exactly the mode that is held (deferred or explicit), no unlock of an unheld lock")
	structs := findLockStructs(p)
	r.Floor("R12a", "structs carrying a sync mutex", len(structs), 1)
	for _, li := range structs {
		li.classifyFields()
		li.run(r)
	}
}

func (li *lockInfo) run(r *Report) {
	p := li.p
	sname := li.named.Obj().Name()

	// R12d: field classification.
	for i := 0; i < li.st.NumFields(); i++ {
		f := li.st.Field(i)
		switch {
		case i == li.lockIdx:
			r.Discharge("R12d", sname+"."+f.Name(), p.Pos(f.Pos()), "the lock itself", false)
		case li.guarded[i]:
			r.Discharge("R12d", sname+"."+f.Name(), p.Pos(f.Pos()), "guarded: written (or mutated through its interface) outside constructors; every access must hold the lock", true)
		default:
			r.Discharge("R12d", sname+"."+f.Name(), p.Pos(f.Pos()),
				fmt.Sprintf("immutable after construction: %d write(s), all to a local value under construction; unlocked reads are safe", li.immut[i]), true)
		}
	}

	info := map[*ssa.Function]*lkFuncInfo{}
	var order []*lkFuncInfo
	for _, fn := range p.Funcs {
		fi := &lkFuncInfo{fn: fn, accesses: map[ssa.Instruction][]lkAccess{}}
		info[fn] = fi
		order = append(order, fi)
		for _, b := range fn.Blocks {
			for _, in := range b.Instrs {
				if ci, ok := in.(ssa.CallInstruction); ok {
					if _, isRel := li.releaseClosure(fn); isRel {
						// the body of a deferred release: accounted for where it is deferred
					} else if op, resolved := li.lockOp(ci.Common()); op != "" {
						fi.locker = true
						if !resolved {
							r.Undecided("R12a", p.FuncName(fn)+"/lockop:"+op, posOf(p, in), "mutex operation whose receiver is not the struct's lock field")
						}
					}
				}
				for _, a := range li.accessesOf(in) {
					fi.accesses[a.in] = append(fi.accesses[a.in], a)
					fi.nAcc++
					if a.kind > fi.ownKind {
						fi.ownKind = a.kind
					}
				}
			}
		}
	}
	// entries: exported top-level functions/methods, lockers, and functions
	// whose value escapes (address taken other than as closure/call operand).
	for _, fi := range order {
		fn := fi.fn
		if fn.Parent() == nil {
			exported := fn.Object() != nil && fn.Object().Exported()
			if o := fn.Origin(); o != nil && o.Object() != nil {
				exported = o.Object().Exported()
			}
			if recv := fn.Signature.Recv(); recv != nil && exported {
				if n := namedOf(recv.Type()); n != nil && !n.Obj().Exported() {
					// exported method on unexported type: callable only via interfaces; keep as entry
				}
			}
			if exported || fi.locker {
				fi.entry = true
			}
		} else if fi.locker {
			fi.entry = true
		}
	}

	callees := func(in ssa.Instruction) []*ssa.Function {
		var out []*ssa.Function
		switch x := in.(type) {
		case ssa.CallInstruction:
			// A call through a function-typed value that is not statically
			// known (a callback parameter such as ForEach's fn) is accounted
			// for where the function value is created or passed (below and
			// R12e), not here: resolving it through the call graph would merge
			// the callbacks of every caller.
			cc := x.Common()
			dynamicFuncValue := !cc.IsInvoke() && cc.StaticCallee() == nil && builtinName(cc) == ""
			if !dynamicFuncValue {
				for _, c := range p.Callees(x) {
					if info[c] != nil {
						out = append(out, c)
					}
				}
			}
			for _, a := range x.Common().Args {
				if f := funcValue(a); f != nil && info[f] != nil {
					if _, isClosure := a.(*ssa.MakeClosure); !isClosure { // closures handled at creation
						out = append(out, f)
					}
				}
			}
		case *ssa.MakeClosure:
			if f, ok := x.Fn.(*ssa.Function); ok && info[f] != nil {
				out = append(out, f)
			}
		}
		return out
	}

	// req / acq fixpoint.
	for _, fi := range order {
		if !fi.locker {
			fi.req = fi.ownKind
		}
		fi.acq = fi.locker
	}
	for changed := true; changed; {
		changed = false
		for _, fi := range order {
			for _, b := range fi.fn.Blocks {
				for _, in := range b.Instrs {
					for _, c := range callees(in) {
						ci := info[c]
						if !fi.locker && !ci.locker && ci.req > fi.req {
							fi.req = ci.req
							changed = true
						}
						if ci.acq && !fi.acq {
							fi.acq = true
							changed = true
						}
					}
				}
			}
		}
	}

	// R12e: closures that need the lock must be consumed synchronously.
	for _, fi := range order {
		for _, b := range fi.fn.Blocks {
			for _, in := range b.Instrs {
				mc, ok := in.(*ssa.MakeClosure)
				if !ok {
					continue
				}
				cf, _ := mc.Fn.(*ssa.Function)
				if cf == nil || info[cf] == nil || info[cf].req == lkNone {
					continue
				}
				okUse := true
				for _, ref := range *mc.Referrers() {
					switch ref.(type) {
					case *ssa.Call, *ssa.Defer, *ssa.DebugRef:
					default:
						okUse = false
					}
				}
				key := p.FuncName(cf) + "/sync-closure"
				if okUse {
					r.Discharge("R12e", key, posOf(p, mc), "closure touching guarded state is only passed to / called by a call in the creating frame", true)
				} else {
					r.Undecided("R12e", key, posOf(p, mc), "closure touching guarded state escapes (stored or returned); the synchronous-closure assumption is void")
				}
			}
		}
	}

	nExportedMethods, nLockers, nAccessSites := 0, 0, 0
	for _, fi := range order {
		nAccessSites += fi.nAcc
		if fi.locker {
			nLockers++
		}
		if recv := fi.fn.Signature.Recv(); recv != nil && fi.fn.Parent() == nil && li.isS(recv.Type()) &&
			fi.fn.Object() != nil && fi.fn.Object().Exported() {
			nExportedMethods++
		}
	}
	r.Stats["lockset.exported_methods"] = nExportedMethods
	r.Stats["lockset.locking_functions"] = nLockers
	r.Stats["lockset.access_sites"] = nAccessSites
	r.Floor("R12a", "exported methods of "+sname, nExportedMethods, 19)
	r.Floor("R12a", "functions acquiring the lock", nLockers, 17)
	r.Floor("R12a", "guarded access sites", nAccessSites, 150)

	// Entry functions: flow analysis.
	for _, fi := range order {
		if fi.entry {
			li.checkEntry(r, fi, info, callees)
		}
	}
	// Internal functions: one obligation each, discharged by propagation.
	callers := map[*ssa.Function][]*ssa.Function{}
	for _, fi := range order {
		for _, b := range fi.fn.Blocks {
			for _, in := range b.Instrs {
				for _, c := range callees(in) {
					callers[c] = append(callers[c], fi.fn)
				}
			}
		}
	}
	for _, fi := range order {
		if fi.entry || fi.req == lkNone {
			continue
		}
		name := p.FuncName(fi.fn)
		cs := map[string]bool{}
		for _, c := range callers[fi.fn] {
			cs[p.FuncName(c)] = true
		}
		if len(cs) == 0 {
			r.Discharge("R12a", name+"/requires", p.Pos(fi.fn.Pos()), "touches guarded state but is unreachable from any entry of the package (dead code)", false)
			continue
		}
		r.Discharge("R12a", name+"/requires", p.Pos(fi.fn.Pos()),
			fmt.Sprintf("internal: requires its caller to hold the %s (%d own access sites); requirement propagated to callers %s and checked at every entry call site",
				lkName(fi.req), fi.nAcc, strings.Join(sortedKeys(cs), ", ")), true)
	}
}

func (li *lockInfo) checkEntry(r *Report, fi *lkFuncInfo, info map[*ssa.Function]*lkFuncInfo, callees func(ssa.Instruction) []*ssa.Function) {
	p := li.p
	fn := fi.fn
	name := p.FuncName(fn)
	in := make([]lkState, len(fn.Blocks))
	in[0] = lkState{valid: true}
	work := []*ssa.BasicBlock{fn.Blocks[0]}
	type finding struct {
		rule, key, pos, detail string
	}
	// The transfer function is re-run at the fixpoint to report.
	transfer := func(b *ssa.BasicBlock, st lkState, report func(rule, key string, in ssa.Instruction, ok bool, detail string)) lkState {
		for _, ins := range b.Instrs {
			if ci, ok := ins.(ssa.CallInstruction); ok {
				op, _ := li.lockOp(ci.Common())
				if d, isD := ins.(*ssa.Defer); isD && op == "" {
					// defer func() { lock.Unlock() }()
					if mc, ok := d.Call.Value.(*ssa.MakeClosure); ok {
						if cf, ok := mc.Fn.(*ssa.Function); ok {
							if o, isRel := li.releaseClosure(cf); isRel {
								op = o
							}
						}
					}
				}
				if op != "" {
					_, isDefer := ins.(*ssa.Defer)
					switch {
					case isDefer && (op == "Unlock" || op == "RUnlock"):
						want := map[string]int{"Unlock": lkW, "RUnlock": lkR}[op]
						report("R12f", name+"/defer-"+op, ins, st.held == want,
							fmt.Sprintf("deferred %s registered while holding %s", op, lkName(st.held)))
						st.deferred = want
					case isDefer:
						report("R12f", name+"/defer-"+op, ins, false, "deferred acquisition of the lock")
					case op == "Lock" || op == "RLock":
						want := map[string]int{"Lock": lkW, "RLock": lkR}[op]
						report("R12b", name+"/acquire-"+op, ins, st.held == lkNone,
							fmt.Sprintf("%s called while holding %s (sync.RWMutex is not re-entrant)", op, lkName(st.held)))
						report("R12c", name+"/single-section", ins, !st.released,
							"the lock is re-acquired after having been released on this path: the call is split into two critical sections")
						st.held = want
					default: // explicit Unlock / RUnlock
						want := map[string]int{"Unlock": lkW, "RUnlock": lkR}[op]
						report("R12f", name+"/release-"+op, ins, st.held == want,
							fmt.Sprintf("%s called while holding %s", op, lkName(st.held)))
						st.held = lkNone
						st.released = true
					}
					continue
				}
			}
			for _, a := range fi.accesses[ins] {
				report("R12a", fmt.Sprintf("%s/%s/%s", name, a.field, map[int]string{lkR: "read", lkW: "write"}[a.kind]), ins,
					st.held >= a.kind, fmt.Sprintf("%s of guarded field %s %s needs the %s, holds %s", a.what, li.named.Obj().Name(), a.field, lkName(a.kind), lkName(st.held)))
			}
			for _, c := range callees(ins) {
				ci := info[c]
				cname := p.FuncName(c)
				if !ci.locker && ci.req > lkNone {
					report("R12a", name+"->"+cname, ins, st.held >= ci.req,
						fmt.Sprintf("callee needs the %s (it touches guarded state without locking), caller holds %s", lkName(ci.req), lkName(st.held)))
				}
				if ci.acq {
					report("R12b", name+"->"+cname, ins, st.held == lkNone,
						fmt.Sprintf("callee (transitively) acquires the lock while the caller holds %s: self-deadlock", lkName(st.held)))
				}
			}
			if _, ok := ins.(*ssa.Return); ok {
				okRet := (st.held == lkNone && st.deferred == lkNone) || (st.held != lkNone && st.deferred == st.held)
				if fi.locker {
					report("R12f", name+"/exit", ins, okRet,
						fmt.Sprintf("return while holding %s with deferred release of %s", lkName(st.held), lkName(st.deferred)))
				}
			}
		}
		return st
	}
	for len(work) > 0 {
		b := work[len(work)-1]
		work = work[:len(work)-1]
		out := transfer(b, in[b.Index], func(string, string, ssa.Instruction, bool, string) {})
		for _, s := range b.Succs {
			n := meetState(in[s.Index], out)
			if n != in[s.Index] {
				in[s.Index] = n
				work = append(work, s)
			}
		}
	}
	for _, b := range fn.Blocks {
		if !in[b.Index].valid {
			continue
		}
		transfer(b, in[b.Index], func(rule, key string, ins ssa.Instruction, ok bool, detail string) {
			if ok {
				r.Discharge(rule, key, posOf(p, ins), "holds: "+detail, true)
			} else {
				r.Violate(rule, key, posOf(p, ins), detail, "entry "+name)
			}
		})
	}
	_ = sort.Strings
}
