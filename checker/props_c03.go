package main

func init() {
	register(&PropertyDef{
		ID:    "C03",
		Title: "Verification is sound: an accepted proof only states true facts",
		Explanation: "Rejection plumbing of the verifiers, decided on every path: every error produced inside the verification spine (the functions from which the " +
			"hashing core is reachable: Verify, (*Pollard).Verify, (*MapPollard).Verify/verify/VerifyPartialProof, (*Stump).Update/del, ingest) reaches the caller as a " +
			"non-nil error (R03a); in Verify and (*Pollard).Verify a root counts as matched only on the true edge of an equality between a stored root and a recomputed " +
			"candidate, and success is returned only behind 'number of candidates == number of matches' (R03b); the core runs on caller-supplied hashes only behind a " +
			"length-equality test with the targets (R03c). The core is resolved by role (the callee whose []Hash result is compared with the roots), not by name.",
		NotDecided: "that matching candidates to roots as a subsequence is the right acceptance criterion; that the core computes the right candidates from " +
			"(targets, hashes, proof) — position arithmetic and hashing; collision resistance. A verifier whose comparisons are all present but compare the wrong values is not detected.",
		Rules: []RuleDef{{ID: "R03", Statement: "rejection plumbing of the verifiers", Run: runC03},
			{ID: "R03d", Statement: "positions outside the forest are refused", Run: func(p *Program, r *Report) {
				r.Rule("R03d", "POSITION-IN-FOREST: some failing return of the hashing core is guarded by a comparison of a claimed position with a bound computed from the leaf count (a non-existent position is refused, not hashed)")
				checkPositionInForest(p, r, "R03d", resolveVerifyAnchors(p).core)
			}},
			{ID: "R03e", Statement: "positions are used in the right coordinate system", Run: func(p *Program, r *Report) {
				r.Rule("R03e", "LAYOUT: on every verification path positions are handed to position arithmetic, translation and the node store only in the coordinate system (tree layout vs the map forest's TotalRows layout) the accompanying forest height denotes - a claimed position is verified as itself, not as its image under a wrong translation")
				or := runOrderEngine(p, r, "R03e", []string{"Verify", "(*Pollard).Verify", "(*MapPollard).Verify", "(*MapPollard).VerifyPartialProof", "(*Stump).Update"})
				reportOrderEvents(p, r, or, orderRules{coord: "R03e"})
				r.Floor("R03e", "layout-checked call sites on the verification paths", r.Stats["coord_sites"], 10)
			}},
			{ID: "R03f", Statement: "the reserved zero hash is refused", Run: func(p *Program, r *Report) {
				r.Rule("R03f", "NONZERO-HASHES: before the hashing core runs on caller-supplied hashes, the target hashes and the proof hashes are compared with the reserved all-zero hash and refused (the core moves a sibling up unhashed next to a zero hash)")
				checkNonzeroHashes(p, r, "R03f", resolveVerifyAnchors(p))
			}},
			{ID: "R03g", Statement: "sibling tests exclude the position itself", Run: func(p *Program, r *Report) {
				r.Rule("R03g", "SIBLING-TEST: in the hashing core siblinghood is never concluded from rightSib(a) == b alone (rightSib(a) == a for a right child); the test is joined with 'a is a left child'")
				checkSiblingTests(p, r, "R03g", resolveVerifyAnchors(p))
			}},
			{ID: "R03j", Statement: "every claimed hash takes part in the computation", Run: func(p *Program, r *Report) {
				r.Rule("R03j", "CLAIM-CURSOR-READS: in the hashing core a cursor over a list of hashes advances only where the hash at the cursor has been read in that iteration (no claimed hash is skipped unread)")
				checkClaimCursorReads(p, r, "R03j", resolveVerifyAnchors(p))
			}},
			{ID: "R03i", Statement: "both inputs of the parent-hash step are supplied on every path", Run: func(p *Program, r *Report) {
				r.Rule("R03i", "SIBLING-ALWAYS-SUPPLIED: in the hashing core neither hash input of the parent-hash step can be the default value of its variable (a path that assigns no sibling because the proof ran out)")
				checkSiblingSupplied(p, r, "R03i", resolveVerifyAnchors(p))
			}},
			{ID: "R03h", Statement: "candidates are matched by position", Run: func(p *Program, r *Report) {
				r.Rule("R03h", "CANDIDATE-POSITIONS-USED: a verifier matches each recomputed root with the root of its own tree, i.e. it uses the positions the core computed the candidates at")
				checkCandidatePositionsUsed(p, r, "R03h", resolveVerifyAnchors(p))
			}}},
	})
}
