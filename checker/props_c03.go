package main

func init() {
	register(&PropertyDef{
		ID:    "C03",
		Title: "Verification is sound: an accepted proof only states true facts",
		Explanation: "Rejection plumbing of the verifiers, decided on every path: every error produced inside the verification spine (the functions from which the " +
			"hashing core is reachable: Verify, (*Pollard).Verify, (*MapPollard).Verify/verify/VerifyPartialProof, (*Stump).Update/del, ingest) reaches the caller as a " +
			"non-nil error (R03a); in Verify and (*Pollard).Verify a root counts as matched only on the true edge of an equality between a stored root and a recomputed " +
			"candidate, and success is returned only behind 'number of candidates == number of matches' (R03b); the core runs on caller-supplied hashes only behind a " +
			"length-equality test with the targets (R03c). The core is resolved by role (the callee whose []Hash result is compared with the roots), not by name.",
		NotDecided: "that matching candidates to roots as a subsequence is the right acceptance criterion; that the core computes the right candidates from " +
			"(targets, hashes, proof) — position arithmetic and hashing; collision resistance. A verifier whose comparisons are all present but compare the wrong values is not detected.",
		Rules: []RuleDef{{ID: "R03", Statement: "rejection plumbing of the verifiers", Run: runC03}},
	})
}
