package main

import (
	"fmt"
	"go/token"
	"go/types"
	"sort"
	"strings"

	"golang.org/x/tools/go/ssa"
)

// Structural rules added after the first round of seeded defects. Each is a
// necessary condition of the property it is reported under, stated over the
// resolved program (interfaces found by their method signatures, functions by
// role), never over text.

// ---------------------------------------------------------------------------
// Recognisers for the map forest's two stores.

// posKeyedIface: an interface of the package with Put(uint64, <struct>) - the node store.
func posKeyedIface(p *Program, t types.Type) bool {
	n := namedOf(t)
	if n == nil || n.Obj().Pkg() != p.Types {
		return false
	}
	it, ok := n.Underlying().(*types.Interface)
	if !ok {
		return false
	}
	for i := 0; i < it.NumMethods(); i++ {
		m := it.Method(i)
		sig := m.Type().(*types.Signature)
		if m.Name() == "Put" && sig.Params().Len() == 2 && isUint64(sig.Params().At(0).Type()) {
			return true
		}
	}
	return false
}

// storeCall classifies an invoke on one of the two stores: kind is "nodes" or
// "index", method is the method name.
func storeCall(p *Program, in ssa.Instruction) (kind, method string, cc *ssa.CallCommon) {
	c, ok := in.(*ssa.Call)
	if !ok {
		return "", "", nil
	}
	cc = c.Common()
	if !cc.IsInvoke() {
		return "", "", nil
	}
	switch {
	case posKeyedIface(p, cc.Value.Type()):
		return "nodes", cc.Method.Name(), cc
	case hashKeyedIface(p, cc.Value.Type()):
		return "index", cc.Method.Name(), cc
	}
	return "", "", nil
}

// escapes reports whether some path that starts right after `from` reaches an
// instruction satisfying target without first executing an instruction
// satisfying stop. Paths end at returns.
func escapes(from ssa.Instruction, stop, target func(ssa.Instruction) bool) (ssa.Instruction, bool) {
	type pt struct {
		b *ssa.BasicBlock
		i int
	}
	seen := map[*ssa.BasicBlock]bool{}
	work := []pt{{from.Block(), instrIndex(from) + 1}}
	for len(work) > 0 {
		cur := work[len(work)-1]
		work = work[:len(work)-1]
		blocked := false
		for i := cur.i; i < len(cur.b.Instrs); i++ {
			in := cur.b.Instrs[i]
			if stop(in) {
				blocked = true
				break
			}
			if target(in) {
				return in, true
			}
		}
		if blocked {
			continue
		}
		for _, s := range cur.b.Succs {
			if !seen[s] {
				seen[s] = true
				work = append(work, pt{s, 0})
			}
		}
	}
	return nil, false
}

// isSuccessReturn: a return whose error result (if any) is the nil constant.
func isSuccessReturn(in ssa.Instruction) bool {
	r, ok := in.(*ssa.Return)
	if !ok {
		return false
	}
	ei := errorResultIndex(r.Parent().Signature)
	if ei < 0 {
		return true
	}
	ops := retOperands(r)
	return ei < len(ops) && isNilConst(ops[ei])
}

// innermostLoopHeader returns the header of the innermost natural loop containing b.
func innermostLoopHeader(b *ssa.BasicBlock) *ssa.BasicBlock {
	var best *ssa.BasicBlock
	bestSize := 0
	for _, h := range b.Parent().Blocks {
		if len(latches(h)) == 0 {
			continue
		}
		body := naturalLoop(h)
		if !body[b] {
			continue
		}
		if best == nil || len(body) < bestSize {
			best, bestSize = h, len(body)
		}
	}
	return best
}

// receiverFieldStore: in is a store into the named field of the function's
// pointer receiver.
func receiverFieldStore(fn *ssa.Function, in ssa.Instruction, field string) (*ssa.Store, bool) {
	st, ok := in.(*ssa.Store)
	if !ok || fn.Signature.Recv() == nil || len(fn.Params) == 0 {
		return nil, false
	}
	fa, ok := st.Addr.(*ssa.FieldAddr)
	if !ok || !isReceiverValue(fn, fa.X) {
		return nil, false
	}
	return st, fieldName(fa.X.Type(), fa.Field) == field
}

// isReceiverValue: v is the receiver of method fn - the parameter itself, a
// load of its spill slot (receivers captured by closures live in a cell), or,
// inside a closure of the method, a load of the free variable bound to it.
func isReceiverValue(fn *ssa.Function, v ssa.Value) bool {
	if fn.Parent() == nil {
		if fn.Signature.Recv() == nil {
			return false
		}
		i, ok := paramOf(fn, v)
		return ok && i == 0
	}
	// closure: *freevar, where the parent binds the receiver('s cell) to that free variable
	par := fn.Parent()
	var fv *ssa.FreeVar
	switch x := v.(type) {
	case *ssa.FreeVar:
		fv = x
	case *ssa.UnOp:
		if x.Op == token.MUL {
			fv, _ = x.X.(*ssa.FreeVar)
		}
	}
	if fv == nil {
		return false
	}
	idx := -1
	for i, f := range fn.FreeVars {
		if f == fv {
			idx = i
		}
	}
	for _, b := range par.Blocks {
		for _, in := range b.Instrs {
			mc, ok := in.(*ssa.MakeClosure)
			if !ok || mc.Fn != ssa.Value(fn) || idx < 0 || idx >= len(mc.Bindings) {
				continue
			}
			bind := mc.Bindings[idx]
			if a, ok := bind.(*ssa.Alloc); ok {
				if i, ok := spillOfParam(par, a); ok && i == 0 && par.Signature.Recv() != nil {
					return true
				}
			}
			if isReceiverValue(par, bind) {
				return true
			}
		}
	}
	return false
}

// readsReceiverField: v is (a conversion of) a load of the named field of fn's receiver.
// Inside a closure the receiver is a free variable of the enclosing method.
func readsReceiverField(fn *ssa.Function, v ssa.Value, field string) bool {
	v = stripConvert(v)
	u, ok := v.(*ssa.UnOp)
	if !ok || u.Op != token.MUL {
		return false
	}
	fa, ok := u.X.(*ssa.FieldAddr)
	if !ok || fieldName(fa.X.Type(), fa.Field) != field {
		return false
	}
	return isReceiverValue(fn, fa.X)
}

// ---------------------------------------------------------------------------
// COORD-SWITCH-LAST (R10c, R09c): positions kept in the map forest are in the
// coordinates of TotalRows. A function that switches TotalRows must finish
// every translation "from the old TotalRows" before the store; afterwards a
// translation from m.TotalRows is the identity and the entries keep stale
// positions.

func checkCoordSwitch(p *Program, r *Report, rule string) {
	nSites := 0
	for _, fn := range p.Funcs {
		if fn.Parent() != nil || fn.Signature.Recv() == nil || !p.localNamed(fn.Signature.Recv().Type(), "MapPollard") {
			continue
		}
		var stores []*ssa.Store
		for _, b := range fn.Blocks {
			for _, in := range b.Instrs {
				if st, ok := receiverFieldStore(fn, in, "TotalRows"); ok {
					stores = append(stores, st)
				}
			}
		}
		if len(stores) == 0 {
			continue
		}
		// translations from the receiver's TotalRows in fn and in its closures
		type tsite struct {
			call  *ssa.Call
			owner *ssa.Function
			at    []ssa.Instruction // instructions of fn at which the translation runs
		}
		var sites []tsite
		consider := append([]*ssa.Function{fn}, fn.AnonFuncs...)
		for _, g := range consider {
			for _, b := range g.Blocks {
				for _, in := range b.Instrs {
					c, ok := in.(*ssa.Call)
					if !ok {
						continue
					}
					sc := c.Common().StaticCallee()
					if sc == nil || !p.owns(sc) || len(c.Common().Args) < 3 {
						continue
					}
					// a translation: (positions|position, fromRows uint8, toRows uint8)
					a1, a2 := c.Common().Args[1], c.Common().Args[2]
					if !isUint8(a1.Type()) || !isUint8(a2.Type()) || c.Common().Signature().Params().Len() != 3 {
						continue
					}
					if !readsReceiverField(g, a1, "TotalRows") {
						continue
					}
					ts := tsite{call: c, owner: g}
					if g == fn {
						ts.at = []ssa.Instruction{c}
					} else {
						// where the closure is handed to a call of fn
						for _, b2 := range fn.Blocks {
							for _, in2 := range b2.Instrs {
								if ci, ok := in2.(ssa.CallInstruction); ok {
									for _, a := range ci.Common().Args {
										if fv := funcValue(a); fv == g {
											ts.at = append(ts.at, in2)
										}
									}
								}
							}
						}
					}
					sites = append(sites, ts)
				}
			}
		}
		for i, ts := range sites {
			nSites++
			key := fmt.Sprintf("%s/translate-from-TotalRows#%d", p.FuncName(fn), i+1)
			if len(ts.at) == 0 {
				r.Undecided(rule, key, posOf(p, ts.call), "cannot find where the closure containing the translation is invoked")
				continue
			}
			bad := false
			for _, st := range stores {
				for _, at := range ts.at {
					if canReach(st, at) {
						bad = true
					}
				}
			}
			if bad {
				r.Violate(rule, key, posOf(p, ts.call), "a translation from m.TotalRows can run after m.TotalRows was switched to the new height: it is then the identity and the stored positions stay in the old coordinates", "in "+p.FuncName(fn))
			} else {
				r.Discharge(rule, key, posOf(p, ts.call), "every translation from the old TotalRows runs before the store that switches TotalRows", true)
			}
		}
	}
	r.Floor(rule, "translations from the receiver's TotalRows in functions that switch it", nSites, 1)
}

func isUint8(t types.Type) bool {
	b, ok := t.Underlying().(*types.Basic)
	return ok && b.Kind() == types.Uint8
}

// ---------------------------------------------------------------------------
// MOVE-PAIRING (R01d, R09e): in the map forest a node is moved by deleting it
// at the old position and putting the value read there at the new one. Where a
// function does both for the same fetched value, neither may happen without
// the other (a conditional Put after an unconditional Delete loses the node -
// for an empty root this is only noticed many blocks later).

func checkMovePairing(p *Program, r *Report, rule string) {
	n := 0
	for _, fn := range p.Funcs {
		recv := fn.Signature.Recv()
		if fn.Parent() != nil || recv == nil || !p.localNamed(recv.Type(), "MapPollard") {
			continue
		}
		// fetched values: results of Nodes.Get
		for _, b := range fn.Blocks {
			for _, in := range b.Instrs {
				kind, m, cc := storeCall(p, in)
				if kind != "nodes" || m != "Get" {
					continue
				}
				get := in.(*ssa.Call)
				fetched := resultValue(get, 0)
				if fetched == nil {
					continue
				}
				keyArg := cc.Args[0]
				// deletes of the same key and puts of the fetched value (possibly with flags changed)
				var dels, puts []*ssa.Call
				for _, b2 := range fn.Blocks {
					for _, in2 := range b2.Instrs {
						k2, m2, cc2 := storeCall(p, in2)
						if k2 != "nodes" {
							continue
						}
						c2 := in2.(*ssa.Call)
						switch m2 {
						case "Delete":
							if sameExpr(cc2.Args[0], keyArg, 0) && dominatesInstr(get, c2) {
								dels = append(dels, c2)
							}
						case "Put":
							if !sameExpr(cc2.Args[0], keyArg, 0) && derivesDeep(cc2.Args[1], func(x ssa.Value) bool { return x == fetched }, 0, map[ssa.Value]bool{}) && dominatesInstr(get, c2) {
								puts = append(puts, c2)
							}
						}
					}
				}
				if len(dels) == 0 || len(puts) == 0 {
					continue
				}
				n++
				key := fmt.Sprintf("%s/move#%d", p.FuncName(fn), n)
				bad := ""
				for _, d := range dels {
					// every path from the delete to the next iteration / a success return passes a put
					hdr := innermostLoopHeader(d.Block())
					isPut := func(x ssa.Instruction) bool {
						for _, pc := range puts {
							if x == ssa.Instruction(pc) {
								return true
							}
						}
						return false
					}
					target := func(x ssa.Instruction) bool {
						if isSuccessReturn(x) {
							return true
						}
						return hdr != nil && x.Block() == hdr && x == hdr.Instrs[0]
					}
					putBefore := false
					for _, pc := range puts {
						if dominatesInstr(pc, d) {
							putBefore = true
						}
					}
					if putBefore {
						continue
					}
					if at, esc := escapes(d, isPut, target); esc {
						bad = fmt.Sprintf("after the node is deleted at its old position (%s) a path reaches %s without putting it at the new position", posOf(p, d), posOf(p, at))
					}
				}
				if bad != "" {
					r.Violate(rule, key, posOf(p, dels[0]), bad+": the node is lost", "in "+p.FuncName(fn))
				} else {
					r.Discharge(rule, key, posOf(p, dels[0]), "the fetched node is re-inserted on every path that deletes it at the old position", true)
				}
			}
		}
	}
	r.Floor(rule, "node moves (Get, Delete at the old key, Put at a new key) in the map forest", n, 4)
}

// ---------------------------------------------------------------------------
// UNDO-ADD-UNINDEX (R10d): undoing an addition removes the added nodes from
// the forest; the leaf index must lose their hashes on every such path.
// The undo-one-addition function of each forest is found by role: reachable
// from Undo, decrements NumLeaves.

func checkUndoAddUnindex(p *Program, r *Report, rule string) {
	n := 0
	for _, entry := range []string{"(*Pollard).Undo", "(*MapPollard).Undo"} {
		e := p.Func(entry)
		if e == nil {
			r.MissingAnchor(rule, entry, "Undo not found")
			continue
		}
		var g *ssa.Function
		for _, f := range sortedFuncs(p, p.StaticReach(e)) {
			if f.Signature.Recv() == nil || f.Parent() != nil {
				continue
			}
			for _, b := range f.Blocks {
				for _, in := range b.Instrs {
					if st, ok := receiverFieldStore(f, in, "NumLeaves"); ok {
						if bo, ok := st.Val.(*ssa.BinOp); ok && bo.Op == token.SUB {
							g = f
						}
					}
				}
			}
		}
		if g == nil {
			r.Undecided(rule, entry+"/undo-one-add", p.Pos(e.Pos()), "cannot find the function that undoes one addition (decrements NumLeaves)")
			continue
		}
		name := p.FuncName(g)
		isIndexDelete := func(x ssa.Instruction) bool {
			if k, m, _ := storeCall(p, x); k == "index" && m == "Delete" {
				return true
			}
			if c, ok := x.(*ssa.Call); ok && builtinName(c.Common()) == "delete" && len(c.Common().Args) == 2 {
				if mt, ok := c.Common().Args[0].Type().Underlying().(*types.Map); ok && isByteArrayNamed(p, mt.Key()) {
					return true
				}
			}
			return false
		}
		// node removals: Nodes.Delete (map forest); popping the root list (pointer forest)
		var removals []ssa.Instruction
		for _, b := range g.Blocks {
			for _, in := range b.Instrs {
				if k, m, _ := storeCall(p, in); k == "nodes" && m == "Delete" {
					removals = append(removals, in)
				}
			}
		}
		if len(removals) == 0 {
			// pointer forest: the first store to the root list in the loop body
			for _, b := range g.Blocks {
				for _, in := range b.Instrs {
					if st, ok := receiverFieldStore(g, in, "Roots"); ok && innermostLoopHeader(b) != nil {
						if len(removals) == 0 {
							removals = append(removals, st)
						}
					}
				}
			}
		}
		if len(removals) == 0 {
			r.Undecided(rule, name+"/removal", p.Pos(g.Pos()), "no node removal found in the undo-one-addition function")
			continue
		}
		for i, d := range removals {
			n++
			key := fmt.Sprintf("%s/removal#%d", name, i+1)
			hdr := innermostLoopHeader(d.Block())
			target := func(x ssa.Instruction) bool {
				if _, ok := x.(*ssa.Return); ok {
					return true
				}
				return hdr != nil && x.Block() == hdr && x == hdr.Instrs[0]
			}
			// an index delete right before the removal in the same block also counts
			before := false
			for _, x := range d.Block().Instrs {
				if x == d {
					break
				}
				if isIndexDelete(x) {
					before = true
				}
			}
			if before {
				r.Discharge(rule, key, posOf(p, d), "the hash is removed from the leaf index in the same block as the node removal", true)
				continue
			}
			if at, esc := escapes(d, isIndexDelete, target); esc {
				r.Violate(rule, key, posOf(p, d), fmt.Sprintf("a node of the undone addition is removed but a path reaches %s without removing its hash from the leaf index: the undone leaf would still be found", posOf(p, at)), "in "+name)
			} else {
				r.Discharge(rule, key, posOf(p, d), "every path from the node removal to the next iteration or the return removes the hash from the leaf index", true)
			}
		}
	}
	r.Floor(rule, "node removals in the undo-one-addition functions", n, 2)
}

// ---------------------------------------------------------------------------
// PRUNE-CLEARS-FLAG (R09d): Prune un-indexes a leaf; the keep flag of its node
// must be cleared on every path that goes on, otherwise the node (and its
// proof path) can never be pruned again.

func checkPruneClearsFlag(p *Program, r *Report, rule string) {
	fn := p.Func("(*MapPollard).Prune")
	if fn == nil {
		r.MissingAnchor(rule, "(*MapPollard).Prune", "Prune not found")
		return
	}
	// puts whose value has its boolean keep flag cleared: the Leaf variable
	// receives a store of the constant false into a bool field before the Put
	clears := map[ssa.Instruction]bool{}
	for _, b := range fn.Blocks {
		for _, in := range b.Instrs {
			k, m, cc := storeCall(p, in)
			if k != "nodes" || m != "Put" {
				continue
			}
			u, ok := cc.Args[1].(*ssa.UnOp)
			if !ok {
				continue
			}
			al, ok := u.X.(*ssa.Alloc)
			if !ok {
				continue
			}
			for _, ref := range *al.Referrers() {
				fa, ok := ref.(*ssa.FieldAddr)
				if !ok {
					continue
				}
				if bt, ok := deref(fa.Type()).Underlying().(*types.Basic); !ok || bt.Kind() != types.Bool {
					continue
				}
				for _, r2 := range *fa.Referrers() {
					if st, ok := r2.(*ssa.Store); ok && st.Addr == fa {
						if c, ok := st.Val.(*ssa.Const); ok && c.Value != nil && c.Value.String() == "false" && dominatesInstr(st, in) {
							clears[in] = true
						}
					}
				}
			}
		}
	}
	n := 0
	for _, b := range fn.Blocks {
		for _, in := range b.Instrs {
			k, m, _ := storeCall(p, in)
			if k != "index" || m != "Delete" {
				continue
			}
			n++
			key := fmt.Sprintf("(*MapPollard).Prune/unindex#%d", n)
			hdr := innermostLoopHeader(b)
			target := func(x ssa.Instruction) bool {
				if isSuccessReturn(x) {
					return true
				}
				return hdr != nil && x.Block() == hdr && x == hdr.Instrs[0]
			}
			if at, esc := escapes(in, func(x ssa.Instruction) bool { return clears[x] }, target); esc {
				r.Violate(rule, key, posOf(p, in), fmt.Sprintf("after the leaf is removed from the cache index a path reaches %s without clearing the keep flag of its node: the node and its proof path stay stored forever", posOf(p, at)), "in (*MapPollard).Prune")
			} else {
				r.Discharge(rule, key, posOf(p, in), "every continuing path stores the node back with its keep flag cleared", true)
			}
		}
	}
	r.Floor(rule, "un-index sites in Prune", n, 1)
}

// ---------------------------------------------------------------------------
// ATOMIC-QUERY (R12g): every exported method of the map forest enters at most
// one critical section, counting the sections of the functions it calls. A
// query assembled from two individually locked getters can observe two
// different blocks.

func checkAtomicQuery(p *Program, r *Report, rule string, acquires func(*ssa.Function) bool, exempt map[string]string) {
	n := 0
	// multi[f]: f enters two critical sections on one path, itself or through a function it calls
	sectionsOf := func(fn *ssa.Function) []ssa.Instruction {
		var out []ssa.Instruction
		for _, b := range fn.Blocks {
			for _, in := range b.Instrs {
				c, ok := in.(*ssa.Call)
				if !ok {
					continue
				}
				if f := calleeFunc(c.Common()); f != nil && f.Pkg() != nil && f.Pkg().Path() == "sync" && (f.Name() == "Lock" || f.Name() == "RLock") {
					out = append(out, in)
					continue
				}
				for _, callee := range p.Callees(c) {
					if p.owns(callee) && acquires(callee) {
						out = append(out, in)
						break
					}
				}
			}
		}
		return out
	}
	multi := map[*ssa.Function]ssa.Instruction{}
	for changed := true; changed; {
		changed = false
		for _, fn := range p.Funcs {
			if multi[fn] != nil || fn.Blocks == nil {
				continue
			}
			secs := sectionsOf(fn)
			for i := range secs {
				for j := range secs {
					if i != j && canReach(secs[i], secs[j]) && multi[fn] == nil {
						multi[fn] = secs[j]
						changed = true
					}
				}
			}
			if multi[fn] != nil {
				continue
			}
			for _, s := range secs {
				c := s.(*ssa.Call)
				for _, callee := range p.Callees(c) {
					if p.owns(callee) && multi[callee] != nil && multi[fn] == nil {
						multi[fn] = s
						changed = true
					}
				}
			}
		}
	}
	for _, fn := range p.Funcs {
		recv := fn.Signature.Recv()
		if fn.Parent() != nil || recv == nil || !p.localNamed(recv.Type(), "MapPollard") || fn.Object() == nil || !fn.Object().Exported() {
			continue
		}
		name := p.FuncName(fn)
		// sections: own lock acquisitions + calls (outside any held lock) of functions that acquire
		var sections []ssa.Instruction
		for _, b := range fn.Blocks {
			for _, in := range b.Instrs {
				c, ok := in.(*ssa.Call)
				if !ok {
					continue
				}
				if f := calleeFunc(c.Common()); f != nil && f.Pkg() != nil && f.Pkg().Path() == "sync" && (f.Name() == "Lock" || f.Name() == "RLock") {
					sections = append(sections, in)
					continue
				}
				for _, callee := range p.Callees(c) {
					if p.owns(callee) && acquires(callee) {
						sections = append(sections, in)
						break
					}
				}
			}
		}
		if len(sections) == 0 {
			continue
		}
		n++
		key := name + "/sections"
		// two sections on one path?
		var a, b ssa.Instruction
		for i := range sections {
			for j := range sections {
				if i != j && (canReach(sections[i], sections[j])) {
					a, b = sections[i], sections[j]
				}
			}
		}
		if a == nil && multi[fn] != nil {
			// the second section is inside a function this method calls
			a, b = multi[fn], multi[fn]
		}
		if a != nil {
			if why, ok := exempt[name]; ok {
				r.Discharge(rule, key, posOf(p, a), "exempt: "+why, false)
				continue
			}
			r.Violate(rule, key, posOf(p, b), fmt.Sprintf("the method enters a critical section at %s and another one at %s on the same path: a writer can run in between, so the result mixes two block states", posOf(p, a), posOf(p, b)), "in "+name)
		} else {
			r.Discharge(rule, key, posOf(p, sections[0]), fmt.Sprintf("one critical section per path (%d acquisition site(s))", len(sections)), true)
		}
	}
	r.Floor(rule, "exported map-forest methods that enter a critical section", n, 17)
}

// transitiveAcquirers computes the package functions that (transitively,
// through resolved callees) acquire the map forest's lock.
func transitiveAcquirers(p *Program) map[*ssa.Function]bool {
	direct := map[*ssa.Function]bool{}
	for _, fn := range p.Funcs {
		for _, b := range fn.Blocks {
			for _, in := range b.Instrs {
				if c, ok := in.(*ssa.Call); ok {
					if f := calleeFunc(c.Common()); f != nil && f.Pkg() != nil && f.Pkg().Path() == "sync" && (f.Name() == "Lock" || f.Name() == "RLock") {
						direct[fn] = true
					}
				}
			}
		}
	}
	acq := map[*ssa.Function]bool{}
	for f := range direct {
		acq[f] = true
	}
	for changed := true; changed; {
		changed = false
		for _, fn := range p.Funcs {
			if acq[fn] {
				continue
			}
			for _, b := range fn.Blocks {
				for _, in := range b.Instrs {
					c, ok := in.(*ssa.Call)
					if !ok {
						continue
					}
					for _, callee := range p.Callees(c) {
						if acq[callee] && !acq[fn] {
							acq[fn] = true
							changed = true
						}
					}
				}
			}
		}
	}
	return acq
}

// ---------------------------------------------------------------------------
// helpers

func sortedInstrs(m map[ssa.Instruction]bool) []ssa.Instruction {
	var out []ssa.Instruction
	for in := range m {
		out = append(out, in)
	}
	sort.Slice(out, func(i, j int) bool { return out[i].Pos() < out[j].Pos() })
	return out
}

// ---------------------------------------------------------------------------
// SUCCESS-RETURNS-DATA (R11f): every success return of the verifier-state
// update hands out the UpdateData value whose fields were all filled (a
// shortcut returning a zero value reports a previous leaf count of 0).

func checkSuccessReturnsData(p *Program, r *Report, rule string) {
	fn := p.Func("(*Stump).Update")
	if fn == nil {
		r.MissingAnchor(rule, "(*Stump).Update", "verifier-state update not found")
		return
	}
	_, st := p.lookupStruct("UpdateData")
	if st == nil {
		r.MissingAnchor(rule, "UpdateData", "update data type not found")
		return
	}
	n := 0
	for _, ret := range returnsOf(fn) {
		if !isSuccessReturn(ret) {
			continue
		}
		n++
		key := fmt.Sprintf("(*Stump).Update/success-return#%d", n)
		v := retOperands(ret)[0]
		u, ok := v.(*ssa.UnOp)
		var al *ssa.Alloc
		if ok && u.Op == token.MUL {
			al, _ = u.X.(*ssa.Alloc)
		}
		if al == nil {
			r.Violate(rule, key, posOf(p, ret), "a success return does not hand out a filled UpdateData value (a constant or zero value is returned): PrevNumLeaves and the lists would not describe the block", "in (*Stump).Update")
			continue
		}
		filled := map[string]bool{}
		for _, ref := range *al.Referrers() {
			fa, ok := ref.(*ssa.FieldAddr)
			if !ok {
				continue
			}
			for _, r2 := range *fa.Referrers() {
				if s, ok := r2.(*ssa.Store); ok && s.Addr == fa && dominatesInstr(s, ret) {
					filled[fieldName(fa.X.Type(), fa.Field)] = true
				}
			}
		}
		var missing []string
		for i := 0; i < st.NumFields(); i++ {
			if !filled[st.Field(i).Name()] {
				missing = append(missing, st.Field(i).Name())
			}
		}
		if len(missing) > 0 {
			r.Violate(rule, key, posOf(p, ret), fmt.Sprintf("a success return hands out UpdateData with field(s) %v not set on every path", missing), "in (*Stump).Update")
		} else {
			r.Discharge(rule, key, posOf(p, ret), fmt.Sprintf("all %d fields of the returned UpdateData are stored on every path to this return", st.NumFields()), true)
		}
	}
	r.Floor(rule, "success returns of the verifier-state update", n, 1)
}

// ---------------------------------------------------------------------------
// TTL-FRESH (R15e): the schedule generator recomputes the TTL table from the
// recorded blocks on every call, or refreshes it under a flag that recording a
// block resets. Otherwise blocks recorded after the first generation are
// ignored.

func checkTTLFresh(p *Program, r *Report, rule string) {
	gen := p.Func("(*CachingScheduleTracker).GenerateCachingSchedule")
	if gen == nil {
		r.MissingAnchor(rule, "(*CachingScheduleTracker).GenerateCachingSchedule", "schedule generator not found")
		return
	}
	key := "(*CachingScheduleTracker).GenerateCachingSchedule/ttl-table"
	// the TTL table: the receiver field the generator ranges over that another method of the receiver writes
	writers := map[string][]*ssa.Function{} // field -> methods (not the generator) storing it
	for _, f := range p.Funcs {
		if f.Parent() != nil || f.Signature.Recv() == nil || f == gen || !types.Identical(deref(f.Signature.Recv().Type()), deref(gen.Signature.Recv().Type())) {
			continue
		}
		for _, b := range f.Blocks {
			for _, in := range b.Instrs {
				if st, ok := in.(*ssa.Store); ok {
					if fa, ok := st.Addr.(*ssa.FieldAddr); ok && isReceiverValue(f, fa.X) {
						writers[fieldName(fa.X.Type(), fa.Field)] = append(writers[fieldName(fa.X.Type(), fa.Field)], f)
					}
				}
			}
		}
	}
	// calls in the generator to methods of the receiver that write a field the generator reads afterwards
	var refresh *ssa.Call
	var table string
	for _, sc := range callsIn(p, gen) {
		callee := sc.call.Common().StaticCallee()
		if callee == nil || callee.Signature.Recv() == nil {
			continue
		}
		for field, ws := range writers {
			for _, w := range ws {
				if w != callee {
					continue
				}
				// the generator reads that field
				for _, b := range gen.Blocks {
					for _, in := range b.Instrs {
						if fa, ok := in.(*ssa.FieldAddr); ok && isReceiverValue(gen, fa.X) && fieldName(fa.X.Type(), fa.Field) == field {
							refresh, table = sc.call, field
						}
					}
				}
			}
		}
	}
	if refresh == nil {
		r.Violate(rule, key, p.Pos(gen.Pos()), "the generator does not recompute the TTL table it reads (no call of the method that fills it): blocks recorded later would be ignored", "in GenerateCachingSchedule")
		return
	}
	// every read of the table is dominated by the refresh
	unguarded := true
	for _, b := range gen.Blocks {
		for _, in := range b.Instrs {
			if fa, ok := in.(*ssa.FieldAddr); ok && isReceiverValue(gen, fa.X) && fieldName(fa.X.Type(), fa.Field) == table {
				if !dominatesInstr(refresh, fa) {
					// reads that merely test the table in the guard of the refresh are handled below
					unguarded = false
				}
			}
		}
	}
	if unguarded {
		r.Discharge(rule, key, posOf(p, refresh), "the TTL table ("+table+") is recomputed by a call that dominates every read of it", true)
		return
	}
	// conditional refresh: acceptable only if the recording method resets what the condition tests
	var testedFields []string
	for _, g := range guardsAt(refresh.Block()) {
		flowsFromField := func(v ssa.Value) string {
			name := ""
			derivesDeep(v, func(x ssa.Value) bool {
				if _, f, ok := fieldRead(x); ok {
					name = f
					return true
				}
				return false
			}, 0, map[ssa.Value]bool{})
			return name
		}
		if bo, ok := g.Cond.(*ssa.BinOp); ok {
			for _, op := range []ssa.Value{bo.X, bo.Y} {
				if lv, isLen := lenArg(op); isLen {
					op = lv
				}
				if f := flowsFromField(op); f != "" {
					testedFields = append(testedFields, f)
				}
			}
		}
	}
	rec := p.Func("(*CachingScheduleTracker).AddBlockSummary")
	resets := false
	for _, f := range testedFields {
		for _, w := range writers[f] {
			if w == rec {
				resets = true
			}
		}
	}
	if len(testedFields) > 0 && resets {
		r.Discharge(rule, key, posOf(p, refresh), fmt.Sprintf("the TTL table is refreshed under a test of %v, which recording a block resets", testedFields), true)
		return
	}
	r.Violate(rule, key, posOf(p, refresh), fmt.Sprintf("the TTL table (%s) is read without a dominating recomputation, and recording a block does not reset what the refresh condition tests %v: a second generation after more blocks uses the stale table", table, testedFields), "in GenerateCachingSchedule")
}

// ---------------------------------------------------------------------------
// NO-ARITHMETIC-POSITIONS (R07d): in the add phase of the cached-proof update
// the positions of remembered leaves come from the update data (looked up by
// hash); no position list computed from the leaf count may select from, or be
// merged with, the update-data nodes (an added leaf lifted over an empty root
// is not at numLeaves+i).

func checkNoArithmeticPositions(p *Program, r *Report, rule string, g *ssa.Function) {
	name := p.FuncName(g)
	var nodes ssa.Value // the hashAndPos parameter
	var counts []ssa.Value
	for _, par := range g.Params {
		if p.localNamed(par.Type(), "hashAndPos") {
			nodes = par
		}
		if isUint64(par.Type()) {
			counts = append(counts, par)
		}
	}
	key := name + "/remembered-positions"
	if nodes == nil || len(counts) == 0 {
		r.Undecided(rule, key, p.Pos(g.Pos()), "cannot identify the update-data nodes / leaf-count parameters of the add phase")
		return
	}
	fromCount := func(v ssa.Value) bool {
		return derivesFrom(v, func(x ssa.Value) bool {
			for _, c := range counts {
				if x == c {
					return true
				}
			}
			return false
		}, 8)
	}
	// []uint64 values built in g whose elements are computed from the leaf count
	tainted := map[ssa.Value]bool{}
	for _, b := range g.Blocks {
		for _, in := range b.Instrs {
			switch x := in.(type) {
			case *ssa.Store:
				if ia, ok := x.Addr.(*ssa.IndexAddr); ok && isUint64(x.Val.Type()) && fromCount(x.Val) {
					tainted[ia.X] = true
					// slice literal / varargs backing array
					if sl, ok := ia.X.(*ssa.Alloc); ok {
						for _, ref := range *sl.Referrers() {
							if s, ok := ref.(*ssa.Slice); ok {
								tainted[s] = true
							}
						}
					}
				}
			}
		}
	}
	// close over append / phi / slices
	for changed := true; changed; {
		changed = false
		for _, b := range g.Blocks {
			for _, in := range b.Instrs {
				v, ok := in.(ssa.Value)
				if !ok || tainted[v] {
					continue
				}
				hit := false
				switch x := in.(type) {
				case *ssa.Call:
					if builtinName(x.Common()) == "append" {
						for _, a := range x.Common().Args {
							if tainted[a] {
								hit = true
							}
						}
					}
				case *ssa.Phi:
					for _, e := range x.Edges {
						if tainted[e] {
							hit = true
						}
					}
				case *ssa.Slice:
					hit = tainted[x.X]
				case *ssa.UnOp:
					if al, ok := x.X.(*ssa.Alloc); ok && x.Op == token.MUL {
						for _, ref := range *al.Referrers() {
							if s, ok := ref.(*ssa.Store); ok && s.Addr == al && tainted[s.Val] {
								hit = true
							}
						}
					}
				}
				if hit && isSliceT(v.Type()) {
					tainted[v] = true
					changed = true
				}
			}
		}
	}
	// sinks: calls that receive a tainted list together with the update-data nodes
	fromNodes := func(v ssa.Value) bool {
		return flowsFrom(v, func(x ssa.Value) bool { return x == nodes }, 0, map[ssa.Value]bool{})
	}
	for _, sc := range callsIn(p, g) {
		cc := sc.call.Common()
		if sc := cc.StaticCallee(); sc == nil || !p.owns(sc) {
			continue
		}
		var t, nd bool
		for _, a := range cc.Args {
			if tainted[a] {
				t = true
			}
			if fromNodes(a) {
				nd = true
			}
		}
		if t && nd {
			r.Violate(rule, key, posOf(p, sc.call), "a position list computed from the leaf count selects from the update-data nodes: remembered leaves must be found by hash, an added leaf lifted over an empty root is not at numLeaves+i", "in "+name)
			return
		}
	}
	r.Discharge(rule, key, p.Pos(g.Pos()), fmt.Sprintf("no position list computed from the leaf count meets the update-data nodes (%d arithmetic list(s) in the function)", len(tainted)), true)
}

// ---------------------------------------------------------------------------
// POSITION-IN-FOREST (R03d): the hashing core must refuse a position that does
// not exist in a forest of numLeaves leaves. Structurally: some failing return
// of the core is guarded by a comparison between a value that flows from the
// claimed targets and a bound that flows from a call taking the leaf count.
// (Replacing the bound by a function of the forest height alone lets
// non-existent positions in the unpopulated tail of a row through.)

func checkPositionInForest(p *Program, r *Report, rule string, core *ssa.Function) {
	if core == nil {
		r.MissingAnchor(rule, "calculateHashes", "hashing core not found")
		return
	}
	name := p.FuncName(core)
	key := name + "/position-exists"
	// the leaf-count parameter: first uint64 parameter; the proof: struct parameter with Targets
	var numLeaves, proof ssa.Value
	for _, par := range core.Params {
		if numLeaves == nil && isUint64(par.Type()) {
			numLeaves = par
		}
		if p.localNamed(par.Type(), "Proof") {
			proof = par
		}
	}
	if numLeaves == nil || proof == nil {
		r.Undecided(rule, key, p.Pos(core.Pos()), "cannot identify the leaf-count / proof parameters of the core")
		return
	}
	fromLeafCountCall := func(v ssa.Value) bool {
		return flowsFrom(v, func(x ssa.Value) bool {
			c, ok := x.(*ssa.Call)
			if !ok {
				return false
			}
			for _, a := range c.Common().Args {
				if a == numLeaves {
					return true
				}
			}
			return false
		}, 0, map[ssa.Value]bool{})
	}
	pi := paramIndex(core, proof)
	fromTargets := func(v ssa.Value) bool {
		return flowsFrom(v, func(x ssa.Value) bool {
			if f, ok := x.(*ssa.Field); ok && f.X == proof && fieldName(proof.Type(), f.Field) == "Targets" {
				return true
			}
			return paramFieldRead(core, x, pi, "Targets")
		}, 0, map[ssa.Value]bool{})
	}
	for _, ret := range errorReturns(core) {
		for _, g := range guardsAt(ret.Block()) {
			rel, ok := relOf(g)
			if !ok {
				continue
			}
			switch rel.Op {
			case token.GTR, token.LSS, token.GEQ, token.LEQ:
			default:
				continue
			}
			if (fromTargets(rel.X) && fromLeafCountCall(rel.Y) && !fromLeafCountCall(rel.X)) ||
				(fromTargets(rel.Y) && fromLeafCountCall(rel.X) && !fromLeafCountCall(rel.Y)) {
				r.Discharge(rule, key, posOf(p, ret), "a failing return of the core is guarded by a comparison of a claimed position with a bound computed from the leaf count", true)
				return
			}
		}
	}
	// the row search extracted into a helper whose error the core hands on: look for the guarded failing
	// return there, with the claimed position and the leaf count followed through the helper's parameters
	for _, sc := range callsIn(p, core) {
		h := sc.call.Common().StaticCallee()
		if h == nil || !p.owns(h) || h.Blocks == nil {
			continue
		}
		// the helper reports failure through an error, or through a boolean that guards a failing return of the core
		failing := errorReturns(h)
		if errorResultIndex(h.Signature) < 0 {
			failing = nil
			bi := h.Signature.Results().Len() - 1
			if bi < 0 || !types.Identical(h.Signature.Results().At(bi).Type(), types.Typ[types.Bool]) {
				continue
			}
			// the core returns an error under the false outcome of that boolean
			guardsCore := false
			for _, ret := range errorReturns(core) {
				for _, g := range guardsAt(ret.Block()) {
					if ex, ok := g.Cond.(*ssa.Extract); ok && ex.Tuple == ssa.Value(sc.call) && ex.Index == bi && !g.Truth {
						guardsCore = true
					}
					if c, ok := g.Cond.(*ssa.Call); ok && c == sc.call && bi == 0 && !g.Truth {
						guardsCore = true
					}
				}
			}
			if !guardsCore {
				continue
			}
			for _, ret := range returnsOf(h) {
				ops := retOperands(ret)
				if c, ok := ops[bi].(*ssa.Const); ok && c.Value != nil && c.Value.String() == "false" {
					failing = append(failing, ret)
				}
			}
		}
		args := sc.call.Common().Args
		var hTargets, hCount []ssa.Value
		for i, a := range args {
			if i >= len(h.Params) {
				continue
			}
			if fromTargets(a) {
				hTargets = append(hTargets, h.Params[i])
			}
			if a == numLeaves {
				hCount = append(hCount, h.Params[i])
			}
		}
		if len(hTargets) == 0 || len(hCount) == 0 {
			continue
		}
		inT := func(v ssa.Value) bool {
			return flowsFrom(v, func(x ssa.Value) bool {
				for _, t := range hTargets {
					if x == t {
						return true
					}
				}
				return false
			}, 0, map[ssa.Value]bool{})
		}
		inC := func(v ssa.Value) bool {
			return flowsFrom(v, func(x ssa.Value) bool {
				c, ok := x.(*ssa.Call)
				if !ok {
					return false
				}
				for _, a := range c.Common().Args {
					for _, q := range hCount {
						if a == q {
							return true
						}
					}
				}
				return false
			}, 0, map[ssa.Value]bool{})
		}
		for _, ret := range failing {
			for _, g := range guardsAt(ret.Block()) {
				rel, ok := relOf(g)
				if !ok {
					continue
				}
				switch rel.Op {
				case token.GTR, token.LSS, token.GEQ, token.LEQ:
				default:
					continue
				}
				if (inT(rel.X) && inC(rel.Y) && !inC(rel.X)) || (inT(rel.Y) && inC(rel.X) && !inC(rel.Y)) {
					r.Discharge(rule, key, posOf(p, ret), "a failing return of "+p.FuncName(h)+", whose outcome the core turns into its error, is guarded by a comparison of the claimed position with a bound computed from the leaf count", true)
					return
				}
			}
		}
	}
	r.Violate(rule, key, p.Pos(core.Pos()), "no failing return of the hashing core is guarded by a comparison of a claimed position with a bound that depends on the leaf count: positions that do not exist in the forest would be hashed instead of refused", "in "+name)
}

// ---------------------------------------------------------------------------
// NONZERO-HASHES (R03f). The hashing core treats the reserved all-zero hash as
// "this subtree is gone: move the sibling up unhashed" - the rule it needs to
// recompute roots after a deletion. In verification mode a caller-supplied
// zero hash therefore lets the other hash climb without being hashed. Every
// verifier that hands caller-supplied hashes to the core must first refuse the
// zero hash among the target hashes and among the proof hashes.

// emptyChecks reports which hash sources fn compares with the reserved empty
// hash on a path that returns an error: parameter indexes of []Hash
// parameters, and -(idx+1) for the Proof field of a Proof parameter idx.
func emptyChecks(p *Program, fn *ssa.Function) map[int]bool {
	out := map[int]bool{}
	// the scan extracted into a predicate: `if containsEmpty(xs) { return error }`, where the
	// predicate returns true exactly on the path that found an element equal to the empty hash
	for _, sc := range callsIn(p, fn) {
		h := sc.call.Common().StaticCallee()
		if h == nil || !p.owns(h) || h.Blocks == nil || h.Signature.Results().Len() != 1 || !types.Identical(h.Signature.Results().At(0).Type(), types.Typ[types.Bool]) {
			continue
		}
		hp := -1
		for i, par := range h.Params {
			if isHashSlice(par.Type()) && emptyPredicate(h, par) {
				hp = i
			}
		}
		if hp < 0 || hp >= len(sc.call.Common().Args) {
			continue
		}
		// the true edge of the call's result must lead to a failing return
		var iff *ssa.If
		if sc.call.Referrers() != nil {
			for _, ref := range *sc.call.Referrers() {
				if i, ok := ref.(*ssa.If); ok && i.Cond == ssa.Value(sc.call) {
					iff = i
				}
			}
		}
		if iff == nil || !blockReturnsNonNilError(iff.Block().Succs[0]) {
			continue
		}
		arg := sc.call.Common().Args[hp]
		for i, par := range fn.Params {
			if isHashSlice(par.Type()) && derivesDeep(arg, func(x ssa.Value) bool { return x == ssa.Value(par) }, 0, map[ssa.Value]bool{}) {
				out[i] = true
			}
			if p.localNamed(par.Type(), "Proof") {
				i := i
				if derivesDeep(arg, func(x ssa.Value) bool {
					if f, ok := x.(*ssa.Field); ok && f.X == ssa.Value(par) && fieldName(par.Type(), f.Field) == "Proof" {
						return true
					}
					return paramFieldRead(fn, x, i, "Proof")
				}, 0, map[ssa.Value]bool{}) {
					out[-(i + 1)] = true
				}
			}
		}
	}
	for _, b := range fn.Blocks {
		for _, in := range b.Instrs {
			bo, ok := in.(*ssa.BinOp)
			if !ok || (bo.Op != token.EQL && bo.Op != token.NEQ) || !isHashType(bo.X.Type()) {
				continue
			}
			var other ssa.Value
			switch {
			case isEmptyGlobal(bo.X):
				other = bo.Y
			case isEmptyGlobal(bo.Y):
				other = bo.X
			default:
				continue
			}
			// the equal edge must lead to a failing return
			var iff *ssa.If
			for _, ref := range *bo.Referrers() {
				if i, ok := ref.(*ssa.If); ok {
					iff = i
				}
			}
			if iff == nil {
				continue
			}
			eqSucc := iff.Block().Succs[0]
			if bo.Op == token.NEQ {
				eqSucc = iff.Block().Succs[1]
			}
			if !blockReturnsNonNilError(eqSucc) {
				continue
			}
			if partial, _ := elementOfPartialScan(other); partial {
				continue // read under the counter of a loop over another list: the tail is never looked at
			}
			for i, par := range fn.Params {
				if isHashSlice(par.Type()) && derivesDeep(other, func(x ssa.Value) bool { return x == ssa.Value(par) }, 0, map[ssa.Value]bool{}) {
					out[i] = true
				}
				if p.localNamed(par.Type(), "Proof") {
					i := i
					if derivesDeep(other, func(x ssa.Value) bool {
						if f, ok := x.(*ssa.Field); ok && f.X == ssa.Value(par) && fieldName(par.Type(), f.Field) == "Proof" {
							return true
						}
						return paramFieldRead(fn, x, i, "Proof")
					}, 0, map[ssa.Value]bool{}) {
						out[-(i + 1)] = true
					}
				}
			}
		}
	}
	return out
}

func checkNonzeroHashes(p *Program, r *Report, rule string, a *verifyAnchors) {
	n := 0
	for _, fn := range sortedFuncs(p, a.spine) {
		for _, sc := range callsIn(p, fn) {
			if sc.call.Common().StaticCallee() != a.core {
				continue
			}
			var hashes, proof ssa.Value
			for _, x := range sc.call.Common().Args {
				if isHashSlice(x.Type()) {
					hashes = x
				}
				if p.localNamed(x.Type(), "Proof") {
					proof = x
				}
			}
			if hashes == nil || proof == nil || isNilConst(hashes) {
				continue
			}
			key := fmt.Sprintf("%s->%s#%d", p.FuncName(fn), sc.label, sc.ord)
			// behind a successful verifier run on the same values the check was already made
			if j, why := coreCallJustified(p, sc.call, a); j {
				r.Discharge(rule, key, posOf(p, sc.call), why, false)
				continue
			}
			n++
			coveredH, coveredP := false, false
			// inline checks in fn
			own := emptyChecks(p, fn)
			for i, par := range fn.Params {
				if own[i] && sameValue(par, hashes) {
					coveredH = true
				}
				if own[-(i+1)] && sameStructSource(par, proof) {
					coveredP = true
				}
				if own[-(i+1)] && ssa.Value(par) == proof {
					coveredP = true
				}
			}
			// helper calls that dominate the core call, with their error examined
			for _, hc := range callsIn(p, fn) {
				h := hc.call.Common().StaticCallee()
				if h == nil || !p.owns(h) || h == a.core || !dominatesInstr(hc.call, sc.call) || errorResultIndex(h.Signature) < 0 {
					continue
				}
				if v := errChain(hc.call, ErrChainOpts{}); !v.OK {
					continue
				}
				ec := emptyChecks(p, h)
				for i, arg := range hc.call.Common().Args {
					if ec[i] && sameValue(arg, hashes) {
						coveredH = true
					}
					if ec[-(i+1)] && (arg == proof || sameValue(arg, proof)) {
						coveredP = true
					}
				}
			}
			switch {
			case coveredH && coveredP:
				r.Discharge(rule, key, posOf(p, sc.call), "the target hashes and the proof hashes are both compared with the reserved zero hash, with an error return, before the core runs", true)
			default:
				miss := "the target hashes and the proof hashes"
				if coveredH {
					miss = "the proof hashes"
				} else if coveredP {
					miss = "the target hashes"
				}
				r.Violate(rule, key, posOf(p, sc.call), "the core treats the all-zero hash as 'subtree gone, move the sibling up unhashed', but "+miss+" supplied by the caller are not checked against it before the core runs: a zero hash makes a false claim verify", "in "+p.FuncName(fn))
			}
		}
	}
	r.Floor(rule, "core call sites on caller-supplied hashes", n, 2)
}

// ---------------------------------------------------------------------------
// SIBLING-TEST (R03g). rightSib(x) returns x itself when x is a right child, so
// "rightSib(a) == b" alone does not establish that b is a's sibling: a second
// claim at the same right-child position would be paired with the first as if
// it were the left sibling. In the verification core every such test must be
// joined with a test that a is a left child (or a != b).

func orOneFunc(p *Program) *ssa.Function {
	// the function  func(pos uint64) uint64 { return pos | 1 }
	for _, f := range p.Funcs {
		if f.Parent() != nil || f.Signature.Recv() != nil || len(f.Params) != 1 || !isUint64(f.Params[0].Type()) || len(f.Blocks) != 1 {
			continue
		}
		rets := returnsOf(f)
		if len(rets) != 1 || len(rets[0].Results) != 1 {
			continue
		}
		bo, ok := rets[0].Results[0].(*ssa.BinOp)
		if !ok || bo.Op != token.OR || bo.X != ssa.Value(f.Params[0]) {
			continue
		}
		if c, ok := bo.Y.(*ssa.Const); ok && c.Value != nil && c.Uint64() == 1 {
			return f
		}
	}
	return nil
}

// isLeftTest: cond establishes (with the given truth) that v is a left child /
// differs from other.
func isLeftTest(p *Program, g guard, v, other ssa.Value) bool {
	// call of a predicate  func(pos uint64) bool { return pos&1 == 0 }
	if c, ok := g.Cond.(*ssa.Call); ok && g.Truth {
		if sc := c.Common().StaticCallee(); sc != nil && p.owns(sc) && len(c.Common().Args) == 1 && sameExpr(c.Common().Args[0], v, 0) {
			if evenPredicate(sc) {
				return true
			}
		}
	}
	if rel, ok := relOf(g); ok {
		// v != other
		if rel.Op == token.NEQ && ((sameExpr(rel.X, v, 0) && sameExpr(rel.Y, other, 0)) || (sameExpr(rel.Y, v, 0) && sameExpr(rel.X, other, 0))) {
			return true
		}
		// v&1 == 0
		if rel.Op == token.EQL {
			for _, pr := range [][2]ssa.Value{{rel.X, rel.Y}, {rel.Y, rel.X}} {
				if bo, ok := pr[0].(*ssa.BinOp); ok && bo.Op == token.AND && sameExpr(bo.X, v, 0) {
					if c1, ok := bo.Y.(*ssa.Const); ok && c1.Value != nil && c1.Uint64() == 1 {
						if c0, ok := pr[1].(*ssa.Const); ok && c0.Value != nil && c0.Uint64() == 0 {
							return true
						}
					}
				}
			}
		}
	}
	return false
}

func evenPredicate(f *ssa.Function) bool {
	if len(f.Params) != 1 || len(f.Blocks) != 1 {
		return false
	}
	rets := returnsOf(f)
	if len(rets) != 1 || len(rets[0].Results) != 1 {
		return false
	}
	bo, ok := rets[0].Results[0].(*ssa.BinOp)
	if !ok || bo.Op != token.EQL {
		return false
	}
	and, ok := bo.X.(*ssa.BinOp)
	if !ok || and.Op != token.AND || and.X != ssa.Value(f.Params[0]) {
		return false
	}
	c1, ok1 := and.Y.(*ssa.Const)
	c0, ok0 := bo.Y.(*ssa.Const)
	return ok1 && ok0 && c1.Value != nil && c0.Value != nil && c1.Uint64() == 1 && c0.Uint64() == 0
}

func checkSiblingTests(p *Program, r *Report, rule string, a *verifyAnchors) {
	rs := orOneFunc(p)
	if rs == nil {
		r.MissingAnchor(rule, "rightSib", "the function computing a right sibling (pos|1) was not found")
		return
	}
	if a.core == nil {
		r.MissingAnchor(rule, "calculateHashes", "hashing core not found")
		return
	}
	n := 0
	for _, fn := range sortedFuncs(p, p.StaticReach(a.core)) {
		ord := 0
		for _, b := range fn.Blocks {
			for _, in := range b.Instrs {
				bo, ok := in.(*ssa.BinOp)
				if !ok || (bo.Op != token.EQL && bo.Op != token.NEQ) {
					continue
				}
				var call *ssa.Call
				var other ssa.Value
				if c, ok := bo.X.(*ssa.Call); ok && c.Common().StaticCallee() == rs {
					call, other = c, bo.Y
				} else if c, ok := bo.Y.(*ssa.Call); ok && c.Common().StaticCallee() == rs {
					call, other = c, bo.X
				}
				if call == nil {
					continue
				}
				n++
				ord++
				key := fmt.Sprintf("%s/sibling-test#%d", p.FuncName(fn), ord)
				v := call.Common().Args[0]
				ok2 := false
				for _, g := range guardsAt(b) {
					if isLeftTest(p, g, v, other) {
						ok2 = true
					}
				}
				// or the sibling edge itself is further guarded before anything is concluded
				if !ok2 {
					for _, ref := range *bo.Referrers() {
						iff, isIf := ref.(*ssa.If)
						if !isIf {
							continue
						}
						sib := iff.Block().Succs[0]
						if bo.Op == token.NEQ {
							sib = iff.Block().Succs[1]
						}
						for _, g := range guardsAt(sib) {
							if g.If != iff && isLeftTest(p, g, v, other) {
								ok2 = true
							}
						}
					}
				}
				if ok2 {
					r.Discharge(rule, key, posOf(p, bo), "the sibling test is joined with a test that the position is a left child", true)
				} else {
					r.Violate(rule, key, posOf(p, bo), "siblinghood is concluded from rightSib(a) == b alone; rightSib returns a itself for a right child, so a second claim at the same right-child position is paired with the first as its sibling and a false claim verifies", "in "+p.FuncName(fn))
				}
			}
		}
	}
	r.Floor(rule, "sibling tests in the hashing core", n, 1)
}

// ---------------------------------------------------------------------------
// CANDIDATE-POSITIONS-USED (R03h). A recomputed root must be compared with the
// root of the tree it was computed in. Structurally: the verifier has to use
// the positional result of the core, not only the list of candidate hashes.

func checkCandidatePositionsUsed(p *Program, r *Report, rule string, a *verifyAnchors) {
	n := 0
	for _, fn := range []*ssa.Function{a.verify, a.pollardVerify} {
		if fn == nil {
			continue
		}
		for _, sc := range callsIn(p, fn) {
			if sc.call.Common().StaticCallee() != a.core {
				continue
			}
			n++
			key := p.FuncName(fn) + "/candidate-positions"
			res := a.core.Signature.Results()
			var posRes []ssa.Value
			for i := 0; i < res.Len(); i++ {
				if !p.localNamed(res.At(i).Type(), "hashAndPos") && !isPositionSlice(res.At(i).Type()) {
					continue
				}
				if v := resultValue(sc.call, i); v != nil && len(nonDebugRefs(v)) > 0 {
					posRes = append(posRes, v)
				}
			}
			if len(posRes) == 0 {
				r.Violate(rule, key, posOf(p, sc.call), "the verifier discards the positions at which the core computed the root candidates and matches the candidate hashes against the roots as an in-order subsequence: a hash equal to the root of one tree is accepted at the root position of another tree", "in "+p.FuncName(fn))
				continue
			}
			fromPositions := func(v ssa.Value) bool {
				return flowsFrom(v, func(x ssa.Value) bool {
					for _, pr := range posRes {
						if x == pr {
							return true
						}
					}
					return false
				}, 0, map[ssa.Value]bool{})
			}
			// every hash-equality match test must be joined, on the way to some block,
			// with an equality on a value that flows from those positions
			C, _ := candidatesIn(p, fn, a.core)
			tests := matchTests(fn, C)
			site := fn
			if C != nil && len(tests) == 0 {
				if hc, h, hC := matchHelper(p, fn, C); hc != nil {
					// the matching loop lives in a helper: positions reach it through its parameters
					site, tests = h, matchTests(h, hC)
					outer := fromPositions
					fromPositions = func(v ssa.Value) bool {
						return flowsFrom(v, func(x ssa.Value) bool {
							par, ok := x.(*ssa.Parameter)
							if !ok {
								return false
							}
							for i, q := range h.Params {
								if q == par && i < len(hc.Common().Args) && outer(hc.Common().Args[i]) {
									return true
								}
							}
							return false
						}, 0, map[ssa.Value]bool{})
					}
				}
			}
			if C == nil || len(tests) == 0 {
				r.Undecided(rule, key, posOf(p, sc.call), "cannot find the comparison of candidates with the stored roots")
				continue
			}
			allJoined := true
			for _, t := range tests {
				joined := false
				for _, b := range site.Blocks {
					hasT, hasP := false, false
					for _, g := range guardsAt(b) {
						if g.Cond == ssa.Value(t) && g.Truth == (t.Op == token.EQL) {
							hasT = true
						}
						if rel, ok := relOf(g); ok && rel.Op == token.EQL && !isHashType(rel.X.Type()) && (fromPositions(rel.X) || fromPositions(rel.Y)) {
							_, lx := lenArg(rel.X)
							_, ly := lenArg(rel.Y)
							if !lx && !ly { // an equality of positions, not of list lengths
								hasP = true
							}
						}
					}
					if hasT && hasP {
						joined = true
					}
				}
				allJoined = allJoined && joined
			}
			if allJoined {
				r.Discharge(rule, key, posOf(p, sc.call), "a root counts as matched only where, besides the hash equality, an equality on the position the candidate was computed at holds", true)
			} else {
				r.Violate(rule, key, posOf(p, sc.call), "the positions the core computed the candidates at are read, but the match of a candidate with a stored root is not conditioned on an equality of positions: a hash equal to the root of one tree is accepted at the root position of another tree", "in "+p.FuncName(fn))
			}
		}
	}
	r.Floor(rule, "verifiers matching candidates against roots", n, 2)
}

// ---------------------------------------------------------------------------
// RESTORE-SETS-CONFIG (R13e): a forest restored from a stream must carry the
// configuration its constructor gives a fresh one (otherwise it answers the
// same queries right after the restore but evolves differently under later
// blocks). A restore function either starts from the constructor's value or
// stores every field the constructor stores.

func checkRestoreConfig(p *Program, r *Report, rule string) {
	n := 0
	for _, fn := range p.Funcs {
		if fn.Parent() != nil || fn.Signature.Recv() != nil {
			continue
		}
		if rd, _ := hasStreamParam(fn.Signature); !rd {
			continue
		}
		// result: pointer to (or value of) a struct of the package
		res := fn.Signature.Results()
		var T *types.Named
		ri := -1
		for i := 0; i < res.Len(); i++ {
			if nt := namedOf(res.At(i).Type()); nt != nil && nt.Obj().Pkg() == p.Types {
				if _, ok := nt.Underlying().(*types.Struct); ok {
					T, ri = nt, i
				}
			}
		}
		if T == nil {
			continue
		}
		n++
		name := p.FuncName(fn)
		key := name + "/configuration"
		// constructors of T: parameterless or plain-parameter package functions returning T / *T without a stream
		ctorFields := map[string]bool{}
		var ctors []*ssa.Function
		for _, c := range p.Funcs {
			if c.Parent() != nil || c.Signature.Recv() != nil || c == fn || c.Object() == nil || !c.Object().Exported() {
				continue
			}
			if rd, wr := hasStreamParam(c.Signature); rd || wr {
				continue
			}
			cr := c.Signature.Results()
			if cr.Len() != 1 || namedOf(cr.At(0).Type()) != T || c.Signature.Params().Len() != 0 {
				continue
			}
			ctors = append(ctors, c)
			for _, b := range c.Blocks {
				for _, in := range b.Instrs {
					if st, ok := in.(*ssa.Store); ok {
						if fa, ok := st.Addr.(*ssa.FieldAddr); ok && namedOf(fa.X.Type()) == T {
							ctorFields[fieldName(fa.X.Type(), fa.Field)] = true
						}
					}
				}
			}
		}
		if len(ctors) == 0 {
			r.Discharge(rule, key, p.Pos(fn.Pos()), "the restored type has no parameterless constructor to agree with", false)
			continue
		}
		// the object returned on success
		var obj *ssa.Alloc
		for _, ret := range returnsOf(fn) {
			if !isSuccessReturn(ret) {
				continue
			}
			v := retOperands(ret)[ri]
			switch x := v.(type) {
			case *ssa.Alloc:
				obj = x
			case *ssa.UnOp:
				obj, _ = x.X.(*ssa.Alloc)
			}
		}
		if obj == nil {
			r.Undecided(rule, key, p.Pos(fn.Pos()), "cannot identify the object the restore function returns")
			continue
		}
		fromCtor := false
		stored := map[string]bool{}
		for _, ref := range *obj.Referrers() {
			switch x := ref.(type) {
			case *ssa.Store:
				if x.Addr == obj {
					if c, ok := x.Val.(*ssa.Call); ok {
						for _, ct := range ctors {
							if c.Common().StaticCallee() == ct {
								fromCtor = true
							}
						}
					}
				}
			case *ssa.FieldAddr:
				for _, r2 := range *x.Referrers() {
					if st, ok := r2.(*ssa.Store); ok && st.Addr == x {
						stored[fieldName(x.X.Type(), x.Field)] = true
					}
				}
			}
		}
		if fromCtor {
			r.Discharge(rule, key, posOf(p, obj), "the restored object starts as the constructor's value", true)
			continue
		}
		var missing []string
		for f := range ctorFields {
			if !stored[f] {
				missing = append(missing, f)
			}
		}
		sort.Strings(missing)
		if len(missing) > 0 {
			r.Violate(rule, key, posOf(p, obj), fmt.Sprintf("the restored object is built without the constructor and field(s) %v that the constructor sets are never set: the restored forest answers queries alike but evolves differently under later blocks", missing), "in "+name)
		} else {
			r.Discharge(rule, key, posOf(p, obj), "every field the constructor sets is also set by the restore function", true)
		}
	}
	r.Floor(rule, "restore functions returning a forest", n, 1)
}

// ---------------------------------------------------------------------------
// REJECT-KEEPS-INDEX (R10e): block application validates the list of hashes to
// delete before it touches the leaf index. In the functions reachable from
// Modify no removal from a leaf index (direct, or through a callee) may be
// followed, inside the same function, by a return of a freshly created error:
// a Modify rejected for one untracked hash would have dropped the others.

func checkRejectKeepsIndex(p *Program, r *Report, rule string) {
	isIndexDelete := func(x ssa.Instruction) bool {
		if k, m, _ := storeCall(p, x); k == "index" && m == "Delete" {
			return true
		}
		if c, ok := x.(*ssa.Call); ok && builtinName(c.Common()) == "delete" && len(c.Common().Args) == 2 {
			if mt, ok := c.Common().Args[0].Type().Underlying().(*types.Map); ok && isByteArrayNamed(p, mt.Key()) {
				return true
			}
		}
		return false
	}
	// functions that may delete from an index
	may := map[*ssa.Function]bool{}
	for changed := true; changed; {
		changed = false
		for _, f := range p.Funcs {
			if may[f] {
				continue
			}
			for _, b := range f.Blocks {
				for _, in := range b.Instrs {
					hit := isIndexDelete(in)
					if c, ok := in.(*ssa.Call); ok && !hit {
						if sc := c.Common().StaticCallee(); sc != nil && may[sc] {
							hit = true
						}
					}
					if hit && !may[f] {
						may[f] = true
						changed = true
					}
				}
			}
		}
	}
	n := 0
	for _, entry := range []string{"(*Pollard).Modify", "(*MapPollard).Modify"} {
		e := p.Func(entry)
		if e == nil {
			r.MissingAnchor(rule, entry, "Modify not found")
			continue
		}
		for _, f := range sortedFuncs(p, p.StaticReach(e)) {
			if !may[f] || errorResultIndex(f.Signature) < 0 {
				continue
			}
			n++
			key := entry + "/" + p.FuncName(f) + "/validation-before-unindex"
			var bad ssa.Instruction
			var at ssa.Instruction
			for _, b := range f.Blocks {
				for _, in := range b.Instrs {
					del := isIndexDelete(in)
					if c, ok := in.(*ssa.Call); ok && !del {
						if sc := c.Common().StaticCallee(); sc != nil && may[sc] {
							del = true
						}
					}
					if !del {
						continue
					}
					freshFail := func(x ssa.Instruction) bool {
						ret, ok := x.(*ssa.Return)
						if !ok {
							return false
						}
						ei := errorResultIndex(f.Signature)
						ops := retOperands(ret)
						if ei >= len(ops) {
							return false
						}
						c, ok := ops[ei].(*ssa.Call)
						if !ok {
							return false
						}
						fo := calleeFunc(c.Common())
						return fo != nil && fo.Pkg() != nil && (fo.Pkg().Path() == "fmt" || fo.Pkg().Path() == "errors")
					}
					if x, esc := escapes(in, func(ssa.Instruction) bool { return false }, freshFail); esc {
						bad, at = in, x
					}
				}
			}
			if bad != nil {
				r.Violate(rule, key, posOf(p, bad), fmt.Sprintf("a hash is removed from the leaf index and a validation failure can still be returned afterwards (%s): a rejected block would leave live leaves unfindable", posOf(p, at)), "in "+p.FuncName(f))
			} else {
				r.Discharge(rule, key, p.Pos(f.Pos()), "no freshly created error can be returned after the first removal from the leaf index", true)
			}
		}
	}
	r.Floor(rule, "functions under Modify that remove from a leaf index and can fail", n, 2)
}

// ---------------------------------------------------------------------------
// INDEX-AT-NODE (R10f): the position recorded in the map forest's leaf index is
// the position the node is stored at: for every index Put(h, X) outside
// restore code and iteration callbacks the same function stores a node at the
// same position expression.

// siblingMovesToParent is the one reviewed identity of position arithmetic the
// rule uses: when position d is deleted its sibling moves to d's parent, i.e.
// calcNextPosition(sibling(d), d, rows) denotes the same position as
// Parent(d, rows). x is the indexed position, k the key of the node-store Put.
func siblingMovesToParent(p *Program, x, k ssa.Value) bool {
	callOf := func(v ssa.Value, name string, nargs int) *ssa.Call {
		if ex, ok := v.(*ssa.Extract); ok && ex.Index == 0 {
			v = ex.Tuple
		}
		c, ok := v.(*ssa.Call)
		if !ok || len(c.Common().Args) != nargs {
			return nil
		}
		sc := c.Common().StaticCallee()
		if sc == nil || !p.owns(sc) || p.FuncName(sc) != name {
			return nil
		}
		return c
	}
	next := callOf(x, "calcNextPosition", 3)
	par := callOf(k, "Parent", 2)
	if next == nil || par == nil {
		return false
	}
	d := par.Common().Args[0]
	sib := callOf(next.Common().Args[0], "sibling", 1)
	if sib == nil {
		// the step extracted into a helper that is handed both d and sibling(d): resolve the two
		// parameters at every call site
		ps, isPS := next.Common().Args[0].(*ssa.Parameter)
		pd, isPD := d.(*ssa.Parameter)
		if !isPS || !isPD || ps.Parent() != pd.Parent() {
			return false
		}
		fn := ps.Parent()
		si, di := paramIndex(fn, ps), paramIndex(fn, pd)
		callers := 0
		for _, g := range p.Funcs {
			for _, b := range g.Blocks {
				for _, in := range b.Instrs {
					c, ok := in.(*ssa.Call)
					if !ok || c.Common().StaticCallee() != fn {
						continue
					}
					callers++
					args := c.Common().Args
					if si >= len(args) || di >= len(args) {
						return false
					}
					sc := callOf(args[si], "sibling", 1)
					if sc == nil || !sameExpr(sc.Common().Args[0], args[di], 0) {
						return false
					}
				}
			}
		}
		return callers > 0 && sameExpr(next.Common().Args[1], d, 0) && sameExpr(next.Common().Args[2], par.Common().Args[1], 0)
	}
	return sameExpr(sib.Common().Args[0], d, 0) && sameExpr(next.Common().Args[1], d, 0) && sameExpr(next.Common().Args[2], par.Common().Args[1], 0)
}

func checkIndexAtNode(p *Program, r *Report, rule string) {
	n := 0
	for _, fn := range p.Funcs {
		recv := fn.Signature.Recv()
		if fn.Parent() != nil || recv == nil || !p.localNamed(recv.Type(), "MapPollard") {
			continue
		}
		if rd, _ := hasStreamParam(fn.Signature); rd {
			continue
		}
		ord := 0
		for _, b := range fn.Blocks {
			for _, in := range b.Instrs {
				k, m, cc := storeCall(p, in)
				if k != "index" || m != "Put" || len(cc.Args) < 2 {
					continue
				}
				n++
				ord++
				key := fmt.Sprintf("%s/index-put#%d", p.FuncName(fn), ord)
				x := cc.Args[1]
				found := false
				for _, b2 := range fn.Blocks {
					for _, in2 := range b2.Instrs {
						k2, m2, cc2 := storeCall(p, in2)
						if k2 == "nodes" && m2 == "Put" && (sameExpr(cc2.Args[0], x, 0) || siblingMovesToParent(p, x, cc2.Args[0])) {
							found = true
						}
					}
				}
				if found {
					r.Discharge(rule, key, posOf(p, in), "the indexed position is the position a node is stored at in the same function", true)
				} else {
					r.Violate(rule, key, posOf(p, in), "the position written to the leaf index ("+exprName(x)+") is not the position any node is stored at in this function: look-ups would return a position that does not hold the leaf", "in "+p.FuncName(fn))
				}
			}
		}
	}
	r.Floor(rule, "leaf-index position writes in the map forest", n, 6)
}

// ---------------------------------------------------------------------------
// INDEX-UPDATE-NOT-COUNTER-GATED (R10g): inside a loop that moves a node upward
// step by step, the leaf index has to follow the node on every step. An index
// update that is conditioned on a comparison of the loop's own counter (for
// example "only in the first iteration") leaves the index behind when the
// node moves more than once.

func inductionVar(v ssa.Value) *ssa.Phi {
	v = stripConvert(v)
	phi, ok := v.(*ssa.Phi)
	if !ok || len(latches(phi.Block())) == 0 {
		return nil
	}
	for _, e := range phi.Edges {
		if bo, ok := e.(*ssa.BinOp); ok && (bo.Op == token.ADD || bo.Op == token.SUB) {
			if stripConvert(bo.X) == ssa.Value(phi) {
				if _, isConst := bo.Y.(*ssa.Const); isConst {
					return phi
				}
			}
		}
	}
	return nil
}

func checkIndexNotCounterGated(p *Program, r *Report, rule string) {
	n := 0
	for _, fn := range p.Funcs {
		recv := fn.Signature.Recv()
		if fn.Parent() != nil || recv == nil || !p.localNamed(recv.Type(), "MapPollard") {
			continue
		}
		ord := 0
		for _, b := range fn.Blocks {
			for _, in := range b.Instrs {
				k, m, _ := storeCall(p, in)
				if k != "index" || (m != "Put" && m != "Delete") {
					continue
				}
				hdr := innermostLoopHeader(b)
				if hdr == nil {
					continue
				}
				n++
				ord++
				key := fmt.Sprintf("%s/index-%s-in-loop#%d", p.FuncName(fn), strings.ToLower(m), ord)
				bad := ""
				for _, g := range guardsAt(b) {
					if len(latches(g.If.Block())) > 0 {
						continue // the loop's own bound
					}
					bo, ok := g.Cond.(*ssa.BinOp)
					if !ok {
						continue
					}
					for _, op := range []ssa.Value{bo.X, bo.Y} {
						if phi := inductionVar(op); phi != nil && (phi.Block() == hdr || phi.Block().Dominates(hdr)) && loopContains(phi.Block(), b) {
							bad = fmt.Sprintf("the update is conditioned on a comparison of the loop counter %s (%s)", phi.Comment, posOf(p, bo))
						}
					}
				}
				if bad != "" {
					r.Violate(rule, key, posOf(p, in), bad+": the index follows the node only in some iterations of the loop that moves it", "in "+p.FuncName(fn))
				} else {
					r.Discharge(rule, key, posOf(p, in), "no enclosing condition compares the counter of the enclosing loop", true)
				}
			}
		}
	}
	r.Floor(rule, "leaf-index updates inside loops of the map forest", n, 4)
}

// ---------------------------------------------------------------------------
// RECORD-APPLIES-DELETIONS (R15f): recording a block keeps, next to the block's
// deletions, the root state they lead to. Every store that appends to the
// tracker's root-info history is either on the first-block path (no history
// yet) or dominated by a call that receives both the block's deletions and
// root infos - a shortcut that carries the previous root infos over leaves an
// emptied tree unmarked and later additions over it are never traced back.

func checkRecordAppliesDeletions(p *Program, r *Report, rule string) {
	fn := p.Func("(*CachingScheduleTracker).AddBlockSummary")
	if fn == nil {
		r.MissingAnchor(rule, "(*CachingScheduleTracker).AddBlockSummary", "block recording not found")
		return
	}
	var dels ssa.Value
	for _, par := range fn.Params {
		if isPositionSlice(par.Type()) {
			dels = par
		}
	}
	if dels == nil {
		r.Undecided(rule, "AddBlockSummary/deletions", p.Pos(fn.Pos()), "cannot identify the deletions parameter")
		return
	}
	isRootInfoSlice := func(t types.Type) bool {
		sl, ok := t.Underlying().(*types.Slice)
		if !ok {
			return false
		}
		nt := namedOf(sl.Elem())
		if nt == nil || nt.Obj().Pkg() != p.Types {
			return false
		}
		_, isStruct := nt.Underlying().(*types.Struct)
		return isStruct
	}
	// the root-info history: the receiver field of type [][]struct
	var applies []*ssa.Call
	for _, sc := range callsIn(p, fn) {
		callee := sc.call.Common().StaticCallee()
		if callee == nil || !p.owns(callee) {
			continue
		}
		fromDels, hasRoots := false, false
		for _, a := range sc.call.Common().Args {
			if flowsFrom(a, func(x ssa.Value) bool { return x == dels }, 0, map[ssa.Value]bool{}) {
				fromDels = true
			}
			if isRootInfoSlice(a.Type()) {
				hasRoots = true
			}
		}
		if fromDels && hasRoots {
			applies = append(applies, sc.call)
		}
	}
	// stores into the history: in the function itself, or in a method of the same receiver it calls
	// (a first-block branch extracted into a helper); the event is then the call.
	historyStore := func(g *ssa.Function, in ssa.Instruction) (*ssa.FieldAddr, bool) {
		st, ok := in.(*ssa.Store)
		if !ok {
			return nil, false
		}
		fa, ok := st.Addr.(*ssa.FieldAddr)
		if !ok || !isReceiverValue(g, fa.X) {
			return nil, false
		}
		ft, ok := deref(fa.Type()).Underlying().(*types.Slice)
		if !ok || !isRootInfoSlice(ft.Elem()) {
			return nil, false
		}
		return fa, true
	}
	type event struct {
		in ssa.Instruction
		fa *ssa.FieldAddr
	}
	var events []event
	for _, b := range fn.Blocks {
		for _, in := range b.Instrs {
			if fa, ok := historyStore(fn, in); ok {
				events = append(events, event{in, fa})
				continue
			}
			if c, ok := in.(*ssa.Call); ok {
				callee := c.Common().StaticCallee()
				if callee == nil || !p.owns(callee) || callee.Signature.Recv() == nil || callee.Blocks == nil {
					continue
				}
				for _, hb := range callee.Blocks {
					for _, hin := range hb.Instrs {
						if fa, ok := historyStore(callee, hin); ok {
							events = append(events, event{in, fa})
						}
					}
				}
			}
		}
	}
	n := 0
	for _, ev := range events {
		{
			in, fa := ev.in, ev.fa
			b := in.Block()
			st := in
			n++
			key := fmt.Sprintf("AddBlockSummary/root-history-store#%d", n)
			// first-block path: guarded by len(history) == 0
			first := false
			for _, g := range guardsAt(b) {
				rel, ok := relOf(g)
				if !ok || rel.Op != token.EQL {
					continue
				}
				for _, pr := range [][2]ssa.Value{{rel.X, rel.Y}, {rel.Y, rel.X}} {
					if lv, isLen := lenArg(pr[0]); isLen {
						if c, ok := pr[1].(*ssa.Const); ok && c.Value != nil && c.Int64() == 0 {
							if _, f, ok := fieldRead(lv); ok && f == fieldName(fa.X.Type(), fa.Field) {
								first = true
							}
						}
					}
				}
			}
			dom := false
			for _, c := range applies {
				if dominatesInstr(c, st) {
					dom = true
				}
			}
			switch {
			case first:
				r.Discharge(rule, key, posOf(p, st), "first recorded block: there is no earlier root state to apply deletions to", false)
			case dom:
				r.Discharge(rule, key, posOf(p, st), "dominated by the call that applies the block's deletions to the root infos", true)
			default:
				r.Violate(rule, key, posOf(p, st), "a root-info state is recorded for a block on a path that never applies the block's deletions to it: a tree emptied by that block stays unmarked and additions over it are not traced back", "in AddBlockSummary")
			}
		}
	}
	r.Floor(rule, "stores to the tracker's root-info history", n, 2)
}

// ---------------------------------------------------------------------------
// GROW-PER-LEAF (R01e): the map forest's growth step sizes the forest for ONE
// more leaf (TreeRows(NumLeaves+1)). It therefore has to run for every leaf
// that is added: inside the per-leaf loop of the add phase, directly or
// through the single-leaf insertion it calls. Hoisted out of the loop, a batch
// that crosses a power of two at its 2nd or later leaf is inserted into a
// forest that is one row too small.

func checkGrowPerLeaf(p *Program, r *Report, rule string) {
	mod := p.Func("(*MapPollard).Modify")
	if mod == nil {
		r.MissingAnchor(rule, "(*MapPollard).Modify", "block application of the map forest not found")
		return
	}
	// growth functions: methods of the map forest (not constructors, not stream
	// readers) that store TotalRows
	grow := map[*ssa.Function]bool{}
	for _, f := range p.Funcs {
		if f.Parent() != nil || f.Signature.Recv() == nil || !p.localNamed(f.Signature.Recv().Type(), "MapPollard") {
			continue
		}
		if rd, _ := hasStreamParam(f.Signature); rd {
			continue
		}
		for _, b := range f.Blocks {
			for _, in := range b.Instrs {
				if _, ok := receiverFieldStore(f, in, "TotalRows"); ok {
					grow[f] = true
				}
			}
		}
	}
	key := "(*MapPollard).Modify/growth-per-leaf"
	if len(grow) == 0 {
		r.Undecided(rule, key, p.Pos(mod.Pos()), "no growth function (a method storing TotalRows) found")
		return
	}
	// the add phase: the callee of Modify that receives the []Leaf parameter
	var addFn *ssa.Function
	var adds ssa.Value
	for _, par := range mod.Params {
		if sl, ok := par.Type().Underlying().(*types.Slice); ok && p.localNamed(sl.Elem(), "Leaf") {
			adds = par
		}
	}
	for _, sc := range callsIn(p, mod) {
		for _, a := range sc.call.Common().Args {
			if adds != nil && a == adds {
				addFn = sc.call.Common().StaticCallee()
			}
		}
	}
	if addFn == nil || addFn.Blocks == nil {
		r.Undecided(rule, key, p.Pos(mod.Pos()), "cannot identify the add phase of Modify")
		return
	}
	var leafParam ssa.Value
	for _, par := range addFn.Params {
		if sl, ok := par.Type().Underlying().(*types.Slice); ok && p.localNamed(sl.Elem(), "Leaf") {
			leafParam = par
		}
	}
	hdr, _ := rangeLoopOver(addFn, leafParam)
	if hdr == nil {
		// an index loop: a header that tests a counter against len(leaves)
		for _, b := range addFn.Blocks {
			if len(latches(b)) == 0 || len(b.Instrs) == 0 {
				continue
			}
			iff, ok := b.Instrs[len(b.Instrs)-1].(*ssa.If)
			if !ok {
				continue
			}
			if bo, ok := iff.Cond.(*ssa.BinOp); ok {
				for _, side := range []ssa.Value{bo.X, bo.Y} {
					if s, isLen := lenArg(side); isLen && s == leafParam {
						hdr = b
					}
				}
			}
		}
	}
	if hdr == nil {
		r.Undecided(rule, key, p.Pos(addFn.Pos()), "cannot find the loop over the added leaves")
		return
	}
	reaches := func(f *ssa.Function) bool {
		if grow[f] {
			return true
		}
		for g := range p.StaticReach(f) {
			if grow[g] {
				return true
			}
		}
		return false
	}
	inLoop, before := false, false
	for _, b := range addFn.Blocks {
		for _, in := range b.Instrs {
			c, ok := in.(*ssa.Call)
			if !ok {
				continue
			}
			sc := c.Common().StaticCallee()
			if sc == nil || !p.owns(sc) || !reaches(sc) {
				continue
			}
			if loopContains(hdr, b) && b != hdr {
				// must run on every iteration
				all := true
				for _, l := range latches(hdr) {
					if !(b == l || b.Dominates(l)) {
						all = false
					}
				}
				if all {
					inLoop = true
				}
			} else {
				before = true
			}
		}
	}
	switch {
	case inLoop:
		r.Discharge(rule, key, posOf(p, hdr.Instrs[0]), "the growth step is reached on every iteration of the loop over the added leaves", true)
	case before:
		r.Violate(rule, key, p.Pos(addFn.Pos()), "the growth step (sized for one more leaf) runs outside the loop over the added leaves: a batch crossing a power of two after its first leaf is inserted into a forest one row too small", "in "+p.FuncName(addFn))
	default:
		r.Violate(rule, key, p.Pos(addFn.Pos()), "the add phase never reaches the growth step", "in "+p.FuncName(addFn))
	}
}

// ---------------------------------------------------------------------------
// READ-IN-FOREST (R10h). Reading a position must give the zero hash for a
// position that does not exist. A keyed store answers "absent" by itself. A
// pointer forest selects a root by arithmetic on the position (Roots[tree])
// and walks down: arithmetic resolves ANY number to some node, so the walk
// has to be gated by an exact existence test. A bound that depends on the
// leaf count only through the row count (pos >= maxPosition(TreeRows(n)))
// cannot exclude the unpopulated tail of a row.
//
// existenceTests is the reviewed table of exact tests of the package:
//
//	inForest(pos, numLeaves, rows) bool      - walks to the rightmost leaf below pos and compares it with numLeaves
//
// (maxPositionAtRow was in this table until a seeding agent's witness showed it inexact for the empty forest:
// maxPositionAtRow(0, 0, 0) is 0, so position 0 "exists" with no leaves.)
var existenceTests = map[string]bool{"inForest": true}

func checkReadInForest(p *Program, r *Report, rule string) {
	n := 0
	for _, e := range p.Funcs {
		if e.Parent() != nil || e.Name() != "GetHash" || e.Signature.Recv() == nil || e.Blocks == nil || !p.owns(e) {
			continue
		}
		if len(e.Params) != 2 || !isUint64(e.Params[1].Type()) {
			continue
		}
		ename := p.FuncName(e)
		reach := p.StaticReach(e)
		reach[e] = true
		keyed, walks, translated := 0, 0, 0
		for _, g := range sortedFuncs(p, reach) {
			if g.Blocks == nil || !p.owns(g) {
				continue
			}
			for _, b := range g.Blocks {
				for _, in := range b.Instrs {
					if kind, method, cc := storeCall(p, in); kind == "nodes" && method == "Get" {
						keyed++
						// a key that is the caller's position itself is absent when the position is;
						// a key computed from it (translated into another layout) can land on a stored node
						var via *ssa.Call
						if len(cc.Args) > 0 {
							flowsFrom(cc.Args[0], func(y ssa.Value) bool {
								c, ok := y.(*ssa.Call)
								if !ok || c.Common().StaticCallee() == nil || !p.owns(c.Common().StaticCallee()) {
									return false
								}
								for _, a := range c.Common().Args {
									if par, ok := a.(*ssa.Parameter); ok && isUint64(par.Type()) && par.Parent() == g {
										via = c
										return true
									}
								}
								return false
							}, 0, map[ssa.Value]bool{})
						}
						if via != nil {
							translated++
							n++
							key := fmt.Sprintf("%s/%s/translated-key#%d", ename, p.FuncName(g), translated)
							subject := func(v ssa.Value) bool {
								par, ok := v.(*ssa.Parameter)
								return ok && isUint64(par.Type()) && par.Parent() == g
							}
							gd, ok := existenceGuardFor(p, b, subject)
							if !ok {
								gd, ok = existenceGuardFor(p, via.Block(), subject)
							}
							if ok {
								r.Discharge(rule, key, posOf(p, in), "the position is tested with "+gd+" before it is translated into the store's layout", true)
							} else {
								r.Violate(rule, key, posOf(p, in), "the store is read at a key computed from the position ("+calleeLabel(p, via.Common())+") without an exact existence test of the position: translating a position that does not exist in the forest can land on a stored node, whose hash is returned instead of the zero hash", "in "+p.FuncName(g)+", reached from "+ename)
							}
						}
						continue
					}
					ia, ok := in.(*ssa.IndexAddr)
					if !ok {
						continue
					}
					if _, isConst := ia.Index.(*ssa.Const); isConst {
						continue
					}
					_, f, isField := fieldRead(ia.X)
					if !isField || f != "Roots" {
						continue
					}
					walks++
					n++
					key := fmt.Sprintf("%s/%s/root-by-arithmetic#%d", ename, p.FuncName(g), walks)
					if gd, ok := existenceGuard(p, g, b); ok {
						r.Discharge(rule, key, posOf(p, in), "the walk from a root chosen by arithmetic is gated by the exact existence test "+gd, true)
					} else {
						r.Violate(rule, key, posOf(p, in), "a root is chosen by arithmetic on the position and walked without an exact existence test (reviewed test: inForest) of the position against the leaf count: a position in the unpopulated tail of a row is resolved to some other node and its hash returned instead of the zero hash", "in "+p.FuncName(g)+", reached from "+ename)
					}
				}
			}
		}
		if walks == 0 {
			n++
			key := ename + "/keyed-store"
			if keyed > 0 {
				r.Discharge(rule, key, p.Pos(e.Pos()), fmt.Sprintf("positions are read through the keyed node store only (%d look-ups): an absent key is reported as not stored", keyed), true)
			} else {
				r.Undecided(rule, key, p.Pos(e.Pos()), "cannot see how this position read reaches the stored nodes")
			}
		}
	}
	r.Floor(rule, "position-read entries", n, 2)
}

// existenceGuard: some guard in force at b derives from a call of a reviewed
// existence test that receives the leaf count itself (a parameter or field
// read named NumLeaves / numLeaves, not wrapped in a row computation) and a
// value derived from a uint64 parameter of g.
func existenceGuard(p *Program, g *ssa.Function, b *ssa.BasicBlock) (string, bool) {
	isTest := func(x ssa.Value) bool {
		c, ok := x.(*ssa.Call)
		if !ok {
			return false
		}
		sc := c.Common().StaticCallee()
		if sc == nil || !p.owns(sc) || !existenceTests[sc.Name()] {
			return false
		}
		direct, fromPos := false, false
		for _, a := range c.Common().Args {
			if _, f, ok := fieldRead(a); ok && f == "NumLeaves" {
				direct = true
			}
			if par, ok := a.(*ssa.Parameter); ok {
				if strings.EqualFold(par.Name(), "numLeaves") {
					direct = true
				} else if isUint64(par.Type()) {
					fromPos = true
				}
			}
			if flowsFrom(a, func(y ssa.Value) bool {
				par, ok := y.(*ssa.Parameter)
				return ok && isUint64(par.Type()) && !strings.EqualFold(par.Name(), "numLeaves")
			}, 0, map[ssa.Value]bool{}) {
				fromPos = true
			}
		}
		return direct && fromPos
	}
	for _, gd := range guardsAt(b) {
		c := gd.Cond
		truth := gd.Truth
		for {
			u, ok := c.(*ssa.UnOp)
			if !ok || u.Op != token.NOT {
				break
			}
			c, truth = u.X, !truth
		}
		if isTest(c) && truth {
			return c.(*ssa.Call).Common().StaticCallee().Name(), true
		}
		if rel, ok := relOf(gd); ok {
			for _, side := range []ssa.Value{rel.X, rel.Y} {
				var name string
				if flowsFrom(side, func(y ssa.Value) bool {
					if isTest(y) {
						name = y.(*ssa.Call).Common().StaticCallee().Name()
						return true
					}
					return false
				}, 0, map[ssa.Value]bool{}) {
					return name, true
				}
			}
		}
	}
	return "", false
}

// ---------------------------------------------------------------------------
// TRUNCATED-KEY-CONFIRMED (R10i). The pointer forest indexes its leaves by a
// truncated hash (a byte array of the package shorter than a full hash). A
// hit under the truncated key of a caller-supplied hash says only that the
// prefixes agree: before the found node is used to answer a hash -> position
// look-up, its full hash has to be compared with the hash asked for.
// Otherwise every never-added hash that shares the prefix of a live leaf is
// reported as found.

func truncatedKey(p *Program, t types.Type) bool {
	nt := namedOf(t)
	if nt == nil || nt.Obj().Pkg() != p.Types {
		return false
	}
	arr, ok := nt.Underlying().(*types.Array)
	if !ok || arr.Len() >= 32 {
		return false
	}
	bt, ok := arr.Elem().Underlying().(*types.Basic)
	return ok && bt.Kind() == types.Byte
}

func checkTruncatedLookupConfirmed(p *Program, r *Report, rule string) {
	isHashish := func(t types.Type) bool {
		if isHashType(t) {
			return true
		}
		if sl, ok := t.Underlying().(*types.Slice); ok {
			return isHashType(sl.Elem())
		}
		return false
	}
	var entries []*ssa.Function
	for _, f := range p.Funcs {
		if f.Parent() != nil || f.Object() == nil || !f.Object().Exported() || f.Signature.Recv() == nil || f.Blocks == nil || !p.owns(f) {
			continue
		}
		hasHash, hasPos := false, false
		for i := 0; i < f.Signature.Params().Len(); i++ {
			if isHashish(f.Signature.Params().At(i).Type()) {
				hasHash = true
			}
		}
		onlyPos := f.Signature.Results().Len() > 0
		for i := 0; i < f.Signature.Results().Len(); i++ {
			t := f.Signature.Results().At(i).Type()
			switch {
			case isUint64(t):
				hasPos = true
			case func() bool { sl, ok := t.Underlying().(*types.Slice); return ok && isUint64(sl.Elem()) }():
				hasPos = true
			case types.Identical(t, types.Typ[types.Bool]):
			default:
				onlyPos = false
			}
		}
		if hasHash && hasPos && onlyPos && f.Signature.Params().Len() == 1 {
			entries = append(entries, f)
		}
	}
	r.Floor(rule, "hash -> position look-up entries", len(entries), 3)
	n := 0
	for _, e := range sortedFuncSlice(p, entries) {
		ename := p.FuncName(e)
		reach := p.StaticReach(e)
		reach[e] = true
		sites, full := 0, 0
		for _, g := range sortedFuncs(p, reach) {
			if g.Blocks == nil || !p.owns(g) {
				continue
			}
			for _, b := range g.Blocks {
				for _, in := range b.Instrs {
					if kind, method, _ := storeCall(p, in); kind == "index" && method == "Get" {
						full++
						continue
					}
					lk, ok := in.(*ssa.Lookup)
					if !ok {
						continue
					}
					mt, ok := lk.X.Type().Underlying().(*types.Map)
					if !ok {
						continue
					}
					if !truncatedKey(p, mt.Key()) {
						if isHashType(mt.Key()) {
							full++
						}
						continue
					}
					fromParam := func(v ssa.Value) bool {
						return flowsFrom(v, func(x ssa.Value) bool {
							par, ok := x.(*ssa.Parameter)
							return ok && isHashish(par.Type())
						}, 0, map[ssa.Value]bool{})
					}
					if !fromParam(lk.Index) {
						continue
					}
					sites++
					n++
					key := fmt.Sprintf("%s/%s/truncated-lookup#%d", ename, p.FuncName(g), sites)
					// the found node
					var node ssa.Value = lk
					if lk.CommaOk {
						node = nil
						for _, ref := range *lk.Referrers() {
							if ex, ok := ref.(*ssa.Extract); ok && ex.Index == 0 {
								node = ex
							}
						}
					}
					if node == nil || node.Referrers() == nil {
						r.Discharge(rule, key, posOf(p, in), "only membership under the truncated key is used", false)
						continue
					}
					fromNode := func(v ssa.Value) bool {
						return flowsFrom(v, func(x ssa.Value) bool { return x == node }, 0, map[ssa.Value]bool{})
					}
					confirmed := func(blk *ssa.BasicBlock) bool {
						for _, gd := range guardsAt(blk) {
							bo, ok := gd.Cond.(*ssa.BinOp)
							if !ok || !isHashType(bo.X.Type()) {
								continue
							}
							if !((bo.Op == token.EQL && gd.Truth) || (bo.Op == token.NEQ && !gd.Truth)) {
								continue
							}
							if (fromNode(bo.X) && fromParam(bo.Y) && !fromNode(bo.Y)) || (fromNode(bo.Y) && fromParam(bo.X) && !fromNode(bo.X)) {
								return true
							}
						}
						return false
					}
					var bad ssa.Instruction
					for _, ref := range *node.Referrers() {
						// reads of the node's own hash feed the confirmation itself
						if fa, ok := ref.(*ssa.FieldAddr); ok {
							onlyCmp := true
							for _, r2 := range *fa.Referrers() {
								u, ok := r2.(*ssa.UnOp)
								if !ok {
									onlyCmp = false
									break
								}
								for _, r3 := range *u.Referrers() {
									if bo, ok := r3.(*ssa.BinOp); !ok || (bo.Op != token.EQL && bo.Op != token.NEQ) {
										onlyCmp = false
									}
								}
							}
							if onlyCmp {
								continue
							}
						}
						if _, ok := ref.(*ssa.DebugRef); ok {
							continue
						}
						if !confirmed(ref.Block()) && bad == nil {
							bad = ref
						}
					}
					if bad != nil {
						r.Violate(rule, key, posOf(p, bad), "the node found under the truncated key of a caller-supplied hash is used without comparing its full hash with the hash asked for: a never-added hash sharing the prefix of a live leaf is reported as found", "in "+p.FuncName(g)+", reached from "+ename)
					} else {
						r.Discharge(rule, key, posOf(p, in), "every use of the found node is behind an equality of its full hash with the hash asked for", true)
					}
				}
			}
		}
		if sites == 0 {
			n++
			key := ename + "/full-key"
			if full > 0 {
				r.Discharge(rule, key, p.Pos(e.Pos()), fmt.Sprintf("the look-up uses full-hash keys only (%d look-ups)", full), true)
			} else {
				r.Undecided(rule, key, p.Pos(e.Pos()), "cannot see how this look-up reaches a leaf index")
			}
		}
	}
}

func sortedFuncSlice(p *Program, fs []*ssa.Function) []*ssa.Function {
	m := map[*ssa.Function]bool{}
	for _, f := range fs {
		m[f] = true
	}
	return sortedFuncs(p, m)
}

// ---------------------------------------------------------------------------
// SIBLING-ALWAYS-SUPPLIED (R03i). The parent-hash step of the core treats the
// zero hash as "this subtree is gone: the other hash moves up unhashed". In
// verification both inputs of that step must therefore come from the claim,
// from an earlier step or from the proof on every path: if one of them can be
// the default value of its variable (a branch that assigns nothing because
// the proof ran out), the hash of an ancestor is accepted at a descendant's
// position with a truncated proof.

func checkSiblingSupplied(p *Program, r *Report, rule string, a *verifyAnchors) {
	if a.core == nil {
		r.MissingAnchor(rule, "calculateHashes", "hashing core not found")
		return
	}
	core := a.core
	n := 0
	for _, sc := range callsIn(p, core) {
		callee := sc.call.Common().StaticCallee()
		if callee == nil || !p.owns(callee) {
			continue
		}
		sig := callee.Signature
		if sig.Results().Len() != 1 || !isHashType(sig.Results().At(0).Type()) {
			continue
		}
		var hashArgs []ssa.Value
		for i, arg := range sc.call.Common().Args {
			if i < sig.Params().Len() && isHashType(sig.Params().At(i).Type()) {
				hashArgs = append(hashArgs, arg)
			}
		}
		if len(hashArgs) != 2 {
			continue
		}
		n++
		key := fmt.Sprintf("%s->%s#%d/inputs", p.FuncName(core), sc.label, sc.ord)
		var bad string
		for i, arg := range hashArgs {
			if why := mayBeDefault(arg, sc.call, map[ssa.Value]bool{}); why != "" {
				bad = fmt.Sprintf("hash input %d of the parent-hash step %s", i+1, why)
				break
			}
		}
		if bad != "" {
			r.Violate(rule, key, posOf(p, sc.call), bad+": the step takes a zero input as a deleted subtree and moves the other hash up unhashed, so with a truncated proof the hash of an ancestor is accepted at a descendant's position", "in "+p.FuncName(core))
		} else {
			r.Discharge(rule, key, posOf(p, sc.call), "both hash inputs of the parent-hash step are assigned from the claim, an earlier step or the proof on every path", true)
		}
	}
	r.Floor(rule, "parent-hash steps in the core", n, 1)
}

// mayBeDefault: v can be the zero value of its declared variable at use:
// a zero constant on some phi edge, or a load of a local that some path from
// its declaration to the use leaves unassigned.
func mayBeDefault(v ssa.Value, use ssa.Instruction, seen map[ssa.Value]bool) string {
	if seen[v] {
		return ""
	}
	seen[v] = true
	switch x := v.(type) {
	case *ssa.Const:
		if x.Value == nil {
			return "can be the zero value (a path assigns nothing to the variable)"
		}
	case *ssa.Phi:
		for _, e := range x.Edges {
			if why := mayBeDefault(e, use, seen); why != "" {
				return why
			}
		}
	case *ssa.UnOp:
		if x.Op != token.MUL {
			return ""
		}
		al, ok := x.X.(*ssa.Alloc)
		if !ok {
			return ""
		}
		// whole-value stores into the local
		stores := map[*ssa.BasicBlock][]int{}
		for _, ref := range *al.Referrers() {
			if st, ok := ref.(*ssa.Store); ok && st.Addr == al {
				for i, in := range st.Block().Instrs {
					if in == ssa.Instruction(st) {
						stores[st.Block()] = append(stores[st.Block()], i)
					}
				}
			}
		}
		idxIn := func(b *ssa.BasicBlock, in ssa.Instruction) int {
			for i, y := range b.Instrs {
				if y == in {
					return i
				}
			}
			return -1
		}
		lb, li := x.Block(), idxIn(x.Block(), x)
		ab, ai := al.Block(), idxIn(al.Block(), al)
		storedBefore := func(b *ssa.BasicBlock, from, to int) bool {
			for _, i := range stores[b] {
				if i > from && (to < 0 || i < to) {
					return true
				}
			}
			return false
		}
		// path from the declaration to the load avoiding every store?
		visited := map[*ssa.BasicBlock]bool{}
		var dfs func(b *ssa.BasicBlock, from int) bool
		dfs = func(b *ssa.BasicBlock, from int) bool {
			if b == lb && from < li {
				if !storedBefore(b, from, li) {
					return true
				}
				if from >= 0 {
					return false
				}
			}
			if storedBefore(b, from, -1) {
				return false
			}
			for _, s := range b.Succs {
				if visited[s] {
					continue
				}
				visited[s] = true
				if dfs(s, -1) {
					return true
				}
			}
			return false
		}
		if dfs(ab, ai) {
			return "is read from the local " + al.Comment + " which some path from its declaration leaves unassigned"
		}
	}
	return ""
}

// ---------------------------------------------------------------------------
// MISSING-DECIDED-BY-LOOKUP (R14h). Which proof positions a partial forest
// lacks is a fact about its node store. Every success return of the method
// that reports them, other than the one for an empty request, must therefore
// be reached through a look-up of the node store; a shortcut on a
// configuration flag (Full) is wrong for a forest that was created from roots
// only and holds nothing.

func checkMissingByLookup(p *Program, r *Report, rule string) {
	fn := p.Func("(*MapPollard).GetMissingPositions")
	if fn == nil {
		r.MissingAnchor(rule, "(*MapPollard).GetMissingPositions", "missing-positions method not found")
		return
	}
	var req ssa.Value
	for _, par := range fn.Params[1:] {
		if sl, ok := par.Type().Underlying().(*types.Slice); ok && isUint64(sl.Elem()) {
			req = par
		}
	}
	var lookups []*ssa.BasicBlock
	reach := p.StaticReach(fn)
	for _, b := range fn.Blocks {
		for _, in := range b.Instrs {
			if kind, method, _ := storeCall(p, in); kind == "nodes" && method == "Get" {
				lookups = append(lookups, b)
				continue
			}
			if c, ok := in.(*ssa.Call); ok {
				if sc := c.Common().StaticCallee(); sc != nil && p.owns(sc) {
					sub := p.StaticReach(sc)
					sub[sc] = true
					for g := range sub {
						if !reach[g] && g != sc {
							continue
						}
						for _, gb := range g.Blocks {
							for _, gin := range gb.Instrs {
								if kind, method, _ := storeCall(p, gin); kind == "nodes" && method == "Get" {
									lookups = append(lookups, b)
								}
							}
						}
					}
				}
			}
		}
	}
	n := 0
	for _, ret := range returnsOf(fn) {
		if fn.Recover != nil && ret.Block() == fn.Recover {
			continue // the return of the recover block (a deferred unlock is present): no value of its own
		}
		n++
		key := fmt.Sprintf("(*MapPollard).GetMissingPositions/return#%d", n)
		// the empty request
		emptyReq := false
		for _, gd := range guardsAt(ret.Block()) {
			rel, ok := relOf(gd)
			if !ok {
				continue
			}
			for _, pr := range [][2]ssa.Value{{rel.X, rel.Y}, {rel.Y, rel.X}} {
				s, isLen := lenArg(pr[0])
				c, isConst := pr[1].(*ssa.Const)
				if isLen && req != nil && s == req && isConst && c.Value != nil && c.Int64() == 0 && rel.Op == token.EQL {
					emptyReq = true
				}
			}
		}
		if emptyReq {
			r.Discharge(rule, key, posOf(p, ret), "return for an empty request", false)
			continue
		}
		// some look-up on every path: a look-up block dominates the return, or the return is
		// reached only through a loop over the proof positions that looks each one up (the loop
		// may run zero times only when there is no proof position at all)
		ok := false
		for _, lb := range lookups {
			if lb.Dominates(ret.Block()) {
				ok = true
			}
			if h := innermostLoopHeader(lb); h != nil && h.Dominates(ret.Block()) {
				ok = true
			}
		}
		if ok {
			r.Discharge(rule, key, posOf(p, ret), "reached through the look-ups of the node store", true)
		} else {
			r.Violate(rule, key, posOf(p, ret), "a result is returned for a non-empty request without consulting the node store: what is missing cannot be decided from configuration (a forest created from roots holds nothing, whatever its Full flag says)", "in (*MapPollard).GetMissingPositions")
		}
	}
	r.Floor(rule, "returns of the missing-positions method", n, 2)
}

// ---------------------------------------------------------------------------
// SPARSE-LIST-CURSOR (R14g). The proof hashes handed to VerifyPartialProof are
// those of the MISSING positions only - a subsequence of the canonical proof
// positions. They have to be consumed through their own cursor, advanced
// exactly when one is consumed; indexing them with the counter of the loop
// over all proof positions pairs hash k with position k instead of with the
// k-th missing position.

func checkSparseCursor(p *Program, r *Report, rule string) {
	fn := p.Func("(*MapPollard).VerifyPartialProof")
	if fn == nil {
		r.MissingAnchor(rule, "(*MapPollard).VerifyPartialProof", "partial-proof verifier not found")
		return
	}
	// the sparse list: the last []Hash parameter (the first is parallel to the targets)
	var sparse ssa.Value
	for _, par := range fn.Params {
		if isHashSlice(par.Type()) {
			sparse = par
		}
	}
	if sparse == nil {
		r.Undecided(rule, "(*MapPollard).VerifyPartialProof/sparse-list", p.Pos(fn.Pos()), "cannot identify the list of hashes for the missing positions")
		return
	}
	n := 0
	for _, b := range fn.Blocks {
		for _, in := range b.Instrs {
			ia, ok := in.(*ssa.IndexAddr)
			if !ok || ia.X != sparse {
				continue
			}
			n++
			key := fmt.Sprintf("(*MapPollard).VerifyPartialProof/%s[%d]", sparse.Name(), n)
			if _, isConst := ia.Index.(*ssa.Const); isConst {
				r.Discharge(rule, key, posOf(p, ia), "constant index", false)
				continue
			}
			// index = phi(init, phi+1): the increment must be dominated by the read
			var incs []*ssa.BinOp
			seen := map[ssa.Value]bool{}
			var walk func(v ssa.Value)
			walk = func(v ssa.Value) {
				if seen[v] {
					return
				}
				seen[v] = true
				switch x := v.(type) {
				case *ssa.Phi:
					for _, e := range x.Edges {
						walk(e)
					}
				case *ssa.BinOp:
					if x.Op == token.ADD {
						incs = append(incs, x)
						walk(x.X)
					}
				}
			}
			walk(ia.Index)
			// the index itself may be the incremented value (range loops: idx = phi+1)
			own := true
			why := ""
			if len(incs) == 0 {
				own, why = false, "the index is not a cursor"
			}
			for _, inc := range incs {
				if inc == ia.Index {
					own, why = false, "the index is the counter of the enclosing loop (advanced on every iteration)"
					break
				}
				if !(b == inc.Block() || b.Dominates(inc.Block())) {
					own, why = false, "the index is advanced on paths that do not consume an element"
				}
			}
			if own {
				r.Discharge(rule, key, posOf(p, ia), "consumed through its own cursor, advanced only where an element is consumed", true)
			} else {
				r.Violate(rule, key, posOf(p, ia), "the hashes of the missing positions are a subsequence of the proof positions, but "+why+": hash k is paired with proof position k instead of the k-th missing position", "in (*MapPollard).VerifyPartialProof")
			}
		}
	}
	r.Floor(rule, "reads of the missing-position hashes", n, 1)
}

// ---------------------------------------------------------------------------
// EXISTENCE-BEFORE-DETECTION (R15g). A stated belief: the tracker calls the
// tree/branch detection with its error result discarded ("cannot fail"). That
// holds for a recorded deletion (a position the prover emitted for the forest
// before the block) but not for a tracked leaf position: the tracked list also
// holds the leaves the block itself added, which do not exist in the forest
// the deletions are undone in. For them the detection fails, returns zero
// values, and the leaf is "moved" as if it stood in the first tree. Every
// call with a discarded error whose position argument comes from a list of
// positions must be behind an exact existence test of that position, unless
// the list is in the reviewed table below.
//
// discardedErrorInputsValid: (function, parameter) pairs whose elements exist
// in the forest the function works on, with the reason.
var discardedErrorInputsValid = map[string]string{
	"undoDel/deleted": "recorded deletions are the prover's targets for the forest before the block (the property quantifies over such histories)",
}

func checkExistenceBeforeDetection(p *Program, r *Report, rule string) {
	var entries []*ssa.Function
	for _, f := range p.Funcs {
		if f.Parent() == nil && f.Signature.Recv() != nil && p.localNamed(f.Signature.Recv().Type(), "CachingScheduleTracker") && f.Object() != nil && f.Object().Exported() {
			entries = append(entries, f)
		}
	}
	if len(entries) == 0 {
		r.MissingAnchor(rule, "CachingScheduleTracker", "no exported method of the caching-schedule tracker found")
		return
	}
	reach := p.StaticReach(entries...)
	n := 0
	for _, g := range sortedFuncs(p, reach) {
		if g.Blocks == nil || !p.owns(g) {
			continue
		}
		for _, sc := range callsIn(p, g) {
			cc := sc.call.Common()
			callee := cc.StaticCallee()
			if callee == nil || !p.owns(callee) {
				continue
			}
			ei := errorResultIndex(callee.Signature)
			if ei < 0 {
				continue
			}
			// is the error looked at?
			used := false
			if sc.call.Referrers() != nil {
				for _, ref := range *sc.call.Referrers() {
					if ex, ok := ref.(*ssa.Extract); ok && ex.Index == ei && ex.Referrers() != nil && len(*ex.Referrers()) > 0 {
						used = true
					}
				}
			}
			if callee.Signature.Results().Len() == 1 && sc.call.Referrers() != nil && len(*sc.call.Referrers()) > 0 {
				used = true
			}
			if used {
				continue
			}
			// position lists the arguments come from
			type src struct {
				par  *ssa.Parameter
				elem ssa.Value
			}
			var srcs []src
			for _, a := range cc.Args {
				if !isUint64(a.Type()) {
					continue
				}
				seen := map[ssa.Value]bool{}
				var walk func(v ssa.Value, depth int)
				walk = func(v ssa.Value, depth int) {
					if v == nil || seen[v] || depth > 8 {
						return
					}
					seen[v] = true
					switch x := v.(type) {
					case *ssa.UnOp:
						if ia, ok := x.X.(*ssa.IndexAddr); ok {
							base := ia.X
							for {
								if ph, ok := base.(*ssa.Phi); ok && len(ph.Edges) > 0 {
									base = ph.Edges[0]
									continue
								}
								break
							}
							// the list the element is taken from: a parameter, or a local list made from one
							lseen := map[ssa.Value]bool{}
							var lists func(l ssa.Value, d int)
							lists = func(l ssa.Value, d int) {
								if l == nil || lseen[l] || d > 6 {
									return
								}
								lseen[l] = true
								switch y := l.(type) {
								case *ssa.Parameter:
									if sl, ok := y.Type().Underlying().(*types.Slice); ok && isUint64(sl.Elem()) {
										srcs = append(srcs, src{y, x})
									}
								case *ssa.Call:
									for _, ca := range y.Common().Args {
										lists(ca, d+1)
									}
								case *ssa.Phi:
									for _, e := range y.Edges {
										lists(e, d+1)
									}
								case *ssa.Slice:
									lists(y.X, d+1)
								}
							}
							lists(base, 0)
							return
						}
						walk(x.X, depth+1)
					case *ssa.Call:
						for _, ca := range x.Common().Args {
							walk(ca, depth+1)
						}
					case *ssa.BinOp:
						walk(x.X, depth+1)
						walk(x.Y, depth+1)
					case *ssa.Phi:
						for _, e := range x.Edges {
							walk(e, depth+1)
						}
					case *ssa.Convert:
						walk(x.X, depth+1)
					}
				}
				walk(a, 0)
			}
			if len(srcs) == 0 {
				continue
			}
			n++
			key := fmt.Sprintf("%s->%s#%d/discarded-error", p.FuncName(g), sc.label, sc.ord)
			verdict, detail := "", ""
			for _, s := range srcs {
				tk := p.FuncName(g) + "/" + s.par.Name()
				if why, ok := discardedErrorInputsValid[tk]; ok {
					if verdict == "" {
						verdict, detail = "ok", "the position comes from "+s.par.Name()+": "+why
					}
					continue
				}
				subject := func(v ssa.Value) bool { return v == s.elem }
				if name, ok := existenceGuardFor(p, sc.call.Block(), subject); ok {
					if verdict == "" || verdict == "ok" {
						verdict, detail = "ok", "the position from "+s.par.Name()+" is tested with "+name+" against the leaf count first"
					}
					continue
				}
				verdict, detail = "bad", "the error of "+sc.label+" is discarded although its position comes from the list "+s.par.Name()+", which also holds positions that do not exist in this forest (leaves the block itself added): the call then fails, returns zero values and the position is treated as part of the first tree"
				break
			}
			if verdict == "bad" {
				r.Violate(rule, key, posOf(p, sc.call), detail, "in "+p.FuncName(g))
			} else {
				r.Discharge(rule, key, posOf(p, sc.call), detail, true)
			}
		}
	}
	r.Floor(rule, "position calls with a discarded error in the tracker", n, 2)
}

// existenceGuardFor: a guard in force at b derives from a reviewed existence
// test that receives the leaf count (a parameter or field named numLeaves /
// NumLeaves, possibly minus the additions) and the subject position.
func existenceGuardFor(p *Program, b *ssa.BasicBlock, subject func(ssa.Value) bool) (string, bool) {
	isTest := func(x ssa.Value) bool {
		c, ok := x.(*ssa.Call)
		if !ok {
			return false
		}
		sc := c.Common().StaticCallee()
		if sc == nil || !p.owns(sc) || !existenceTests[sc.Name()] {
			return false
		}
		hasCount, hasSubject := false, false
		for _, a := range c.Common().Args {
			if flowsFrom(a, subject, 0, map[ssa.Value]bool{}) {
				hasSubject = true
				continue
			}
			if flowsFrom(a, func(y ssa.Value) bool {
				if _, f, ok := fieldRead(y); ok && f == "NumLeaves" {
					return true
				}
				par, ok := y.(*ssa.Parameter)
				return ok && strings.EqualFold(par.Name(), "numLeaves")
			}, 0, map[ssa.Value]bool{}) {
				hasCount = true
			}
		}
		return hasCount && hasSubject
	}
	for _, gd := range guardsAt(b) {
		c := gd.Cond
		truth := gd.Truth
		for {
			u, ok := c.(*ssa.UnOp)
			if !ok || u.Op != token.NOT {
				break
			}
			c, truth = u.X, !truth
		}
		if isTest(c) && truth {
			return c.(*ssa.Call).Common().StaticCallee().Name(), true
		}
	}
	return "", false
}

// ---------------------------------------------------------------------------
// LEAF-COUNT-MONOTONE (R01f / R11i). The leaf count is the number of leaves
// ever added: positions, PrevNumLeaves in the update data and the agreement of
// the three implementations all rest on it. While a block is applied, every
// store into a NumLeaves field must therefore be an increment of the value
// read from that same field (n+1, n+len(adds)); a reset - "start over from a
// blank forest once everything was deleted" - breaks all three.

func checkLeafCountMonotone(p *Program, r *Report, rule string, entryNames []string) {
	n := 0
	for _, en := range entryNames {
		e := p.Func(en)
		if e == nil {
			r.MissingAnchor(rule, en, "block-application entry not found")
			continue
		}
		reach := p.StaticReach(e)
		reach[e] = true
		stores := 0
		var bad ssa.Instruction
		for _, g := range sortedFuncs(p, reach) {
			if g.Blocks == nil || !p.owns(g) {
				continue
			}
			for _, b := range g.Blocks {
				for _, in := range b.Instrs {
					st, ok := in.(*ssa.Store)
					if !ok {
						continue
					}
					fa, ok := st.Addr.(*ssa.FieldAddr)
					if !ok || fieldName(fa.X.Type(), fa.Field) != "NumLeaves" {
						continue
					}
					stores++
					inc := false
					if bo, ok := st.Val.(*ssa.BinOp); ok && bo.Op == token.ADD {
						for _, side := range []ssa.Value{bo.X, bo.Y} {
							if u, ok := side.(*ssa.UnOp); ok {
								if fa2, ok := u.X.(*ssa.FieldAddr); ok && fa2.Field == fa.Field && fa2.X == fa.X {
									inc = true
								}
							}
						}
					}
					if !inc && bad == nil {
						bad = in
					}
				}
			}
		}
		n++
		key := en + "/leaf-count"
		switch {
		case bad != nil:
			r.Violate(rule, key, posOf(p, bad), "while a block is applied the leaf count is stored with a value that is not an increment of itself (in "+p.FuncName(bad.Parent())+"): the count of leaves ever added is lost, and with it every later position, PrevNumLeaves and the agreement with the other implementations", "reached from "+en)
		case stores == 0:
			r.Undecided(rule, key, p.Pos(e.Pos()), "no store into the leaf count found under this entry")
		default:
			r.Discharge(rule, key, p.Pos(e.Pos()), fmt.Sprintf("all %d stores into the leaf count are increments of its own value", stores), true)
		}
	}
	r.Floor(rule, "block-application entries", n, len(entryNames))
}

// ---------------------------------------------------------------------------
// GROW-BEFORE-STORE (R01g). Positions above row 0 depend on the allocated
// height. In the single-leaf insertion of the map forest the growth step (the
// call that may store TotalRows) must come before every write to the node
// store and the leaf index: a leaf written first is relocated by the growth
// step as if it were an interior node of the old layout.

func checkGrowBeforeStore(p *Program, r *Report, rule string) {
	grow := map[*ssa.Function]bool{}
	for _, f := range p.Funcs {
		if f.Parent() != nil || f.Signature.Recv() == nil || !p.localNamed(f.Signature.Recv().Type(), "MapPollard") {
			continue
		}
		if rd, _ := hasStreamParam(f.Signature); rd {
			continue
		}
		for _, b := range f.Blocks {
			for _, in := range b.Instrs {
				if _, ok := receiverFieldStore(f, in, "TotalRows"); ok {
					grow[f] = true
				}
			}
		}
	}
	n := 0
	for _, g := range sortedFuncs(p, p.StaticReach(p.Func("(*MapPollard).Modify"))) {
		if g == nil || g.Blocks == nil || grow[g] {
			continue
		}
		var growCalls []*ssa.Call
		for _, sc := range callsIn(p, g) {
			if callee := sc.call.Common().StaticCallee(); callee != nil && grow[callee] {
				growCalls = append(growCalls, sc.call)
			}
		}
		if len(growCalls) == 0 {
			continue
		}
		gc := growCalls[0]
		n++
		key := p.FuncName(g) + "/grow-before-store"
		var bad ssa.Instruction
		for _, b := range g.Blocks {
			for _, in := range b.Instrs {
				kind, method, _ := storeCall(p, in)
				if kind == "" || method != "Put" {
					continue
				}
				before := (gc.Block() == b && instrIndex(gc) < instrIndex(in)) || (gc.Block() != b && gc.Block().Dominates(b))
				if !before && bad == nil {
					bad = in
				}
			}
		}
		if bad != nil {
			r.Violate(rule, key, posOf(p, bad), "the node store / leaf index is written before the growth step of this insertion has run: the entry is placed in the old layout and then relocated by the growth step as if it were an interior node", "in "+p.FuncName(g))
		} else {
			r.Discharge(rule, key, posOf(p, gc), "the growth step dominates every write to the node store and the leaf index in this function", true)
		}
	}
	r.Floor(rule, "functions calling the growth step", n, 1)
}

// ---------------------------------------------------------------------------
// FLAG-PER-POSITION (R09g). The keep flag stored with a node decides what the
// partial forest holds on to. Inside a loop over positions it has to be
// computed for each position: a flag that is a loop-carried variable (set for
// one position and never reset) marks every later position too.

func checkFlagPerPosition(p *Program, r *Report, rule string) {
	n := 0
	for _, g := range p.Funcs {
		if g.Blocks == nil || g.Signature.Recv() == nil || !p.localNamed(g.Signature.Recv().Type(), "MapPollard") || g.Parent() != nil {
			continue
		}
		ord := 0
		for _, b := range g.Blocks {
			for _, in := range b.Instrs {
				kind, method, cc := storeCall(p, in)
				if kind != "nodes" || method != "Put" || len(cc.Args) < 2 {
					continue
				}
				h := innermostLoopHeader(b)
				if h == nil {
					continue
				}
				// the Remember field of the stored value
				flag := leafFieldValue(cc.Args[1], "Remember")
				if flag == nil {
					continue
				}
				ord++
				n++
				key := fmt.Sprintf("%s/put#%d/flag", p.FuncName(g), ord)
				var carried *ssa.Phi
				flowsFrom(flag, func(v ssa.Value) bool {
					ph, ok := v.(*ssa.Phi)
					if !ok {
						return false
					}
					// a phi in the header of a loop that contains the Put, fed from inside that loop
					for hh := h; hh != nil; {
						if ph.Block() == hh {
							for i, pred := range hh.Preds {
								if loopContains(hh, pred) && i < len(ph.Edges) {
									if c, isConst := ph.Edges[i].(*ssa.Const); isConst && c.Value != nil {
										continue
									}
									carried = ph
									return true
								}
							}
						}
						// enclosing loop
						var outer *ssa.BasicBlock
						for _, cand := range g.Blocks {
							if cand != hh && len(latches(cand)) > 0 && loopContains(cand, hh) && (outer == nil || loopContains(outer, cand)) {
								outer = cand
							}
						}
						hh = outer
					}
					return false
				}, 0, map[ssa.Value]bool{})
				if carried != nil {
					r.Violate(rule, key, posOf(p, in), "the keep flag stored with this node is a loop-carried variable ("+carried.Comment+"): once set for one position it stays set for every later position of the loop, and pruning trusts it", "in "+p.FuncName(g))
				} else {
					r.Discharge(rule, key, posOf(p, in), "the keep flag is computed within the iteration that stores the node", true)
				}
			}
		}
	}
	r.Floor(rule, "node-store writes inside loops of the map forest", n, 3)
}

// leafFieldValue: the value stored into the named field of the struct value v
// (a load of a composite-literal cell), or nil.
func leafFieldValue(v ssa.Value, field string) ssa.Value {
	u, ok := v.(*ssa.UnOp)
	if !ok {
		return nil
	}
	al, ok := u.X.(*ssa.Alloc)
	if !ok || al.Referrers() == nil {
		return nil
	}
	var out ssa.Value
	for _, ref := range *al.Referrers() {
		fa, ok := ref.(*ssa.FieldAddr)
		if !ok || fieldName(fa.X.Type(), fa.Field) != field || fa.Referrers() == nil {
			continue
		}
		for _, r2 := range *fa.Referrers() {
			if st, ok := r2.(*ssa.Store); ok && st.Addr == fa {
				out = st.Val
			}
		}
	}
	return out
}

// ---------------------------------------------------------------------------
// FULL-KEEPS-CREATED (R02f). A full pointer forest must be able to prove every
// live leaf, so every node it creates while applying a block has to be marked
// to be kept when the forest is full. (The flag is not serialized: a node
// that is only kept because its twin happened to be remembered is lost after
// a restore.)

func checkFullKeepsCreated(p *Program, r *Report, rule string) {
	e := p.Func("(*Pollard).Modify")
	if e == nil {
		r.MissingAnchor(rule, "(*Pollard).Modify", "block application of the pointer forest not found")
		return
	}
	reach := p.StaticReach(e)
	reach[e] = true
	n := 0
	for _, g := range sortedFuncs(p, reach) {
		if g.Blocks == nil || g.Signature.Recv() == nil || !p.localNamed(g.Signature.Recv().Type(), "Pollard") {
			continue
		}
		ord := 0
		for _, b := range g.Blocks {
			for _, in := range b.Instrs {
				al, ok := in.(*ssa.Alloc)
				if !ok || !al.Heap || !p.localNamed(al.Type().(*types.Pointer).Elem(), "polNode") {
					continue
				}
				ord++
				n++
				key := fmt.Sprintf("%s/new-node#%d", p.FuncName(g), ord)
				ok2 := false
				for _, ref := range *al.Referrers() {
					fa, isFA := ref.(*ssa.FieldAddr)
					if !isFA || fieldName(fa.X.Type(), fa.Field) != "remember" || fa.Referrers() == nil {
						continue
					}
					for _, r2 := range *fa.Referrers() {
						st, isSt := r2.(*ssa.Store)
						if !isSt || st.Addr != fa {
							continue
						}
						fromFull := func(v ssa.Value) bool {
							return dependsOn(v, func(x ssa.Value) bool {
								_, f, ok := fieldRead(x)
								return ok && f == "full"
							})
						}
						if fromFull(st.Val) {
							ok2 = true
						}
						if c, isConst := st.Val.(*ssa.Const); isConst && c.Value != nil && c.Value.String() == "true" {
							for _, gd := range guardsAt(st.Block()) {
								if gd.Truth && fromFull(gd.Cond) {
									ok2 = true
								}
							}
						}
					}
				}
				if ok2 {
					r.Discharge(rule, key, posOf(p, al), "the created node is marked to be kept when the forest is full", true)
				} else {
					r.Violate(rule, key, posOf(p, al), "a node created while a block is applied is not marked to be kept when the forest is full: it survives only while a remembered twin protects it, and is pruned - with the leaves below it unprovable - once that protection is gone (for instance after a restore, which does not carry the flags)", "in "+p.FuncName(g))
				}
			}
		}
	}
	r.Floor(rule, "nodes created under the pointer forest's Modify", n, 2)
}

// ---------------------------------------------------------------------------
// PRUNE-IN-PAIRS (R02g). A proof needs both children of a node or neither.
// The function that forgets the nieces of a node must decide for the pair:
// the condition under which one niece is dropped has to depend on the keep
// flags of both.

func checkPruneInPairs(p *Program, r *Report, rule string) {
	fn := p.Func("(*polNode).prune")
	if fn == nil {
		r.MissingAnchor(rule, "(*polNode).prune", "niece pruning not found")
		return
	}
	flagOf := func(v ssa.Value) string {
		// load of <niece>.remember
		u, ok := v.(*ssa.UnOp)
		if !ok {
			return ""
		}
		fa, ok := u.X.(*ssa.FieldAddr)
		if !ok || fieldName(fa.X.Type(), fa.Field) != "remember" {
			return ""
		}
		_, nf, ok := fieldRead(fa.X)
		if !ok {
			return ""
		}
		return nf
	}
	n := 0
	for _, b := range fn.Blocks {
		for _, in := range b.Instrs {
			st, ok := in.(*ssa.Store)
			if !ok {
				continue
			}
			fa, ok := st.Addr.(*ssa.FieldAddr)
			if !ok || !isNilConst(st.Val) {
				continue
			}
			niece := fieldName(fa.X.Type(), fa.Field)
			if niece != "lNiece" && niece != "rNiece" {
				continue
			}
			n++
			key := "(*polNode).prune/drop-" + niece
			seen := map[string]bool{}
			visited := map[ssa.Value]bool{}
			var walk func(v ssa.Value, depth int)
			walk = func(v ssa.Value, depth int) {
				if v == nil || visited[v] || depth > 12 {
					return
				}
				visited[v] = true
				if f := flagOf(v); f != "" {
					seen[f] = true
					return
				}
				switch x := v.(type) {
				case *ssa.Phi:
					// a short-circuit || / && : the value also depends on the branch conditions that select the edge
					for i, e := range x.Edges {
						walk(e, depth+1)
						if i < len(x.Block().Preds) {
							pred := x.Block().Preds[i]
							if iff, ok := pred.Instrs[len(pred.Instrs)-1].(*ssa.If); ok {
								walk(iff.Cond, depth+1)
							}
						}
					}
				case *ssa.UnOp:
					walk(x.X, depth+1)
				case *ssa.BinOp:
					walk(x.X, depth+1)
					walk(x.Y, depth+1)
				}
			}
			for _, gd := range guardsAt(b) {
				walk(gd.Cond, 0)
			}
			if seen["lNiece"] && seen["rNiece"] {
				r.Discharge(rule, key, posOf(p, in), "the niece is dropped under a condition on the keep flags of both nieces", true)
			} else {
				r.Violate(rule, key, posOf(p, in), "the niece is dropped under a condition that does not look at the keep flag of its sibling: a remembered leaf loses the sibling its proof needs (or is itself cut out next to an unflagged twin)", "in (*polNode).prune")
			}
		}
	}
	r.Floor(rule, "niece drops in prune", n, 2)
}

// ---------------------------------------------------------------------------
// MERGE-WALK-SORTED (R07h). A list that is consumed through a cursor which
// only moves forward, by comparing its current element with the counter of a
// loop (`i == xs[c]` ... `i > xs[c]`), is walked like one side of a merge: every
// element smaller than one already passed is never seen again. Such a list
// has to be sorted. When it is a parameter that reaches the walk in the
// caller's order from an exported entry - without a sorting copy or an
// in-place sort on the way - an unsorted argument silently loses elements.

func checkMergeWalkSorted(p *Program, r *Report, rule string, entryName string) {
	e := p.Func(entryName)
	if e == nil {
		r.MissingAnchor(rule, entryName, "entry not found")
		return
	}
	reach := p.StaticReach(e)
	reach[e] = true
	n := 0
	for _, g := range sortedFuncs(p, reach) {
		if g.Blocks == nil || !p.owns(g) {
			continue
		}
		done := map[ssa.Value]bool{}
		for _, b := range g.Blocks {
			for _, in := range b.Instrs {
				ia, ok := in.(*ssa.IndexAddr)
				if !ok {
					continue
				}
				var par *ssa.Parameter
				var sortedCopy *ssa.Call
				switch x := ia.X.(type) {
				case *ssa.Parameter:
					par = x
				case *ssa.Call:
					if sc := x.Common().StaticCallee(); sc != nil && strings.HasPrefix(sc.Name(), "copySorted") {
						sortedCopy = x
					}
				}
				if (par == nil && sortedCopy == nil) || done[ia.X] {
					continue
				}
				if _, isSlice := ia.X.Type().Underlying().(*types.Slice); !isSlice {
					continue
				}
				// the index is a forward-only cursor: phi(0, c+1...) and not the counter of a loop over this very slice
				cur, ok := ia.Index.(*ssa.Phi)
				if !ok {
					continue
				}
				forward := true
				for _, edge := range cur.Edges {
					switch x := edge.(type) {
					case *ssa.Const:
					case *ssa.BinOp:
						if x.Op != token.ADD {
							forward = false
						}
					case *ssa.Phi:
					default:
						forward = false
					}
				}
				if !forward {
					continue
				}
				// the element is compared with a loop counter both for equality and for order
				h := innermostLoopHeader(b)
				if h == nil {
					continue
				}
				hasEq, hasOrd := false, false
				for _, bb := range g.Blocks {
					if !loopContains(h, bb) {
						continue
					}
					for _, in2 := range bb.Instrs {
						bo, ok := in2.(*ssa.BinOp)
						if !ok {
							continue
						}
						fromElem := func(v ssa.Value) bool {
							return flowsFrom(v, func(x ssa.Value) bool {
								u, ok := x.(*ssa.UnOp)
								if !ok {
									return false
								}
								ia2, ok := u.X.(*ssa.IndexAddr)
								return ok && ia2.X == ia.X && ia2.Index == ia.Index
							}, 0, map[ssa.Value]bool{})
						}
						fromCounter := func(v ssa.Value) bool {
							return flowsFrom(v, func(x ssa.Value) bool {
								ph, ok := x.(*ssa.Phi)
								return ok && ph != cur && ph.Block() == h
							}, 0, map[ssa.Value]bool{})
						}
						if (fromElem(bo.X) && fromCounter(bo.Y)) || (fromElem(bo.Y) && fromCounter(bo.X)) {
							switch bo.Op {
							case token.EQL, token.NEQ:
								hasEq = true
							case token.LSS, token.GTR, token.LEQ, token.GEQ:
								hasOrd = true
							}
						}
					}
				}
				if !hasEq || !hasOrd {
					continue
				}
				done[ia.X] = true
				n++
				if sortedCopy != nil {
					name := "list"
					if len(sortedCopy.Common().Args) > 0 {
						name = sortedCopy.Common().Args[0].Name()
					}
					k2 := fmt.Sprintf("%s/%s/merge-walk", p.FuncName(g), name)
					// the comparator has to be a recognised ascending three-way comparison
					var cmpFn *ssa.Function
					if args := sortedCopy.Common().Args; len(args) > 1 {
						switch c := args[len(args)-1].(type) {
						case *ssa.Function:
							cmpFn = c
						case *ssa.MakeClosure:
							cmpFn, _ = c.Fn.(*ssa.Function)
						}
					}
					if cmpFn != nil && ascendingCmp(cmpFn) {
						r.Discharge(rule, k2, posOf(p, ia), "the list walked with a forward-only cursor is a sorting copy (ascending three-way comparator) made in this function", true)
					} else {
						r.Violate(rule, k2, posOf(p, sortedCopy), "the list walked with a forward-only cursor is a copy sorted with a comparator that is not a plain ascending three-way comparison (a<b: -1, a>b: 1, else 0) - for instance int(a-b) on unsigned values wraps around and does not order them", "in "+p.FuncName(g))
					}
					continue
				}
				key := fmt.Sprintf("%s/%s/merge-walk", p.FuncName(g), par.Name())
				if why, ok := sortedOnTheWay(p, e, g, par, b, 0); ok {
					r.Discharge(rule, key, posOf(p, ia), "the list walked with a forward-only cursor is sorted first: "+why, true)
				} else {
					r.Violate(rule, key, posOf(p, ia), "the list "+par.Name()+" is walked with a forward-only cursor against the loop counter, which is right only for a sorted list, but it reaches this walk in the caller's order ("+why+"): an unsorted argument silently loses every element smaller than one already passed", "in "+p.FuncName(g)+", reached from "+entryName)
				}
			}
		}
	}
	r.Floor(rule, "forward-only cursor walks over a list parameter", n, 1)
}

// sortedOnTheWay: parameter par of g, as used in block b, is sorted: in g
// before b (an in-place sort that dominates b), or at every static call site
// of g the argument is a sorting copy or a parameter that is itself sorted on
// the way from the entry.
func sortedOnTheWay(p *Program, entry, g *ssa.Function, par *ssa.Parameter, b *ssa.BasicBlock, depth int) (string, bool) {
	isSortCall := func(c *ssa.Call, v ssa.Value) bool {
		f := calleeFunc(c.Common())
		if f == nil {
			return false
		}
		name := f.Name()
		pkg := ""
		if f.Pkg() != nil {
			pkg = f.Pkg().Path()
		}
		inPlace := (pkg == "sort" && (name == "Slice" || name == "SliceStable" || name == "Sort")) ||
			(strings.HasSuffix(pkg, "slices") && (name == "Sort" || name == "SortFunc" || name == "SortStableFunc"))
		if !inPlace {
			return false
		}
		for _, a := range c.Common().Args {
			if flowsFrom(a, func(x ssa.Value) bool { return x == v }, 0, map[ssa.Value]bool{}) {
				return true
			}
		}
		return false
	}
	if b != nil {
		for _, bb := range g.Blocks {
			for _, in := range bb.Instrs {
				if c, ok := in.(*ssa.Call); ok && isSortCall(c, par) && (bb == b || bb.Dominates(b)) {
					return "sorted in place in " + p.FuncName(g), true
				}
			}
		}
	}
	if g == entry || depth > 4 {
		return "it is the entry's parameter " + par.Name(), false
	}
	idx := -1
	for i, q := range g.Params {
		if q == par {
			idx = i
		}
	}
	sites := 0
	for _, caller := range sortedFuncs(p, p.StaticReach(entry)) {
		_ = caller
	}
	callers := p.StaticReach(entry)
	callers[entry] = true
	for _, caller := range sortedFuncs(p, callers) {
		for _, sc := range callsIn(p, caller) {
			if sc.call.Common().StaticCallee() != g {
				continue
			}
			sites++
			args := sc.call.Common().Args
			if idx >= len(args) {
				return "unresolved call site", false
			}
			a := args[idx]
			if c, ok := a.(*ssa.Call); ok {
				if sc2 := c.Common().StaticCallee(); sc2 != nil && strings.HasPrefix(sc2.Name(), "copySorted") {
					continue
				}
				return "it is the result of " + calleeLabel(p, c.Common()), false
			}
			if q, ok := a.(*ssa.Parameter); ok {
				if why, ok := sortedOnTheWay(p, entry, caller, q, sc.call.Block(), depth+1); !ok {
					return why, false
				}
				continue
			}
			return "it is " + a.Name() + " at " + p.Pos(sc.call.Pos()), false
		}
	}
	if sites == 0 {
		return "no static call site", false
	}
	return "a sorting copy or an in-place sort at every call site", true
}

// ---------------------------------------------------------------------------
// HISTORY-READ-ONLY (R15h). The tracker records, per block, the deletion
// targets it was given. Generating a schedule reverts positions block by
// block in scratch lists; the recorded lists themselves have to stay as they
// were, or a second request to the same tracker answers from a damaged
// history. A recorded list (an element of a [][]uint64 field of the receiver)
// and everything that may alias it - sub-slices, phi merges, the parameter
// of a callee it is passed to - must never be written through: no element
// store, no append onto it, no in-place sort / delete / insert, no copy into it.

func checkHistoryReadOnly(p *Program, r *Report, rule string) {
	e := p.Func("(*CachingScheduleTracker).GenerateCachingSchedule")
	if e == nil {
		r.MissingAnchor(rule, "(*CachingScheduleTracker).GenerateCachingSchedule", "schedule generator not found")
		return
	}
	reach := p.StaticReach(e)
	reach[e] = true
	type item struct {
		fn *ssa.Function
		v  ssa.Value
	}
	seen := map[item]bool{}
	var work []item
	nSrc := 0
	for _, g := range sortedFuncs(p, reach) {
		if g.Blocks == nil || g.Signature.Recv() == nil || !p.localNamed(g.Signature.Recv().Type(), "CachingScheduleTracker") {
			continue
		}
		for _, b := range g.Blocks {
			for _, in := range b.Instrs {
				u, ok := in.(*ssa.UnOp)
				if !ok || u.Op != token.MUL {
					continue
				}
				ia, ok := u.X.(*ssa.IndexAddr)
				if !ok {
					continue
				}
				_, f, isField := fieldRead(ia.X)
				if !isField {
					continue
				}
				outer, ok := ia.X.Type().Underlying().(*types.Slice)
				if !ok {
					continue
				}
				if inner, ok := outer.Elem().Underlying().(*types.Slice); !ok || !isUint64(inner.Elem()) {
					continue
				}
				_ = f
				nSrc++
				work = append(work, item{g, u})
			}
		}
	}
	var bad ssa.Instruction
	badWhy := ""
	mutators := func(c *ssa.CallCommon) (string, int) {
		f := calleeFunc(c)
		if f == nil || f.Pkg() == nil {
			if bn := builtinName(c); bn == "append" {
				return "append onto", 0
			} else if bn == "copy" {
				return "copy into", 0
			}
			return "", -1
		}
		pkg, name := f.Pkg().Path(), f.Name()
		switch {
		case pkg == "sort" && (name == "Slice" || name == "SliceStable" || name == "Sort" || name == "Stable"):
			return "in-place sort of", 0
		case strings.HasSuffix(pkg, "slices") && (strings.HasPrefix(name, "Sort") || name == "Delete" || name == "Insert" || name == "Reverse" || name == "Compact"):
			return "slices." + name + " on", 0
		}
		return "", -1
	}
	for len(work) > 0 {
		it := work[len(work)-1]
		work = work[:len(work)-1]
		if seen[it] || it.v.Referrers() == nil {
			continue
		}
		seen[it] = true
		for _, ref := range *it.v.Referrers() {
			switch x := ref.(type) {
			case *ssa.Slice:
				if x.X == it.v {
					work = append(work, item{it.fn, x})
				}
			case *ssa.Phi:
				work = append(work, item{it.fn, x})
			case *ssa.IndexAddr:
				if x.X != it.v || x.Referrers() == nil {
					continue
				}
				for _, r2 := range *x.Referrers() {
					if st, ok := r2.(*ssa.Store); ok && st.Addr == x && bad == nil {
						bad, badWhy = st, "an element of a recorded list is overwritten"
					}
				}
			case *ssa.Store:
				// stored into a local cell or a struct: follow loads of that cell
				if x.Val == it.v {
					if al, ok := x.Addr.(*ssa.Alloc); ok && al.Referrers() != nil {
						for _, r2 := range *al.Referrers() {
							if u, ok := r2.(*ssa.UnOp); ok && u.Op == token.MUL {
								work = append(work, item{it.fn, u})
							}
						}
					}
				}
			case *ssa.MakeInterface, *ssa.ChangeType:
				work = append(work, item{it.fn, x.(ssa.Value)})
			case ssa.CallInstruction:
				cc := x.Common()
				if builtinName(cc) == "append" && len(cc.Args) > 0 && cc.Args[0] != it.v {
					continue // the recorded list is only the source of the appended elements
				}
				if why, idx := mutators(cc); idx >= 0 {
					if idx < len(cc.Args) && cc.Args[idx] == it.v && bad == nil {
						bad, badWhy = ref, why+" a recorded list"
					}
					continue
				}
				if sc := cc.StaticCallee(); sc != nil && p.owns(sc) && sc.Blocks != nil {
					for i, a := range cc.Args {
						if a == it.v && i < len(sc.Params) {
							work = append(work, item{sc, sc.Params[i]})
						}
					}
					// a callee that returns (a slice of) its parameter hands the alias back
					if pi, _, ok := returnsUpdatedParam(sc); ok && pi < len(cc.Args) && cc.Args[pi] == it.v {
						if v, ok := ref.(ssa.Value); ok {
							work = append(work, item{it.fn, v})
							if v.Referrers() != nil {
								for _, r2 := range *v.Referrers() {
									if ex, ok := r2.(*ssa.Extract); ok {
										work = append(work, item{it.fn, ex})
									}
								}
							}
						}
					}
				}
			}
		}
	}
	key := "(*CachingScheduleTracker).GenerateCachingSchedule/recorded-lists"
	switch {
	case nSrc == 0:
		r.Undecided(rule, key, p.Pos(e.Pos()), "no read of a recorded list found under the schedule generator")
	case bad != nil:
		r.Violate(rule, key, posOf(p, bad), badWhy+" ("+p.FuncName(bad.Parent())+"): generating a schedule damages the tracker's recorded history, so the next request to the same tracker is answered from wrong data", "reached from GenerateCachingSchedule")
	default:
		r.Discharge(rule, key, p.Pos(e.Pos()), fmt.Sprintf("no write reaches a recorded list or anything that may alias it (%d reads of recorded lists, %d aliases followed)", nSrc, len(seen)), true)
	}
}

// ---------------------------------------------------------------------------
// LOCK-NEVER-REPLACED (R12h). A critical section protects the forest only if
// everybody locks the same mutex. Overwriting the struct that carries the
// lock as a whole (`*m = NewMapPollard(...)`), or re-assigning its lock field,
// swaps the mutex under the goroutines that hold or wait for the old one:
// the deferred Unlock releases the old mutex while new callers lock the new,
// free one and run inside the writer's critical section.

func checkLockNeverReplaced(p *Program, r *Report, rule string) {
	carriesLock := func(t types.Type) (bool, int) {
		st, ok := t.Underlying().(*types.Struct)
		if !ok {
			return false, -1
		}
		for i := 0; i < st.NumFields(); i++ {
			ft := st.Field(i).Type()
			if pt, ok := ft.Underlying().(*types.Pointer); ok {
				ft = pt.Elem()
			}
			if nt := namedOf(ft); nt != nil && nt.Obj().Pkg() != nil && nt.Obj().Pkg().Path() == "sync" && (nt.Obj().Name() == "RWMutex" || nt.Obj().Name() == "Mutex") {
				return true, i
			}
		}
		return false, -1
	}
	n := 0
	var bad ssa.Instruction
	why := ""
	for _, fn := range p.Funcs {
		if fn.Blocks == nil || !p.owns(fn) {
			continue
		}
		for _, b := range fn.Blocks {
			for _, in := range b.Instrs {
				st, ok := in.(*ssa.Store)
				if !ok {
					continue
				}
				pt, ok := st.Addr.Type().Underlying().(*types.Pointer)
				if !ok {
					continue
				}
				// whole-struct store through a pointer that is not a fresh local
				if has, _ := carriesLock(pt.Elem()); has {
					if nt := namedOf(pt.Elem()); nt != nil && nt.Obj().Pkg() == p.Types {
						n++
						if _, fresh := st.Addr.(*ssa.Alloc); !fresh && bad == nil {
							bad, why = in, "the whole "+nt.Obj().Name()+" is overwritten through a pointer to a live instance"
						}
					}
					continue
				}
				// store into the lock field of a live instance
				if fa, ok := st.Addr.(*ssa.FieldAddr); ok {
					if has, idx := carriesLock(deref(fa.X.Type())); has && idx == fa.Field {
						n++
						if _, fresh := fa.X.(*ssa.Alloc); !fresh && bad == nil {
							bad, why = in, "the lock field is re-assigned on a live instance"
						}
					}
				}
			}
		}
	}
	key := "lock-carrier/never-replaced"
	if bad != nil {
		r.Violate(rule, key, posOf(p, bad), why+" (in "+p.FuncName(bad.Parent())+"): goroutines holding or waiting for the old mutex and new callers locking the new one no longer exclude each other, and a deferred Unlock releases a mutex nobody else uses", "in "+p.FuncName(bad.Parent()))
	} else {
		r.Discharge(rule, key, "-", fmt.Sprintf("the struct carrying the lock is only ever initialised as a fresh value (%d initialising stores); no live instance is overwritten and its lock field is never re-assigned", n), true)
	}
}

// ---------------------------------------------------------------------------
// CLAIM-CURSOR-READS (R03j). The core walks the claimed (position, hash) pairs
// with cursors. Every claimed hash has to take part in the computation: a
// cursor over a list of hashes may only advance where the hash at the cursor
// has been read in that iteration. Advancing past an entry unread ("it is the
// same node as the one just calculated") drops a claim without comparing it
// with anything - a forged hash for a nested target is accepted.

func checkClaimCursorReads(p *Program, r *Report, rule string, a *verifyAnchors) {
	if a.core == nil {
		r.MissingAnchor(rule, "calculateHashes", "hashing core not found")
		return
	}
	core := a.core
	// cursors: loop-header phis used as the index of a load from a []Hash
	reads := map[*ssa.Phi][]*ssa.IndexAddr{}
	for _, b := range core.Blocks {
		for _, in := range b.Instrs {
			ia, ok := in.(*ssa.IndexAddr)
			if !ok || !isHashSlice(ia.X.Type()) {
				continue
			}
			ph, ok := ia.Index.(*ssa.Phi)
			if !ok || len(latches(ph.Block())) == 0 {
				continue
			}
			loaded := false
			if ia.Referrers() != nil {
				for _, ref := range *ia.Referrers() {
					if u, ok := ref.(*ssa.UnOp); ok && u.Op == token.MUL {
						loaded = true
					}
				}
			}
			if loaded {
				reads[ph] = append(reads[ph], ia)
			}
		}
	}
	n := 0
	var phis []*ssa.Phi
	for ph := range reads {
		phis = append(phis, ph)
	}
	sort.Slice(phis, func(i, j int) bool { return phis[i].Pos() < phis[j].Pos() })
	for _, ph := range phis {
		if ph.Referrers() == nil {
			continue
		}
		ord := 0
		for _, ref := range *ph.Referrers() {
			inc, ok := ref.(*ssa.BinOp)
			if !ok || inc.Op != token.ADD || inc.X != ssa.Value(ph) {
				continue
			}
			if c, ok := inc.Y.(*ssa.Const); !ok || c.Value == nil || c.Int64() != 1 {
				continue
			}
			ord++
			n++
			key := fmt.Sprintf("%s/cursor:%s/advance#%d", p.FuncName(core), ph.Comment, ord)
			read := false
			for _, ia := range reads[ph] {
				if ia.Block() == inc.Block() || ia.Block().Dominates(inc.Block()) {
					read = true
				}
			}
			if read {
				r.Discharge(rule, key, posOf(p, inc), "the cursor advances only after the hash at the cursor was read in this iteration", true)
			} else {
				r.Violate(rule, key, posOf(p, inc), "the cursor over a list of hashes advances on a path that has not read the hash at the cursor: that entry of the claim takes no part in the computation, so whatever hash it carries is accepted", "in "+p.FuncName(core))
			}
		}
	}
	r.Floor(rule, "advances of hash cursors in the core", n, 3)
}

// ---------------------------------------------------------------------------
// LIMIT-NOT-ALLOCATED (R15i). The memory limit is a bound, not a size: the
// property ranges over limits "from 1 to unbounded". Allocating by it
// (make(..., limit)) makes the largest int - the natural way to say "no
// limit" - die in makeslice, and any large limit allocate what will never be
// used. No allocation under the schedule generator may be sized by a value
// that flows from its integer parameter.

func checkLimitNotAllocated(p *Program, r *Report, rule string) {
	e := p.Func("(*CachingScheduleTracker).GenerateCachingSchedule")
	if e == nil {
		r.MissingAnchor(rule, "(*CachingScheduleTracker).GenerateCachingSchedule", "schedule generator not found")
		return
	}
	var limit ssa.Value
	for _, par := range e.Params[1:] {
		if isIntLike(par.Type()) {
			limit = par
		}
	}
	key := "(*CachingScheduleTracker).GenerateCachingSchedule/limit-sized-allocation"
	if limit == nil {
		r.Undecided(rule, key, p.Pos(e.Pos()), "cannot identify the memory-limit parameter")
		return
	}
	// a size that flows from the limit - unless it is capped on the way: min(limit, n), or a phi
	// that selects between the limit and another value under a comparison of the two
	var fromLimit func(v ssa.Value) bool
	capped := func(v ssa.Value) bool {
		switch x := v.(type) {
		case *ssa.Call:
			if builtinName(x.Common()) == "min" {
				for _, a := range x.Common().Args {
					if !flowsFrom(a, func(y ssa.Value) bool { return y == limit }, 0, map[ssa.Value]bool{}) {
						return true
					}
				}
			}
		case *ssa.Phi:
			var other ssa.Value
			hasLimit := false
			for _, e := range x.Edges {
				if flowsFrom(e, func(y ssa.Value) bool { return y == limit }, 0, map[ssa.Value]bool{}) {
					hasLimit = true
				} else {
					other = e
				}
			}
			if hasLimit && other != nil {
				for _, pred := range x.Block().Preds {
					for _, b := range []*ssa.BasicBlock{pred, pred.Idom()} {
						if b == nil || len(b.Instrs) == 0 {
							continue
						}
						if iff, ok := b.Instrs[len(b.Instrs)-1].(*ssa.If); ok {
							if bo, ok := iff.Cond.(*ssa.BinOp); ok {
								l := flowsFrom(bo.X, func(y ssa.Value) bool { return y == limit }, 0, map[ssa.Value]bool{}) || flowsFrom(bo.Y, func(y ssa.Value) bool { return y == limit }, 0, map[ssa.Value]bool{})
								o := bo.X == other || bo.Y == other || sameValue(bo.X, other) || sameValue(bo.Y, other)
								if l && o {
									return true
								}
							}
						}
					}
				}
			}
		}
		return false
	}
	fromLimit = func(v ssa.Value) bool {
		if v == nil || capped(v) {
			return false
		}
		if cv, ok := v.(*ssa.Convert); ok {
			return fromLimit(cv.X)
		}
		return flowsFrom(v, func(x ssa.Value) bool { return x == limit }, 0, map[ssa.Value]bool{})
	}
	nAlloc := 0
	var bad ssa.Instruction
	for _, b := range e.Blocks {
		for _, in := range b.Instrs {
			switch x := in.(type) {
			case *ssa.MakeSlice:
				nAlloc++
				if (fromLimit(x.Len) || fromLimit(x.Cap)) && bad == nil {
					bad = in
				}
			case *ssa.MakeMap:
				nAlloc++
				if fromLimit(x.Reserve) && bad == nil {
					bad = in
				}
			}
		}
	}
	if bad != nil {
		r.Violate(rule, key, posOf(p, bad), "an allocation is sized by the memory limit: the limit is a bound that may be arbitrarily large (the largest int for 'no limit' panics in makeslice), not the number of elements that will be held", "in GenerateCachingSchedule")
	} else {
		r.Discharge(rule, key, p.Pos(e.Pos()), fmt.Sprintf("none of the %d allocations of the generator is sized by the memory limit", nAlloc), true)
	}
}

// ---------------------------------------------------------------------------
// NO-COUNT-NARROWING (R11j). The number of leaves a block adds or deletes is a
// length; positions and row counts are computed from it with 64-bit
// arithmetic. Converting such a count to a narrower integer type ("the same
// type as the rest of the block bookkeeping") silently truncates blocks with
// 65536 or more additions: roots stay right (the loop still adds every leaf)
// but every position derived from the truncated count is wrong.

func checkNoCountNarrowing(p *Program, r *Report, rule string, entryNames []string) {
	n := 0
	for _, en := range entryNames {
		e := p.Func(en)
		if e == nil {
			r.MissingAnchor(rule, en, "block-application entry not found")
			continue
		}
		reach := p.StaticReach(e)
		reach[e] = true
		nConv := 0
		var bad ssa.Instruction
		for _, g := range sortedFuncs(p, reach) {
			if g.Blocks == nil || !p.owns(g) {
				continue
			}
			for _, b := range g.Blocks {
				for _, in := range b.Instrs {
					cv, ok := in.(*ssa.Convert)
					if !ok {
						continue
					}
					dst, ok1 := cv.Type().Underlying().(*types.Basic)
					src, ok2 := cv.X.Type().Underlying().(*types.Basic)
					if !ok1 || !ok2 || dst.Info()&types.IsInteger == 0 || src.Info()&types.IsInteger == 0 {
						continue
					}
					if basicBits(dst) >= basicBits(src) {
						continue
					}
					nConv++
					fromLen := flowsFrom(cv.X, func(x ssa.Value) bool {
						c, ok := x.(*ssa.Call)
						return ok && builtinName(c.Common()) == "len"
					}, 0, map[ssa.Value]bool{})
					if fromLen && bad == nil {
						bad = in
					}
				}
			}
		}
		n++
		key := en + "/count-narrowing"
		if bad != nil {
			r.Violate(rule, key, posOf(p, bad), "a count taken from a length is converted to a narrower integer type (in "+p.FuncName(bad.Parent())+"): a block with more elements than that type can hold is truncated silently, and every position computed from the count is wrong", "reached from "+en)
		} else {
			r.Discharge(rule, key, p.Pos(e.Pos()), fmt.Sprintf("none of the %d narrowing integer conversions under this entry takes a value derived from a length", nConv), true)
		}
	}
	r.Floor(rule, "block-application entries", n, len(entryNames))
}

// basicBits: the width of a basic integer type in bits (int, uint and uintptr count as 64).
func basicBits(b *types.Basic) int {
	switch b.Kind() {
	case types.Int8, types.Uint8:
		return 8
	case types.Int16, types.Uint16:
		return 16
	case types.Int32, types.Uint32:
		return 32
	default:
		return 64
	}
}

// dependsOn: v depends on a value satisfying pred through data flow or, at a
// phi (the short-circuit forms of || and &&), through the branch conditions
// that select the incoming edge.
func dependsOn(v ssa.Value, pred func(ssa.Value) bool) bool {
	seen := map[ssa.Value]bool{}
	var walk func(v ssa.Value, depth int) bool
	walk = func(v ssa.Value, depth int) bool {
		if v == nil || seen[v] || depth > 14 {
			return false
		}
		seen[v] = true
		if pred(v) {
			return true
		}
		switch x := v.(type) {
		case *ssa.Phi:
			for i, e := range x.Edges {
				if walk(e, depth+1) {
					return true
				}
				if i < len(x.Block().Preds) {
					pb := x.Block().Preds[i]
					if iff, ok := pb.Instrs[len(pb.Instrs)-1].(*ssa.If); ok && walk(iff.Cond, depth+1) {
						return true
					}
				}
			}
		case *ssa.UnOp:
			return walk(x.X, depth+1)
		case *ssa.BinOp:
			return walk(x.X, depth+1) || walk(x.Y, depth+1)
		case *ssa.Convert:
			return walk(x.X, depth+1)
		case *ssa.ChangeType:
			return walk(x.X, depth+1)
		}
		return false
	}
	return walk(v, 0)
}

// emptyPredicate: h compares elements of its parameter par with the reserved
// empty hash and returns the constant true on the equal edge, false on every
// other return.
func emptyPredicate(h *ssa.Function, par *ssa.Parameter) bool {
	found := false
	for _, b := range h.Blocks {
		for _, in := range b.Instrs {
			bo, ok := in.(*ssa.BinOp)
			if !ok || (bo.Op != token.EQL && bo.Op != token.NEQ) || !isHashType(bo.X.Type()) {
				continue
			}
			var other ssa.Value
			switch {
			case isEmptyGlobal(bo.X):
				other = bo.Y
			case isEmptyGlobal(bo.Y):
				other = bo.X
			default:
				continue
			}
			if !derivesDeep(other, func(x ssa.Value) bool { return x == ssa.Value(par) }, 0, map[ssa.Value]bool{}) {
				continue
			}
			if partial, _ := elementOfPartialScan(other); partial {
				continue
			}
			var iff *ssa.If
			for _, ref := range *bo.Referrers() {
				if i, ok := ref.(*ssa.If); ok {
					iff = i
				}
			}
			if iff == nil {
				continue
			}
			eqSucc := iff.Block().Succs[0]
			if bo.Op == token.NEQ {
				eqSucc = iff.Block().Succs[1]
			}
			if len(eqSucc.Instrs) > 0 {
				if ret, ok := eqSucc.Instrs[len(eqSucc.Instrs)-1].(*ssa.Return); ok && len(ret.Results) == 1 {
					if c, ok := ret.Results[0].(*ssa.Const); ok && c.Value != nil && c.Value.String() == "true" {
						found = true
					}
				}
			}
		}
	}
	return found
}

// ---------------------------------------------------------------------------
// STORE-EVERY-RECORD (R13k, R09h). A loop that rebuilds the node store or the
// leaf index from a list of records (the records of a stream, the roots handed
// to the constructor) stores on every iteration: no path from the loop header
// back to the header goes around the store. Skipping "uninteresting" records
// (an empty hash) looks harmless because a missing entry reads as the empty
// hash, but the addition code requires a node at every root position and the
// restored forest must hold what the original held.

// alwaysStores: some Put on the node store / leaf index in fn dominates every return of fn.
func alwaysStores(p *Program, fn *ssa.Function) bool {
	if fn == nil || fn.Blocks == nil {
		return false
	}
	for _, b := range fn.Blocks {
		for _, in := range b.Instrs {
			if k, m, _ := storeCall(p, in); k == "" || m != "Put" {
				continue
			}
			all := true
			for _, ret := range returnsOf(fn) {
				if !b.Dominates(ret.Block()) {
					all = false
				}
			}
			if all {
				return true
			}
		}
	}
	return false
}

func checkStoreEveryRecord(p *Program, r *Report, rule string, names []string, floor int) {
	checkStoreEveryRecordIf(p, r, rule, names, floor, nil)
}

// checkStoreEveryRecordIf: as checkStoreEveryRecord, restricted to the direct stores that keep satisfies.
func checkStoreEveryRecordIf(p *Program, r *Report, rule string, names []string, floor int, keep func(cc *ssa.CallCommon) bool) {
	n := 0
	for _, name := range names {
		fn := p.Func(name)
		if fn == nil {
			r.MissingAnchor(rule, name, name+" not found")
			continue
		}
		idx := 0
		for _, b := range fn.Blocks {
			for _, in := range b.Instrs {
				what := ""
				if k, m, cc := storeCall(p, in); k != "" && m == "Put" {
					if keep == nil || keep(cc) {
						what = k + ".Put"
					}
				} else if c, ok := in.(*ssa.Call); ok && keep == nil {
					if callee := c.Common().StaticCallee(); callee != nil && callee.Pkg == p.SSA && alwaysStores(p, callee) {
						what = p.FuncName(callee)
					}
				}
				if what == "" {
					continue
				}
				h := innermostLoopHeader(b)
				if h == nil {
					continue
				}
				idx++
				n++
				key := fmt.Sprintf("%s/%s#%d/every-iteration", name, what, idx)
				loop := naturalLoop(h)
				isLatch := map[*ssa.BasicBlock]bool{}
				for _, l := range latches(h) {
					isLatch[l] = true
				}
				// can a latch be reached from the header inside the loop without passing the store's block?
				seen := map[*ssa.BasicBlock]bool{b: true}
				work := []*ssa.BasicBlock{h}
				var around *ssa.BasicBlock
				for len(work) > 0 && around == nil {
					x := work[len(work)-1]
					work = work[:len(work)-1]
					if seen[x] || !loop[x] {
						continue
					}
					seen[x] = true
					if isLatch[x] {
						around = x
						break
					}
					work = append(work, x.Succs...)
				}
				if b == h {
					around = nil
				}
				if around != nil {
					pos := posOf(p, in)
					if len(around.Instrs) > 0 {
						pos = posOf(p, around.Instrs[len(around.Instrs)-1])
					}
					r.Violate(rule, key, pos, fmt.Sprintf("an iteration of the loop can go back to the loop header without executing the store at %s: a record (a root, a node, an index entry) that the loop was handed is left out of the rebuilt forest - a missing entry reads as the empty hash, so look-ups agree at first, and the forest then refuses or mis-applies the block that needs the entry", posOf(p, in)), "in "+name)
				} else {
					r.Discharge(rule, key, posOf(p, in), "every path from the loop header back to it passes through this store", true)
				}
			}
		}
	}
	r.Floor(rule, "stores inside record loops", n, floor)
}

// ---------------------------------------------------------------------------
// R03k WORK-LIST-EXHAUSTED. The verification core processes a work list (the
// targets and the parents it computes) in one loop. The loop may stop with an
// error at any point, but it may only fall through to the success return when
// the test that ends it looks at the work list: a cursor of the loop (an
// integer carried around the loop) or the result of a call that is given such
// a cursor. An exit on anything else - "all roots have been calculated" -
// leaves claims in the list that nobody hashed or checked.

func checkWorkListExhausted(p *Program, r *Report, rule string, core *ssa.Function) {
	name := p.FuncName(core)
	// the work loop: the outermost loop containing a call that is handed two hashes (the parent-hash computation)
	var header *ssa.BasicBlock
	for _, b := range core.Blocks {
		for _, in := range b.Instrs {
			c, ok := in.(*ssa.Call)
			if !ok {
				continue
			}
			nh := 0
			for _, a := range c.Common().Args {
				if isHashType(a.Type()) {
					nh++
				}
			}
			if nh < 2 {
				continue
			}
			for h := innermostLoopHeader(b); h != nil; {
				header = h
				// enclosing loop of h, if any
				var outer *ssa.BasicBlock
				for _, cand := range core.Blocks {
					if cand != h && len(latches(cand)) > 0 && naturalLoop(cand)[h] {
						if outer == nil || naturalLoop(outer)[cand] {
							outer = cand
						}
					}
				}
				h = outer
			}
		}
	}
	if header == nil {
		r.Undecided(rule, name+"/work-loop", p.Pos(core.Pos()), "cannot identify the loop of the core that computes parent hashes")
		return
	}
	loop := naturalLoop(header)
	cursor := map[ssa.Value]bool{}
	for _, in := range header.Instrs {
		if ph, ok := in.(*ssa.Phi); ok {
			if bt, ok := ph.Type().Underlying().(*types.Basic); ok && bt.Info()&types.IsInteger != 0 {
				cursor[ph] = true
			}
		}
	}
	pred := func(v ssa.Value) bool {
		if cursor[v] {
			return true
		}
		var call *ssa.Call
		switch x := v.(type) {
		case *ssa.Extract:
			call, _ = x.Tuple.(*ssa.Call)
		case *ssa.Call:
			call = x
		}
		if call == nil || !loop[call.Block()] {
			return false
		}
		for _, a := range call.Common().Args {
			if dependsOn(a, func(y ssa.Value) bool { return cursor[y] }) {
				return true
			}
		}
		return false
	}
	succeeds := func(from *ssa.BasicBlock) bool {
		for b := range reachableBlocks([]*ssa.BasicBlock{from}) {
			if len(b.Instrs) == 0 {
				continue
			}
			if ret, ok := b.Instrs[len(b.Instrs)-1].(*ssa.Return); ok {
				ops := retOperands(ret)
				if ei := errorResultIndex(core.Signature); ei >= 0 && ei < len(ops) && isNilConst(ops[ei]) {
					return true
				}
			}
		}
		return false
	}
	n := 0
	var blocks []*ssa.BasicBlock
	for b := range loop {
		blocks = append(blocks, b)
	}
	sort.Slice(blocks, func(i, j int) bool { return blocks[i].Index < blocks[j].Index })
	for _, b := range blocks {
		iff, ok := b.Instrs[len(b.Instrs)-1].(*ssa.If)
		if !ok {
			continue
		}
		for _, s := range b.Succs {
			if loop[s] || !succeeds(s) {
				continue
			}
			n++
			key := fmt.Sprintf("%s/work-loop/exit#%d", name, n)
			if dependsOn(iff.Cond, pred) {
				r.Discharge(rule, key, posOf(p, iff), "the test that leaves the work loop towards the success return looks at a cursor of the loop (or at the result of a call that is given one)", true)
			} else {
				r.Violate(rule, key, posOf(p, iff), "this test leaves the work loop towards the success return without looking at the work list (no cursor of the loop, no call that is given one): whatever is still in the list - targets with their claimed hashes - is accepted without having been hashed or checked", "in "+name)
			}
		}
	}
	r.Floor(rule, "exits of the core's work loop that reach the success return", n, 1)
}

// ---------------------------------------------------------------------------
// R14j JOINT-PROOF-POSITIONS. The proof of several targets is not the union of
// the proofs of each: a sibling that is a target itself, or that can be
// computed from other targets, is not part of it. The package has a
// single-target helper (positions on the path of one position) next to the
// joint function. The rule: the single-target helper is never called in a loop
// whose results are accumulated into one list.

// singleTargetProofFns: package functions that take scalar positions only (no
// slice parameter), return a []uint64 and climb with the package's Parent in a loop.
func singleTargetProofFns(p *Program) map[*ssa.Function]bool {
	out := map[*ssa.Function]bool{}
	parent := p.Func("Parent")
	if parent == nil {
		return out
	}
	for _, fn := range p.Funcs {
		if fn.Parent() != nil || fn.Signature.Recv() != nil || fn.Blocks == nil {
			continue
		}
		res := fn.Signature.Results()
		if res.Len() != 1 {
			continue
		}
		sl, ok := res.At(0).Type().Underlying().(*types.Slice)
		if !ok || !isUint64(sl.Elem()) {
			continue
		}
		scalarOnly := len(fn.Params) > 0 && isUint64(fn.Params[0].Type())
		for _, par := range fn.Params {
			if _, isBasic := par.Type().Underlying().(*types.Basic); !isBasic {
				scalarOnly = false
			}
		}
		if !scalarOnly {
			continue
		}
		climbs := false
		for _, b := range fn.Blocks {
			if innermostLoopHeader(b) == nil {
				continue
			}
			for _, in := range b.Instrs {
				if c, ok := in.(*ssa.Call); ok && c.Common().StaticCallee() == parent {
					climbs = true
				}
			}
		}
		if climbs {
			out[fn] = true
		}
	}
	return out
}

func checkJointProofPositions(p *Program, r *Report, rule string) {
	single := singleTargetProofFns(p)
	var names []string
	for f := range single {
		names = append(names, p.FuncName(f))
	}
	sort.Strings(names)
	n := 0
	for _, fn := range p.Funcs {
		if single[fn] || fn.Blocks == nil {
			continue
		}
		idx := 0
		for _, sc := range callsIn(p, fn) {
			callee := sc.call.Common().StaticCallee()
			if callee == nil || !single[callee] {
				continue
			}
			idx++
			n++
			key := fmt.Sprintf("%s->%s#%d/joint", p.FuncName(fn), p.FuncName(callee), idx)
			h := innermostLoopHeader(sc.call.Block())
			accumulated := false
			if h != nil {
				// the result is appended to a list carried around the loop
				for _, ref := range *sc.call.Referrers() {
					c, ok := ref.(*ssa.Call)
					if !ok {
						continue
					}
					if b, isB := c.Common().Value.(*ssa.Builtin); isB && b.Name() == "append" && len(c.Common().Args) == 2 && c.Common().Args[1] == ssa.Value(sc.call) {
						if flowsFrom(c.Common().Args[0], func(v ssa.Value) bool {
							ph, ok := v.(*ssa.Phi)
							return ok && loopContains(h, ph.Block())
						}, 0, map[ssa.Value]bool{}) {
							accumulated = true
						}
						// the list lives in a variable (captured by a closure): appended to and stored back
						if ld, ok := c.Common().Args[0].(*ssa.UnOp); ok && ld.Op == token.MUL {
							for _, ref2 := range *c.Referrers() {
								if st, ok := ref2.(*ssa.Store); ok && st.Addr == ld.X {
									accumulated = true
								}
							}
						}
					}
				}
			}
			if accumulated {
				r.Violate(rule, key, posOf(p, sc.call), fmt.Sprintf("the positions on the path of one target (%s) are collected in a loop over several targets: the proof of several targets is not the union of their single proofs - siblings that are targets themselves or that can be computed from other targets are reported as needed, and the consumer of the list walks the joint order", p.FuncName(callee)), "in "+p.FuncName(fn))
			} else {
				r.Discharge(rule, key, posOf(p, sc.call), "the single-target helper is used for one target", true)
			}
		}
	}
	r.Notes = append(r.Notes, fmt.Sprintf("%s: single-target proof helpers found by role: %s; %d call site(s) in the package", rule, strings.Join(names, ", "), n))
	if len(single) == 0 {
		r.Discharge(rule, "package/no-single-target-helper", "-", "the package has no single-target proof-position helper", false)
	} else {
		r.Discharge(rule, "package/single-target-helper-never-accumulated", "-", fmt.Sprintf("%d single-target helper(s) (%s), %d call site(s), none accumulated over a loop", len(single), strings.Join(names, ", "), n), true)
	}
}

// ---------------------------------------------------------------------------
// R09i RECOMPUTED-NODE-FLAG. When the map forest stores a node whose hash it
// has just recomputed (an ancestor of a changed leaf), the keep flag stored
// with it is the forest's own configuration (Full), a constant, or the flag
// the node at that very position already had - never the flag of another node
// (the sibling that moved up, a child) or of a parameter. A flag copied from a
// remembered leaf onto its ancestors makes them and their siblings unprunable.

// structFieldOrigins: where the named field of the struct value v (a load of a
// local variable) may come from: values stored into the field, and for stores
// of the whole struct the stored struct value itself (marked whole).
type fieldOrigin struct {
	val   ssa.Value
	whole bool
}

func structFieldOrigins(v ssa.Value, field string) []fieldOrigin {
	u, ok := v.(*ssa.UnOp)
	if !ok {
		return []fieldOrigin{{v, true}}
	}
	al, ok := u.X.(*ssa.Alloc)
	if !ok || al.Referrers() == nil {
		return []fieldOrigin{{v, true}}
	}
	var out []fieldOrigin
	for _, ref := range *al.Referrers() {
		switch x := ref.(type) {
		case *ssa.Store:
			if x.Addr == al {
				out = append(out, fieldOrigin{x.Val, true})
			}
		case *ssa.FieldAddr:
			if fieldName(x.X.Type(), x.Field) != field || x.Referrers() == nil {
				continue
			}
			for _, r2 := range *x.Referrers() {
				if st, ok := r2.(*ssa.Store); ok && st.Addr == x {
					out = append(out, fieldOrigin{st.Val, false})
				}
			}
		}
	}
	return out
}

func checkRecomputedNodeFlag(p *Program, r *Report, rule string) {
	hashFn := p.Func("parentHash")
	if hashFn == nil {
		r.MissingAnchor(rule, "parentHash", "parent hash function not found")
		return
	}
	fromHash := func(v ssa.Value) bool {
		return flowsFrom(v, func(x ssa.Value) bool {
			c, ok := x.(*ssa.Call)
			return ok && c.Common().StaticCallee() == hashFn
		}, 0, map[ssa.Value]bool{})
	}
	n := 0
	for _, g := range p.Funcs {
		if g.Blocks == nil || g.Signature.Recv() == nil || !p.localNamed(g.Signature.Recv().Type(), "MapPollard") || g.Parent() != nil {
			continue
		}
		ord := 0
		for _, b := range g.Blocks {
			for _, in := range b.Instrs {
				kind, method, cc := storeCall(p, in)
				if kind != "nodes" || method != "Put" || len(cc.Args) < 2 {
					continue
				}
				// The assignments that recompute the hash. Where the flag is assigned together with the
				// hash (a composite literal: both field stores in one block) that flag is the one that
				// belongs to the recomputed node; where the hash is assigned alone the flag is whatever
				// the variable held before, i.e. any of its other origins.
				recomputed := false
				var flagOrigins []fieldOrigin
				paired := true
				if u, ok := cc.Args[1].(*ssa.UnOp); ok {
					if al, ok := u.X.(*ssa.Alloc); ok && al.Referrers() != nil {
						for _, ref := range *al.Referrers() {
							fa, ok := ref.(*ssa.FieldAddr)
							if !ok || fieldName(fa.X.Type(), fa.Field) != "Hash" || fa.Referrers() == nil {
								continue
							}
							for _, r2 := range *fa.Referrers() {
								st, ok := r2.(*ssa.Store)
								if !ok || st.Addr != fa || !fromHash(st.Val) {
									continue
								}
								recomputed = true
								found := false
								for _, ref3 := range *al.Referrers() {
									fb, ok := ref3.(*ssa.FieldAddr)
									if !ok || fieldName(fb.X.Type(), fb.Field) != "Remember" || fb.Referrers() == nil {
										continue
									}
									for _, r4 := range *fb.Referrers() {
										if st2, ok := r4.(*ssa.Store); ok && st2.Addr == fb && st2.Block() == st.Block() {
											flagOrigins = append(flagOrigins, fieldOrigin{st2.Val, false})
											found = true
										}
									}
								}
								if !found {
									paired = false
								}
							}
						}
					}
				}
				if !recomputed {
					continue
				}
				if !paired {
					flagOrigins = structFieldOrigins(cc.Args[1], "Remember")
				}
				ord++
				n++
				key := fmt.Sprintf("%s/put-recomputed#%d/flag", p.FuncName(g), ord)
				bad := ""
				var check func(v ssa.Value, whole bool, depth int)
				check = func(v ssa.Value, whole bool, depth int) {
					if bad != "" || depth > 8 {
						return
					}
					switch x := v.(type) {
					case *ssa.Const:
						return
					case *ssa.Parameter:
						bad = "parameter " + x.Name()
					case *ssa.Phi:
						for _, e := range x.Edges {
							check(e, whole, depth+1)
						}
					case *ssa.BinOp:
						check(x.X, false, depth+1)
						check(x.Y, false, depth+1)
					case *ssa.UnOp:
						if x.Op == token.NOT {
							check(x.X, false, depth+1)
							return
						}
						if fa, ok := x.X.(*ssa.FieldAddr); ok {
							// a field of the receiver (the configuration) or of a local struct
							if _, isPar := fa.X.(*ssa.Parameter); isPar && fa.X == ssa.Value(g.Params[0]) {
								return
							}
							bad = "field " + fieldName(fa.X.Type(), fa.Field) + " of another value"
							return
						}
						if _, ok := x.X.(*ssa.Alloc); ok {
							for _, o := range structFieldOrigins(x, "Remember") {
								check(o.val, o.whole, depth+1)
							}
							return
						}
						bad = "a value loaded from memory"
					case *ssa.Field:
						// field of a struct value: allowed when the struct is the result of a look-up at the same position
						if ex, ok := x.X.(*ssa.Extract); ok {
							if k, m, gc := storeCall(p, ex.Tuple.(ssa.Instruction)); k == "nodes" && m == "Get" && len(gc.Args) > 0 && sameValue(gc.Args[0], cc.Args[0]) {
								return
							}
						}
						bad = "the flag of a node read at another position"
					case *ssa.Extract:
						if whole {
							if k, m, gc := storeCall(p, x.Tuple.(ssa.Instruction)); k == "nodes" && m == "Get" && len(gc.Args) > 0 && sameValue(gc.Args[0], cc.Args[0]) {
								return
							}
							bad = "the node read at another position"
							return
						}
						bad = "a call result"
					case *ssa.Call:
						bad = "a call result"
					default:
						bad = fmt.Sprintf("%T", v)
					}
				}
				for _, o := range flagOrigins {
					check(o.val, o.whole, 0)
				}
				if bad != "" {
					r.Violate(rule, key, posOf(p, in), "the keep flag stored with a recomputed node comes from "+bad+": an ancestor inherits the flag of a remembered leaf (or of whatever was passed in) and can, with its sibling, never be pruned again", "in "+p.FuncName(g))
				} else {
					r.Discharge(rule, key, posOf(p, in), "the keep flag of the recomputed node is the configuration, a constant or the flag already stored at that position", true)
				}
			}
		}
	}
	r.Floor(rule, "stores of recomputed nodes in the map forest", n, 2)
}

// ---------------------------------------------------------------------------
// SIBLING-SIMULATIONS-AGREE (R11k, R15k). The question "which empty roots do
// numAdds additions write over" is answered twice, by two functions that are
// clones of one simulation: one over the verifier's root hashes (update data
// of a block) and one over the tracker's root infos (caching schedule). They
// must agree on their control structure: the same early exits (by what their
// tests look at), loops bounded by the same inputs, and the result appended
// under a test of the same input. Inputs are named by role: A = the number of
// additions (first uint64 parameter), L = the leaf count (second), R = the
// roots (the slice parameter), T = a row count (uint8). If one clone stops
// simulating early, caps the additions or returns before looking, and the
// other does not, one of them is wrong (Engler et al.: cross-checking
// implementations of one interface).

func simulationFingerprint(p *Program, fn *ssa.Function) (early []string, loops []string, emit []string, ok bool) {
	role := map[ssa.Value]string{}
	nU := 0
	for _, par := range fn.Params {
		switch t := par.Type().Underlying().(type) {
		case *types.Slice:
			role[par] = "R"
		case *types.Basic:
			switch t.Kind() {
			case types.Uint64:
				nU++
				if nU == 1 {
					role[par] = "A"
				} else {
					role[par] = "L"
				}
			case types.Uint8:
				role[par] = "T"
			}
		}
	}
	if nU < 2 {
		return nil, nil, nil, false
	}
	deps := func(v ssa.Value) string {
		set := map[string]bool{}
		seen := map[ssa.Value]bool{}
		var walk func(v ssa.Value, d int)
		walk = func(v ssa.Value, d int) {
			if v == nil || seen[v] || d > 30 {
				return
			}
			seen[v] = true
			if r, ok := role[v]; ok {
				set[r] = true
				return
			}
			switch x := v.(type) {
			case *ssa.Const, *ssa.Global, *ssa.Function, *ssa.Builtin:
				return
			case *ssa.Phi:
				// a merged value also depends on the tests that select the incoming edge
				for i, e := range x.Edges {
					walk(e, d+1)
					if i < len(x.Block().Preds) {
						pb := x.Block().Preds[i]
						if iff, ok := pb.Instrs[len(pb.Instrs)-1].(*ssa.If); ok {
							walk(iff.Cond, d+1)
						}
					}
				}
				return
			case *ssa.Alloc:
				// a local variable: whatever is stored into it or into a part of it
				for _, ref := range *x.Referrers() {
					switch y := ref.(type) {
					case *ssa.Store:
						if y.Addr == ssa.Value(x) {
							walk(y.Val, d+1)
						}
					case *ssa.FieldAddr:
						for _, r2 := range *y.Referrers() {
							if st, ok := r2.(*ssa.Store); ok && st.Addr == ssa.Value(y) {
								walk(st.Val, d+1)
							}
						}
					case *ssa.IndexAddr:
						for _, r2 := range *y.Referrers() {
							if st, ok := r2.(*ssa.Store); ok && st.Addr == ssa.Value(y) {
								walk(st.Val, d+1)
							}
						}
					}
				}
				return
			}
			if in, ok := v.(ssa.Instruction); ok {
				for _, op := range in.Operands(nil) {
					if op != nil && *op != nil {
						walk(*op, d+1)
					}
				}
			}
		}
		walk(v, 0)
		var rs []string
		for r := range set {
			if r != "T" { // the row count is a layout parameter only one clone has
				rs = append(rs, r)
			}
		}
		sort.Strings(rs)
		return "{" + strings.Join(rs, ",") + "}"
	}
	// loops, outermost first (by header index)
	var headers []*ssa.BasicBlock
	for _, b := range fn.Blocks {
		if len(latches(b)) > 0 {
			headers = append(headers, b)
		}
	}
	inAnyLoop := func(b *ssa.BasicBlock) bool { return innermostLoopHeader(b) != nil }
	for _, h := range headers {
		loop := naturalLoop(h)
		var conds []string
		var blocks []*ssa.BasicBlock
		for b := range loop {
			blocks = append(blocks, b)
		}
		sort.Slice(blocks, func(i, j int) bool { return blocks[i].Index < blocks[j].Index })
		for _, b := range blocks {
			if innermostLoopHeader(b) != h && b != h {
				continue // exits of inner loops are reported with the inner loop
			}
			iff, ok := b.Instrs[len(b.Instrs)-1].(*ssa.If)
			if !ok {
				continue
			}
			exits := false
			for _, s := range b.Succs {
				if !loop[s] {
					exits = true
				}
			}
			if exits {
				conds = append(conds, deps(iff.Cond))
			}
		}
		sort.Strings(conds)
		depth := 0
		for _, o := range headers {
			if o != h && naturalLoop(o)[h] {
				depth++
			}
		}
		// only the simulation loops (bounded by the number of additions or the leaf count); a scan
		// over the roots may as well live in a helper
		joined := strings.Join(conds, "+")
		if !strings.Contains(joined, "A") && !strings.Contains(joined, "L") {
			continue
		}
		loops = append(loops, fmt.Sprintf("depth%d:%s", depth, joined))
	}
	sort.Strings(loops)
	// early returns: returns outside every loop whose block is not the last return, with the guards they sit under
	rets := returnsOf(fn)
	for _, ret := range rets {
		if inAnyLoop(ret.Block()) {
			early = append(early, "in-loop:"+guardDeps(ret.Block(), deps))
			continue
		}
		g := guardDeps(ret.Block(), deps)
		if g != "" {
			early = append(early, g)
		}
	}
	sort.Strings(early)
	// the result: appends inside the loops and the tests they sit under (inside the loop)
	for _, b := range fn.Blocks {
		if !inAnyLoop(b) {
			continue
		}
		for _, in := range b.Instrs {
			c, ok := in.(*ssa.Call)
			if !ok {
				continue
			}
			if bi, isB := c.Common().Value.(*ssa.Builtin); !isB || bi.Name() != "append" {
				continue
			}
			if sl, ok := c.Type().Underlying().(*types.Slice); !ok || !isUint64(sl.Elem()) {
				continue
			}
			emit = append(emit, guardDeps(b, deps))
		}
	}
	sort.Strings(emit)
	return early, loops, emit, true
}

// guardDeps: the inputs the branch conditions dominating b look at (one entry per guard, sorted).
func guardDeps(b *ssa.BasicBlock, deps func(ssa.Value) string) string {
	var gs []string
	for _, g := range guardsAt(b) {
		gs = append(gs, deps(g.Cond))
	}
	sort.Strings(gs)
	return strings.Join(gs, "&")
}

func checkSiblingSimulations(p *Program, r *Report, rule string, a, b string) {
	fa, fb := p.Func(a), p.Func(b)
	if fa == nil || fb == nil {
		r.MissingAnchor(rule, a+" / "+b, "one of the two simulations of the overwritten empty roots not found")
		return
	}
	ea, la, ma, oka := simulationFingerprint(p, fa)
	eb, lb, mb, okb := simulationFingerprint(p, fb)
	key := a + "~" + b + "/control-structure"
	if !oka || !okb {
		r.Undecided(rule, key, p.Pos(fa.Pos()), "cannot name the inputs of the two simulations by role (number of additions, leaf count, roots)")
		return
	}
	sa := fmt.Sprintf("early exits %v; loops %v; result appended under %v", ea, la, ma)
	sb := fmt.Sprintf("early exits %v; loops %v; result appended under %v", eb, lb, mb)
	if sa == sb {
		r.Discharge(rule, key, p.Pos(fa.Pos()), "both simulations have the same control structure over their inputs (A additions, L leaf count, R roots): "+sa, true)
		return
	}
	r.Violate(rule, key, p.Pos(fb.Pos()), fmt.Sprintf("the two simulations of the empty roots that additions write over disagree on their control structure: %s has %s; %s has %s - one of them stops, caps or returns where the other goes on, so for some forest the update data / the caching schedule misses a destroyed root", a, sa, b, sb), "in "+a+" and "+b)
}

// ---------------------------------------------------------------------------
// R15l MARK-EVERY-EMPTIED-ROOT. A block can empty several trees. The function
// that marks the tracker's root infos as empty writes the flag inside a loop
// nest over (positions x roots); the outermost loop around the marking store
// has no way out but its own bound - leaving it at the first hit marks one
// root per block and loses the others. (An early exit of an inner loop is
// fine: one position matches at most one root.)

func checkMarkEveryEmptiedRoot(p *Program, r *Report, rule string, name string) {
	fn := p.Func(name)
	if fn == nil {
		r.MissingAnchor(rule, name, "the function that applies a block's deletions to the root infos not found")
		return
	}
	isMark := func(in ssa.Instruction) bool {
		st, ok := in.(*ssa.Store)
		if !ok {
			return false
		}
		c, isConst := st.Val.(*ssa.Const)
		if !isConst || c.Value == nil || c.Value.String() != "true" {
			return false
		}
		fa, ok := st.Addr.(*ssa.FieldAddr)
		if !ok {
			return false
		}
		_, viaElem := fa.X.(*ssa.IndexAddr)
		return viaElem
	}
	// helpers of the package that do the marking (the inner loop extracted)
	marker := map[*ssa.Function]bool{}
	for _, g := range p.Funcs {
		if g == fn || g.Blocks == nil {
			continue
		}
		for _, b := range g.Blocks {
			for _, in := range b.Instrs {
				if isMark(in) {
					marker[g] = true
				}
			}
		}
	}
	n := 0
	for _, b := range fn.Blocks {
		for _, in := range b.Instrs {
			site := isMark(in)
			if c, ok := in.(*ssa.Call); ok && !site {
				if sc := c.Common().StaticCallee(); sc != nil && marker[sc] {
					site = true
				}
			}
			if !site {
				continue
			}
			h := innermostLoopHeader(b)
			if h == nil {
				// the site is on a path that leaves a loop (mark, then break): that is an early exit
				for q := b; q != nil && h == nil; q = q.Idom() {
					if hq := innermostLoopHeader(q); hq != nil && hq.Dominates(b) {
						h = hq
					}
				}
				if h == nil {
					continue
				}
				n++
				r.Violate(rule, fmt.Sprintf("%s/mark#%d/no-early-exit", name, n), posOf(p, in), "the store that marks a root as emptied sits on a path that leaves the loop around it: after the first hit no other root of the block is marked, and the additions that later overwrite an unmarked empty root are not traced back", "in "+name)
				continue
			}
			// outermost loop containing the site
			outer := h
			for _, cand := range fn.Blocks {
				if cand != outer && len(latches(cand)) > 0 && naturalLoop(cand)[outer] {
					outer = cand
				}
			}
			n++
			key := fmt.Sprintf("%s/mark#%d/no-early-exit", name, n)
			loop := naturalLoop(outer)
			var early ssa.Instruction
			for blk := range loop {
				if blk == outer {
					continue
				}
				for _, s := range blk.Succs {
					if !loop[s] {
						if len(s.Instrs) > 0 {
							if _, isPanic := s.Instrs[len(s.Instrs)-1].(*ssa.Panic); isPanic {
								continue
							}
						}
						early = blk.Instrs[len(blk.Instrs)-1]
					}
				}
			}
			if early != nil {
				r.Violate(rule, key, posOf(p, early), "the outermost loop around the store that marks a root as emptied can be left from inside its body: a block that empties several trees marks only the roots met before the exit, and the additions that later overwrite an unmarked empty root are not traced back", "in "+name)
			} else {
				r.Discharge(rule, key, posOf(p, in), "the outermost loop around the marking step is left only through its own bound", true)
			}
		}
	}
	r.Floor(rule, "steps that mark a root as emptied", n, 1)
}

// ---------------------------------------------------------------------------
// R13l RESTORE-TAKES-THE-STREAM'S-HEADER. Positions in the stream are in the
// writer's layout; the restore function of the map forest therefore takes
// over the header fields it reads (allocated rows, leaf count) as they are:
// for every field of the receiver that it stores from a value read off the
// stream, one such store lies on every path to the success return. A field
// that is only updated when the stream's value is larger (or non-zero, or
// different) leaves the receiver's old geometry in force for the new nodes.

func checkRestoreTakesHeader(p *Program, r *Report, rule string, name string, floor int) {
	fn := p.Func(name)
	if fn == nil {
		r.MissingAnchor(rule, name, "restore function not found")
		return
	}
	if len(fn.Params) == 0 {
		return
	}
	recv := fn.Params[0]
	fromStream := streamValuePred(p, fn)
	stores := map[string][]*ssa.Store{}
	for _, b := range fn.Blocks {
		for _, in := range b.Instrs {
			st, ok := in.(*ssa.Store)
			if !ok {
				continue
			}
			fa, ok := st.Addr.(*ssa.FieldAddr)
			if !ok || !isRecvValue(fa.X, recv) {
				continue
			}
			if _, basic := st.Val.Type().Underlying().(*types.Basic); !basic || !fromStream(st.Val) {
				continue
			}
			f := fieldName(fa.X.Type(), fa.Field)
			stores[f] = append(stores[f], st)
		}
	}
	var fields []string
	for f := range stores {
		fields = append(fields, f)
	}
	sort.Strings(fields)
	succ := returnsOf(fn)
	for _, f := range fields {
		key := fmt.Sprintf("%s/%s/taken-from-stream", name, f)
		okAll := false
		for _, st := range stores[f] {
			// every return that can follow the store is dominated by it
			after := reachableBlocks([]*ssa.BasicBlock{st.Block()})
			dominatesAll := true
			for _, ret := range succ {
				if ret.Block() != st.Block() && !after[ret.Block()] {
					continue
				}
				if !(st.Block() == ret.Block() || st.Block().Dominates(ret.Block())) {
					dominatesAll = false
				}
			}
			if dominatesAll {
				okAll = true
			}
		}
		if okAll {
			r.Discharge(rule, key, posOf(p, stores[f][0]), "the field is stored from the value read off the stream on every path that goes on after the read", true)
		} else {
			r.Violate(rule, key, posOf(p, stores[f][0]), "the header field "+f+" is taken from the stream only on some paths (under a comparison with what the receiver had): the records that follow are in the writer's geometry and are then filed under the receiver's old one", "in "+name)
		}
	}
	r.Floor(rule, "header fields the restore function stores from the stream", len(fields), floor)
}

// isRecvValue: v is the receiver parameter, or a load of the variable the
// receiver is spilled into (go/ssa spills parameters that closures capture).
func isRecvValue(v ssa.Value, recv *ssa.Parameter) bool {
	if v == ssa.Value(recv) {
		return true
	}
	u, ok := v.(*ssa.UnOp)
	if !ok || u.Op != token.MUL {
		return false
	}
	al, ok := u.X.(*ssa.Alloc)
	if !ok || al.Referrers() == nil {
		return false
	}
	n := 0
	for _, ref := range *al.Referrers() {
		if st, ok := ref.(*ssa.Store); ok && st.Addr == ssa.Value(al) {
			if st.Val != ssa.Value(recv) {
				return false
			}
			n++
		}
	}
	return n > 0
}

// ---------------------------------------------------------------------------
// R12i RELEASE-IS-DEFERRED. Every critical section of the map forest calls
// code the forest does not own: the node store and the leaf index are
// interfaces the user may implement, serialization writes to the caller's
// io.Writer and reads from the caller's io.Reader. If such a call panics and
// the caller recovers, a lock released by a plain call after the section is
// never released, and every later writer (and, behind it, every reader)
// blocks for ever. A function that acquires the lock and makes any call
// inside the section therefore releases it with defer.

func checkReleaseDeferred(p *Program, r *Report, rule string) {
	isMutexOp := func(cc *ssa.CallCommon) string {
		f := cc.StaticCallee()
		if f == nil || f.Pkg == nil || f.Pkg.Pkg.Path() != "sync" {
			return ""
		}
		return f.Name()
	}
	n := 0
	for _, fn := range p.Funcs {
		if fn.Blocks == nil {
			continue
		}
		acq := map[string][]ssa.Instruction{}
		deferred := map[string]bool{}
		otherCalls := 0
		for _, b := range fn.Blocks {
			for _, in := range b.Instrs {
				switch x := in.(type) {
				case *ssa.Call:
					switch op := isMutexOp(x.Common()); op {
					case "Lock", "RLock":
						acq[op] = append(acq[op], x)
					case "Unlock", "RUnlock", "TryLock", "TryRLock":
					default:
						if _, isB := x.Common().Value.(*ssa.Builtin); !isB {
							otherCalls++
						}
					}
				case *ssa.Defer:
					if op := isMutexOp(x.Common()); op == "Unlock" || op == "RUnlock" {
						deferred[op] = true
					}
					// defer func() { lock.Unlock() }()
					if mc, ok := x.Call.Value.(*ssa.MakeClosure); ok {
						if cf, ok := mc.Fn.(*ssa.Function); ok {
							for _, cb := range cf.Blocks {
								for _, cin := range cb.Instrs {
									if c, ok := cin.(*ssa.Call); ok {
										if op := isMutexOp(c.Common()); op == "Unlock" || op == "RUnlock" {
											deferred[op] = true
										}
									}
								}
							}
						}
					}
				}
			}
		}
		for _, kind := range []string{"Lock", "RLock"} {
			rel := map[string]string{"Lock": "Unlock", "RLock": "RUnlock"}[kind]
			for i, a := range acq[kind] {
				n++
				key := fmt.Sprintf("%s/%s#%d/deferred-release", p.FuncName(fn), kind, i+1)
				switch {
				case deferred[rel]:
					r.Discharge(rule, key, posOf(p, a), "the matching "+rel+" is deferred in the same function", true)
				case otherCalls == 0:
					r.Discharge(rule, key, posOf(p, a), "the section makes no call: nothing in it can panic into the caller", true)
				default:
					r.Violate(rule, key, posOf(p, a), fmt.Sprintf("the lock taken here is released by a plain call of %s, not by defer, and the section calls other code (the node store and the leaf index are user-implementable interfaces, serialization calls the caller's io.Writer / io.Reader): a panic in there that the caller recovers leaves the lock held, and every later writer - and every reader queued behind it - blocks for ever", rel), "in "+p.FuncName(fn))
				}
			}
		}
	}
	r.Floor(rule, "lock acquisitions in the package", n, 12)
}

// ---------------------------------------------------------------------------
// R13m MEMO-INVALIDATED. A struct field that memoizes a value computed from
// the rest of the struct (a method returns the field when it is set and
// otherwise computes, stores and returns it) has to be reset by every exported
// method that changes the struct. The size prediction of the pointer forest
// and anything else derived from the forest's shape would otherwise describe
// the forest before the last Undo / Prune / restore.

func checkMemoInvalidated(p *Program, r *Report, rule string) {
	type memo struct {
		S      *types.Named
		field  string
		getter *ssa.Function
	}
	recvNamed := func(fn *ssa.Function) *types.Named {
		rv := fn.Signature.Recv()
		if rv == nil {
			return nil
		}
		pt, ok := rv.Type().(*types.Pointer)
		if !ok {
			return nil
		}
		n, _ := pt.Elem().(*types.Named)
		if n == nil || n.Obj().Pkg() != p.Types {
			return nil
		}
		if _, isStruct := n.Underlying().(*types.Struct); !isStruct {
			return nil
		}
		return n
	}
	isZero := func(v ssa.Value) bool {
		c, ok := v.(*ssa.Const)
		if !ok {
			return false
		}
		if c.Value == nil {
			return true
		}
		s := c.Value.String()
		return s == "0" || s == "false"
	}
	var memos []memo
	for _, fn := range p.Funcs {
		S := recvNamed(fn)
		if S == nil || fn.Parent() != nil || fn.Blocks == nil || fn.Signature.Results().Len() == 0 {
			continue
		}
		recv := fn.Params[0]
		fieldOf := func(v ssa.Value) (string, bool) {
			u, ok := v.(*ssa.UnOp)
			if !ok || u.Op != token.MUL {
				return "", false
			}
			fa, ok := u.X.(*ssa.FieldAddr)
			if !ok || !isRecvValue(fa.X, recv) {
				return "", false
			}
			return fieldName(fa.X.Type(), fa.Field), true
		}
		tested := map[string]bool{}
		returned := map[string]bool{}
		stored := map[string]bool{}
		for _, b := range fn.Blocks {
			for _, in := range b.Instrs {
				switch x := in.(type) {
				case *ssa.BinOp:
					if x.Op == token.NEQ || x.Op == token.EQL {
						if f, ok := fieldOf(x.X); ok && isZero(x.Y) {
							tested[f] = true
						}
						if f, ok := fieldOf(x.Y); ok && isZero(x.X) {
							tested[f] = true
						}
					}
				case *ssa.Return:
					for _, rv := range retOperands(x) {
						if f, ok := fieldOf(rv); ok {
							returned[f] = true
						}
					}
				case *ssa.Store:
					if fa, ok := x.Addr.(*ssa.FieldAddr); ok && isRecvValue(fa.X, recv) {
						if _, isConst := x.Val.(*ssa.Const); !isConst {
							stored[fieldName(fa.X.Type(), fa.Field)] = true
						}
					}
				}
			}
		}
		for f := range tested {
			if returned[f] && stored[f] {
				memos = append(memos, memo{S, f, fn})
			}
		}
	}
	sort.Slice(memos, func(i, j int) bool {
		return memos[i].S.Obj().Name()+memos[i].field < memos[j].S.Obj().Name()+memos[j].field
	})
	storesTo := func(fn *ssa.Function, S *types.Named, only string, except string) bool {
		for g := range p.StaticReach(fn) {
			_ = g
		}
		reach := p.StaticReach(fn)
		reach[fn] = true
		for g := range reach {
			for _, b := range g.Blocks {
				for _, in := range b.Instrs {
					st, ok := in.(*ssa.Store)
					if !ok {
						continue
					}
					fa, ok := st.Addr.(*ssa.FieldAddr)
					if !ok || namedOf(fa.X.Type()) != S {
						continue
					}
					f := fieldName(fa.X.Type(), fa.Field)
					if only != "" && f == only {
						return true
					}
					if only == "" && f != except {
						return true
					}
				}
			}
		}
		return false
	}
	n := 0
	for _, m := range memos {
		for _, fn := range p.Funcs {
			if recvNamed(fn) != m.S || fn == m.getter || fn.Parent() != nil || fn.Object() == nil || !fn.Object().Exported() {
				continue
			}
			if !storesTo(fn, m.S, "", m.field) {
				continue // does not change the struct
			}
			n++
			key := fmt.Sprintf("%s/%s.%s/invalidated", p.FuncName(fn), m.S.Obj().Name(), m.field)
			if storesTo(fn, m.S, m.field, "") {
				r.Discharge(rule, key, p.Pos(fn.Pos()), "the method changes the struct and also stores the memo field "+m.field+" (computed and returned by "+p.FuncName(m.getter)+")", true)
			} else {
				r.Violate(rule, key, p.Pos(fn.Pos()), fmt.Sprintf("%s changes fields of %s but nothing it reaches stores %s, the field in which %s memoizes its result: after this method the memo describes the struct as it was before", p.FuncName(fn), m.S.Obj().Name(), m.field, p.FuncName(m.getter)), "in "+p.FuncName(fn))
			}
		}
	}
	var names []string
	for _, m := range memos {
		names = append(names, m.S.Obj().Name()+"."+m.field)
	}
	if len(memos) == 0 {
		r.Discharge(rule, "package/no-memo-field", "-", "no struct field of the package memoizes a computed value (no method returns a field when it is set and otherwise computes, stores and returns it)", false)
	} else {
		r.Notes = append(r.Notes, rule+": memo fields found by role: "+strings.Join(names, ", "))
	}
	_ = n
}

// ---------------------------------------------------------------------------
// R08h SLOT-CACHE-NOT-PERMUTED. A slice that is filled slot by slot from
// another list (cache[i] = f(list[i]) over the index of list) is only valid
// while the list keeps its order. If the list - or the struct that holds it -
// is sorted, or handed by address to a method that may insert or delete,
// after the fill and before a later read of the cache, the cache describes
// other slots than the ones it is read for.

func checkSlotCacheNotPermuted(p *Program, r *Report, rule string, entries []string) {
	var es []*ssa.Function
	for _, e := range entries {
		if f := p.Func(e); f != nil {
			es = append(es, f)
		} else {
			r.MissingAnchor(rule, e, e+" not found")
		}
	}
	reach := p.StaticReach(es...)
	for _, e := range es {
		reach[e] = true
	}
	// holder of a list value: the local struct variable whose field it is loaded from, or the value itself
	holder := func(v ssa.Value) ssa.Value {
		if u, ok := v.(*ssa.UnOp); ok && u.Op == token.MUL {
			if fa, ok := u.X.(*ssa.FieldAddr); ok {
				if al, ok := fa.X.(*ssa.Alloc); ok {
					return al
				}
			}
			if al, ok := u.X.(*ssa.Alloc); ok {
				return al
			}
		}
		return v
	}
	n := 0
	for _, fn := range sortedFuncs(p, reach) {
		if fn.Blocks == nil {
			continue
		}
		idx := 0
		for _, b := range fn.Blocks {
			for _, in := range b.Instrs {
				st, ok := in.(*ssa.Store)
				if !ok {
					continue
				}
				ia, ok := st.Addr.(*ssa.IndexAddr)
				if !ok || !isSliceT(ia.X.Type()) {
					continue
				}
				if _, isConst := ia.Index.(*ssa.Const); isConst {
					continue
				}
				cache := ia.X
				if _, fresh := cache.(*ssa.MakeSlice); !fresh {
					continue
				}
				// the same index reads another list in the same function
				var list ssa.Value
				for _, ref := range *ia.Index.Referrers() {
					y, ok := ref.(*ssa.IndexAddr)
					if !ok || y == ia || y.X == cache || !isSliceT(y.X.Type()) {
						continue
					}
					if flowsFrom(st.Val, func(v ssa.Value) bool {
						u, ok := v.(*ssa.UnOp)
						return ok && u.X == ssa.Value(y)
					}, 0, map[ssa.Value]bool{}) {
						list = y.X
					}
				}
				if list == nil {
					continue
				}
				idx++
				n++
				key := fmt.Sprintf("%s/slot-cache#%d", p.FuncName(fn), idx)
				hl := holder(list)
				after := reachableBlocks(b.Succs)
				// permutations of the list (or its holder) that can run after the fill
				var perm ssa.Instruction
				for _, pb := range fn.Blocks {
					if !after[pb] {
						continue
					}
					for _, pin := range pb.Instrs {
						c, ok := pin.(*ssa.Call)
						if !ok {
							continue
						}
						cc := c.Common()
						touches := false
						for _, a := range cc.Args {
							x := a
							if mi, ok := x.(*ssa.MakeInterface); ok {
								x = mi.X
							}
							if x == hl || holder(x) == hl || x == list {
								touches = true
							}
						}
						if !touches {
							continue
						}
						f := calleeFunc(cc)
						name := ""
						if f != nil {
							name = f.Name()
							if f.Pkg() != nil {
								name = f.Pkg().Name() + "." + name
							}
						}
						switch {
						case strings.HasPrefix(name, "sort.") || strings.HasPrefix(name, "slices.Sort") || strings.HasPrefix(name, "slices.Reverse"):
							perm = c
						default:
							// a method of the package handed the address of the holder: may insert / delete
							if sc := cc.StaticCallee(); sc != nil && p.owns(sc) && sc.Signature.Recv() != nil {
								if _, isPtr := sc.Signature.Recv().Type().(*types.Pointer); isPtr && len(cc.Args) > 0 && cc.Args[0] == hl {
									perm = c
								}
							}
						}
					}
				}
				if perm == nil {
					r.Discharge(rule, key, posOf(p, st), "nothing reorders the list the cache was filled from after the fill", true)
					continue
				}
				// a read of the cache that can follow the permutation
				afterPerm := reachableBlocks(perm.Block().Succs)
				afterPerm[perm.Block()] = true
				var read ssa.Instruction
				for _, ref := range *cache.Referrers() {
					y, ok := ref.(*ssa.IndexAddr)
					if !ok || y == ia {
						continue
					}
					for _, r2 := range *y.Referrers() {
						if u, ok := r2.(*ssa.UnOp); ok && u.Op == token.MUL && afterPerm[u.Block()] {
							read = u
						}
					}
				}
				if read == nil {
					r.Discharge(rule, key, posOf(p, st), "the cache is not read after the list it was filled from is reordered", true)
				} else {
					r.Violate(rule, key, posOf(p, perm), fmt.Sprintf("the per-slot cache filled at %s from another list is read again (%s) after that list is reordered here: the slots have shifted, and the cached values belong to other elements", posOf(p, st), posOf(p, read)), "in "+p.FuncName(fn))
				}
			}
		}
	}
	if n == 0 {
		r.Discharge(rule, "closure/no-slot-cache", "-", "no slice in the closure is filled slot by slot from another list", false)
	}
}

// ---------------------------------------------------------------------------
// R05h NOT-THE-LAST-ITERATION-ONLY. A predicate over a list ("are all of these
// hashes cached", "is every position present") that is computed in a loop
// must not hand out what the last iteration found: a flag that every
// iteration overwrites, returned after the loop, forgets the earlier
// elements. The block application of the partial map forest relies on such a
// predicate to refuse a block it cannot apply; with the last element cached
// and an earlier one not, it would go on and hash missing siblings as empty.
// Rule: in a function that returns a bool, a returned value that is a φ at
// the header of a loop must not receive, around the loop, a value computed in
// that iteration which does not depend on the φ itself (found = lookup(x)
// instead of found = found && lookup(x)), unless the iteration leaves the
// loop on that value.

func checkNotLastIterationOnly(p *Program, r *Report, rule string, entries []string, floor int) {
	var es []*ssa.Function
	for _, e := range entries {
		if f := p.Func(e); f != nil {
			es = append(es, f)
		} else {
			r.MissingAnchor(rule, e, e+" not found")
		}
	}
	reach := p.StaticReach(es...)
	n := 0
	for _, fn := range sortedFuncs(p, reach) {
		if fn.Blocks == nil || !p.owns(fn) {
			continue
		}
		res := fn.Signature.Results()
		bi := -1
		for i := 0; i < res.Len(); i++ {
			if types.Identical(res.At(i).Type(), types.Typ[types.Bool]) {
				bi = i
			}
		}
		if bi < 0 {
			continue
		}
		hasLoop := false
		for _, b := range fn.Blocks {
			if len(latches(b)) > 0 {
				hasLoop = true
			}
		}
		if !hasLoop {
			continue
		}
		n++
		key := p.FuncName(fn) + "/list-predicate"
		var bad ssa.Instruction
		seen := map[ssa.Value]bool{}
		var visit func(v ssa.Value, ret *ssa.Return)
		visit = func(v ssa.Value, ret *ssa.Return) {
			if v == nil || seen[v] || bad != nil {
				return
			}
			seen[v] = true
			ph, ok := v.(*ssa.Phi)
			if !ok {
				return
			}
			h := ph.Block()
			isHeader := len(latches(h)) > 0
			for i, e := range ph.Edges {
				if isHeader && i < len(h.Preds) && h.Dominates(h.Preds[i]) {
					// value carried around the loop: must depend on the phi itself, or be the phi / a constant
					if _, isConst := e.(*ssa.Const); isConst || e == ssa.Value(ph) {
						continue
					}
					if !dependsOn(e, func(x ssa.Value) bool { return x == ssa.Value(ph) }) {
						if in, ok := e.(ssa.Instruction); ok {
							bad = in
						} else {
							bad = ret
						}
						return
					}
					continue
				}
				visit(e, ret)
			}
		}
		for _, ret := range returnsOf(fn) {
			ops := retOperands(ret)
			if bi < len(ops) && innermostLoopHeader(ret.Block()) == nil {
				visit(ops[bi], ret)
			}
		}
		if bad != nil {
			r.Violate(rule, key, posOf(p, bad), "the boolean this function returns after its loop is overwritten by every iteration with what that iteration found (it does not depend on its own previous value and the iteration does not leave the loop on it): the answer is about the last element only - a predicate over the whole list forgets the earlier elements", "in "+p.FuncName(fn))
		} else {
			r.Discharge(rule, key, p.Pos(fn.Pos()), "no returned boolean is a loop-carried flag overwritten by each iteration", true)
		}
	}
	r.Floor(rule, "boolean functions with a loop in the closure", n, floor)
}

// ---------------------------------------------------------------------------
// R10k EXISTENCE-TEST-IS-STRICT. Several rules accept a guard by the reviewed
// existence test (the table existenceTests) as proof that a position exists.
// The test itself answers by comparing a row-0 position - the position, or
// the leftmost leaf below it - with the leaf count; row-0 positions run from
// 0 to numLeaves-1, so every such comparison is strict: "position < leaf
// count" means "exists" and nothing else does. A test that lets
// pos == numLeaves through reports the sibling of a whole-tree root as
// existing exactly when every lower bit of the leaf count is set.

func checkExistenceTestStrict(p *Program, r *Report, rule string) {
	var names []string
	for n := range existenceTests {
		names = append(names, n)
	}
	sort.Strings(names)
	total := 0
	for _, name := range names {
		if name != "inForest" {
			continue // the other reviewed tests are exact only together with a row bound (see R08e)
		}
		fn := p.Func(name)
		if fn == nil {
			r.MissingAnchor(rule, name, "reviewed existence test not found")
			continue
		}
		lc := leafCountParams(p)
		isCount := func(v ssa.Value) bool {
			par, ok := v.(*ssa.Parameter)
			if ok && (lc[par] || strings.EqualFold(par.Name(), "numLeaves")) {
				return true
			}
			return false
		}
		n := 0
		for _, b := range fn.Blocks {
			for _, in := range b.Instrs {
				bo, ok := in.(*ssa.BinOp)
				if !ok {
					continue
				}
				var posSide ssa.Value
				var op token.Token
				switch {
				case isCount(bo.Y):
					posSide, op = bo.X, bo.Op
				case isCount(bo.X):
					posSide = bo.Y
					op = map[token.Token]token.Token{token.LSS: token.GTR, token.GTR: token.LSS, token.LEQ: token.GEQ, token.GEQ: token.LEQ, token.EQL: token.EQL, token.NEQ: token.NEQ}[bo.Op]
				default:
					continue
				}
				_ = posSide
				switch op {
				case token.LSS, token.GEQ, token.LEQ, token.GTR, token.EQL, token.NEQ:
				default:
					continue
				}
				n++
				total++
				key := fmt.Sprintf("%s/compare-with-leaf-count#%d", name, n)
				if op == token.LSS || op == token.GEQ {
					r.Discharge(rule, key, posOf(p, bo), "the position is compared strictly with the leaf count (position < leaf count, or its negation)", true)
				} else {
					r.Violate(rule, key, posOf(p, bo), fmt.Sprintf("the reviewed existence test compares a row-0 position with the leaf count using %s: row-0 positions run from 0 to numLeaves-1, so a position equal to the leaf count does not exist - the test would report the sibling of a whole-tree root as existing when every lower bit of the leaf count is set, and every rule that trusts this test would trust it wrongly", op.String()), "in "+name)
				}
			}
		}
	}
	r.Floor(rule, "comparisons with the leaf count in the reviewed existence test", total, 2)
}

// ---------------------------------------------------------------------------
// R09k ROOTS-FLAGGED-BY-CONFIGURATION. The from-roots constructor stores the
// bare roots it is given. Whether they are kept once they have been merged
// away is the forest's configuration (full or not): the keep flag stored with
// them is the constructor's `full` argument (or the field it was stored in),
// not a constant - roots stored as "remembered" in a forest that is not full
// stay stored, with their siblings, after additions have merged them.

func checkRootsFlaggedByConfiguration(p *Program, r *Report, rule string, name string) {
	fn := p.Func(name)
	if fn == nil {
		r.MissingAnchor(rule, name, "from-roots constructor not found")
		return
	}
	var full ssa.Value
	for _, par := range fn.Params {
		if types.Identical(par.Type(), types.Typ[types.Bool]) {
			full = par
		}
	}
	n := 0
	for _, b := range fn.Blocks {
		for _, in := range b.Instrs {
			k, m, cc := storeCall(p, in)
			if k != "nodes" || m != "Put" || len(cc.Args) < 2 {
				continue
			}
			n++
			key := fmt.Sprintf("%s/nodes.Put#%d/flag", name, n)
			bad := ""
			origins := structFieldOrigins(cc.Args[1], "Remember")
			if len(origins) == 0 {
				bad = "nothing (the zero value)"
			}
			for _, o := range origins {
				if o.whole {
					bad = "a whole struct value"
					continue
				}
				ok := dependsOn(o.val, func(v ssa.Value) bool {
					if full != nil && v == full {
						return true
					}
					if _, f, isField := fieldRead(v); isField && f == "Full" {
						return true
					}
					return false
				})
				if !ok {
					if c, isConst := o.val.(*ssa.Const); isConst && c.Value != nil {
						bad = "the constant " + c.Value.String()
					} else {
						bad = "a value that does not depend on the configuration"
					}
				}
			}
			if bad == "" {
				r.Discharge(rule, key, posOf(p, in), "the keep flag of the stored root is the forest's configuration", true)
			} else {
				r.Violate(rule, key, posOf(p, in), "the keep flag stored with a bare root comes from "+bad+", not from the forest's configuration: in a forest that is not full such a root, and its sibling, stay stored after additions have merged it away", "in "+name)
			}
		}
	}
	r.Floor(rule, "node stores of the from-roots constructor", n, 1)
}

// ---------------------------------------------------------------------------
// R09m INGEST-STORES-EVERY-CALCULATED-NODE. Remembering a verified claim
// stores every node the hashing core calculated for it - the targets, their
// ancestors and the roots - with the keep flag of a target set. Leaving out
// "what is there anyway" (the roots) leaves a target that is a root without
// its flag: it is indexed, and pruned at the next addition.

func checkIngestStoresEveryNode(p *Program, r *Report, rule string, core *ssa.Function) {
	name := "(*MapPollard).ingest"
	if p.Func(name) == nil || core == nil {
		r.MissingAnchor(rule, name, "the storing function of the map forest (or the hashing core) not found")
		return
	}
	fromCore := func(cc *ssa.CallCommon) bool {
		if len(cc.Args) < 2 || !posKeyedIface(p, cc.Value.Type()) {
			return false
		}
		for _, o := range structFieldOrigins(cc.Args[1], "Hash") {
			if flowsFrom(o.val, func(v ssa.Value) bool {
				c, ok := v.(*ssa.Call)
				return ok && c.Common().StaticCallee() == core
			}, 0, map[ssa.Value]bool{}) {
				return true
			}
		}
		return false
	}
	checkStoreEveryRecordIf(p, r, rule, []string{name}, 1, fromCore)
}

// ---------------------------------------------------------------------------
// R09l PRUNE-CLIMBS-TO-THE-ROOT. Pruning a leaf walks from the leaf to the
// root of its tree and lets the pruning primitive decide at every level. The
// walk ends at the root and nowhere else: in particular not where nothing is
// stored at the current position - a leaf remembered when it was added never
// had its (computable) ancestors stored, yet the proof nodes beside them are.

func checkPruneClimbsToRoot(p *Program, r *Report, rule string) {
	entry := p.Func("(*MapPollard).Prune")
	prim := p.Func("(*MapPollard).prunePosition")
	if entry == nil || prim == nil {
		r.MissingAnchor(rule, "(*MapPollard).Prune / prunePosition", "prune entry or the pruning primitive not found")
		return
	}
	reach := p.StaticReach(entry)
	reach[entry] = true
	n := 0
	for _, g := range sortedFuncs(p, reach) {
		if g == prim || g.Blocks == nil {
			continue
		}
		idx := 0
		for _, sc := range callsIn(p, g) {
			if sc.call.Common().StaticCallee() != prim {
				continue
			}
			h := innermostLoopHeader(sc.call.Block())
			if h == nil {
				continue
			}
			idx++
			n++
			key := fmt.Sprintf("%s/climb#%d/ends-at-root", p.FuncName(g), idx)
			loop := naturalLoop(h)
			bad := ""
			var at ssa.Instruction
			for blk := range loop {
				iff, ok := blk.Instrs[len(blk.Instrs)-1].(*ssa.If)
				if !ok {
					continue
				}
				exits := false
				for _, s := range blk.Succs {
					if !loop[s] {
						exits = true
					}
				}
				if !exits {
					continue
				}
				if dependsOn(iff.Cond, func(v ssa.Value) bool {
					ex, ok := v.(*ssa.Extract)
					if !ok {
						return false
					}
					c, ok := ex.Tuple.(*ssa.Call)
					if !ok {
						return false
					}
					k, m, _ := storeCall(p, c)
					return k != "" && m == "Get"
				}) {
					bad, at = "the result of a look-up in the node store / leaf index", iff
				}
			}
			if bad != "" {
				r.Violate(rule, key, posOf(p, at), "the climb from the pruned leaf to its root can stop on "+bad+": a leaf remembered when it was added has no stored ancestors, so the climb ends after the first level and the proof nodes higher up stay stored for ever", "in "+p.FuncName(g))
			} else {
				r.Discharge(rule, key, posOf(p, sc.call), "no exit of the climb depends on what is stored", true)
			}
		}
	}
	r.Floor(rule, "climb loops around the pruning primitive", n, 1)
}

// streamValuePred: a predicate "v was read off the stream" for fn: v derives
// from a load of a buffer that a stream read of fn filled, or from a decoding
// call that is given such a buffer.
func streamValuePred(p *Program, fn *ssa.Function) func(ssa.Value) bool {
	// values read off the stream: loads from a buffer that a stream read filled
	buffers := map[ssa.Value]bool{}
	for _, b := range fn.Blocks {
		for _, in := range b.Instrs {
			c, ok := in.(*ssa.Call)
			if !ok {
				continue
			}
			switch ioCallKind(p, c.Common()) {
			case "fullread", "rawread":
				for _, a := range c.Common().Args {
					if base := bufferBase(a); base != nil {
						buffers[base] = true
					}
				}
			}
		}
	}
	return func(v ssa.Value) bool {
		return flowsFrom(v, func(x ssa.Value) bool {
			u, ok := x.(*ssa.UnOp)
			if !ok || u.Op != token.MUL {
				return false
			}
			if ia, ok := u.X.(*ssa.IndexAddr); ok {
				return buffers[bufferBase(ia.X)] || buffers[ia.X]
			}
			return false
		}, 0, map[ssa.Value]bool{}) || flowsFrom(v, func(x ssa.Value) bool {
			// binary.LittleEndian.Uint64(buf[:])
			c, ok := x.(*ssa.Call)
			if !ok {
				return false
			}
			for _, a := range c.Common().Args {
				if base := bufferBase(a); base != nil && buffers[base] {
					return true
				}
			}
			return false
		}, 0, map[ssa.Value]bool{})
	}
}

// ---------------------------------------------------------------------------
// R13n RECORD-FIELDS-RESTORED. The node record of the map forest carries the
// hash and the keep flag. The restore loop stores, with every node, a keep
// flag that was read off the stream: a flag left at its zero value restores a
// forest that answers and proves like the original and then prunes the
// siblings its remembered leaves need at the next block.

func checkRecordFieldsRestored(p *Program, r *Report, rule string, entry string, floor int) {
	e := p.Func(entry)
	if e == nil {
		r.MissingAnchor(rule, entry, "restore function not found")
		return
	}
	n := 0
	for _, fn := range sortedFuncs(p, p.Reach(e)) {
		if fn.Blocks == nil || !p.owns(fn) {
			continue
		}
		fromStream := streamValuePred(p, fn)
		idx := 0
		for _, b := range fn.Blocks {
			for _, in := range b.Instrs {
				k, m, cc := storeCall(p, in)
				if k != "nodes" || m != "Put" || len(cc.Args) < 2 || innermostLoopHeader(b) == nil {
					continue
				}
				st, ok := cc.Args[1].Type().Underlying().(*types.Struct)
				if !ok {
					continue
				}
				for f := 0; f < st.NumFields(); f++ {
					if _, basic := st.Field(f).Type().Underlying().(*types.Basic); !basic {
						continue
					}
					idx++
					n++
					key := fmt.Sprintf("%s/nodes.Put/%s/from-stream#%d", p.FuncName(fn), st.Field(f).Name(), idx)
					got := false
					for _, o := range structFieldOrigins(cc.Args[1], st.Field(f).Name()) {
						v := o.val
						if fromStream(v) {
							got = true
						}
					}
					if got {
						r.Discharge(rule, key, posOf(p, in), "the field of the restored record is computed from bytes read off the stream", true)
					} else {
						r.Violate(rule, key, posOf(p, in), "the field "+st.Field(f).Name()+" of the node record is not restored from the stream (it keeps its zero value): the writer puts it on the wire, and the restored forest treats every node as not to be kept - it proves like the original until the next block prunes what its remembered leaves need", "in "+p.FuncName(fn))
					}
				}
			}
		}
	}
	r.Floor(rule, "scalar fields of the node records stored by the restore loop", n, floor)
}

// ---------------------------------------------------------------------------
// R14l SUBTRACTION-NOT-SKIPPED. Combining two proofs removes from the merged
// proof positions everything that is a target or computable in the union: a
// proof hash of one proof can be a target of the other. A subtraction step of
// the combining function may be skipped only when there is nothing to
// subtract (a test of the length of the list being subtracted); any other
// condition - "all targets are on the bottom row" - reasons about one proof
// and is wrong across two.

func checkSubtractionNotSkipped(p *Program, r *Report, rule string, name string, floor int) {
	fn := p.Func(name)
	if fn == nil {
		r.MissingAnchor(rule, name, "proof combination not found")
		return
	}
	n := 0
	for _, sc := range callsIn(p, fn) {
		callee := sc.call.Common().StaticCallee()
		if callee == nil || !p.owns(callee) || !strings.HasPrefix(baseName(p.FuncName(callee)), "subtractSorted") {
			continue
		}
		n++
		key := fmt.Sprintf("%s->%s#%d/unconditional", name, baseName(p.FuncName(callee)), n)
		args := sc.call.Common().Args
		bad := ""
		for _, g := range guardsAt(sc.call.Block()) {
			// allowed: a test of the length of the subtracted list (or of the list subtracted from)
			okGuard := dependsOn(g.Cond, func(v ssa.Value) bool {
				c, isCall := v.(*ssa.Call)
				if !isCall {
					return false
				}
				if b, isB := c.Common().Value.(*ssa.Builtin); !isB || b.Name() != "len" {
					// a Len() method of the struct of lists
					if sc2 := c.Common().StaticCallee(); sc2 == nil || sc2.Name() != "Len" {
						return false
					}
				}
				for _, a := range c.Common().Args {
					for _, x := range args {
						if a == x || sameValue(a, x) {
							return true
						}
					}
				}
				return false
			})
			onlyLen := okGuard && !dependsOn(g.Cond, func(v ssa.Value) bool {
				c, isCall := v.(*ssa.Call)
				if !isCall {
					return false
				}
				if _, isB := c.Common().Value.(*ssa.Builtin); isB {
					return false
				}
				sc2 := c.Common().StaticCallee()
				return sc2 == nil || sc2.Name() != "Len"
			})
			if !onlyLen {
				bad = "a condition that is not a test of the length of the subtracted list"
			}
		}
		if bad != "" {
			r.Violate(rule, key, posOf(p, sc.call), "this subtraction from the merged proof runs only under "+bad+": a proof hash of one proof can be a target (or computable) in the union even when the condition says there is nothing to do - the combined proof then carries hashes the canonical proof of the union does not have, and does not verify", "in "+name)
		} else {
			r.Discharge(rule, key, posOf(p, sc.call), "the subtraction runs on every path (or is skipped only when the subtracted list is empty)", true)
		}
	}
	r.Floor(rule, "subtraction steps of the proof combination", n, floor)
}
