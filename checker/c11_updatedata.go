package main

import (
	"fmt"
	"go/token"
	"go/types"

	"golang.org/x/tools/go/ssa"
)

// Anchors of the verifier-state update, resolved by role from
// (*Stump).Update: the delete phase is the fallible callee whose results feed
// UpdateData.NewDelHash/NewDelPos, the add phase is the callee whose results
// feed NewAddHash/NewAddPos/ToDestroy.

type updateAnchors struct {
	update           *ssa.Function
	delCall, addCall *ssa.Call
	del, add         *ssa.Function
	udStores         map[string]ssa.Value // UpdateData field name -> stored value
}

func resolveUpdateAnchors(p *Program) *updateAnchors {
	a := &updateAnchors{update: p.Func("(*Stump).Update"), udStores: map[string]ssa.Value{}}
	if a.update == nil {
		return a
	}
	for _, b := range a.update.Blocks {
		for _, in := range b.Instrs {
			st, ok := in.(*ssa.Store)
			if !ok {
				continue
			}
			fa, ok := st.Addr.(*ssa.FieldAddr)
			if !ok || !p.localNamed(fa.X.Type(), "UpdateData") {
				continue
			}
			a.udStores[fieldName(fa.X.Type(), fa.Field)] = st.Val
		}
	}
	callOf := func(v ssa.Value) *ssa.Call {
		if ex, ok := v.(*ssa.Extract); ok {
			if c, ok := ex.Tuple.(*ssa.Call); ok {
				return c
			}
		}
		if c, ok := v.(*ssa.Call); ok {
			return c
		}
		return nil
	}
	if v := a.udStores["NewAddHash"]; v != nil {
		a.addCall = callOf(v)
	}
	if v := a.udStores["NewDelHash"]; v != nil {
		a.delCall = callOf(v)
	}
	if a.addCall != nil {
		a.add = a.addCall.Common().StaticCallee()
	}
	if a.delCall != nil {
		a.del = a.delCall.Common().StaticCallee()
	}
	return a
}

// rangeLoopOver finds the range loop over slice value s in fn: returns the
// header block and the element value (load of &s[i]) of the body.
func rangeLoopOver(fn *ssa.Function, s ssa.Value) (*ssa.BasicBlock, []ssa.Value) {
	if h, e := rangeLoopOverRange(fn, s); h != nil {
		return h, e
	}
	// an index loop: for i := 0; i < len(s); i++ { ... s[i] ... } (the length may be hoisted into a local)
	for _, b := range fn.Blocks {
		if len(latches(b)) == 0 || len(b.Instrs) == 0 {
			continue
		}
		iff, ok := b.Instrs[len(b.Instrs)-1].(*ssa.If)
		if !ok {
			continue
		}
		bo, ok := iff.Cond.(*ssa.BinOp)
		if !ok || bo.Op != token.LSS {
			continue
		}
		ls, isLen := lenArg(bo.Y)
		ctr, isPhi := bo.X.(*ssa.Phi)
		if !isLen || ls != s || !isPhi || ctr.Block() != b {
			continue
		}
		var elems []ssa.Value
		for _, bb := range fn.Blocks {
			for _, in := range bb.Instrs {
				ia, ok := in.(*ssa.IndexAddr)
				if !ok || ia.X != s || ia.Index != ssa.Value(ctr) || ia.Referrers() == nil {
					continue
				}
				for _, ref := range *ia.Referrers() {
					if u, ok := ref.(*ssa.UnOp); ok && u.Op == token.MUL {
						elems = append(elems, u)
					}
				}
			}
		}
		if len(elems) > 0 {
			return b, elems
		}
	}
	return nil, nil
}

func rangeLoopOverRange(fn *ssa.Function, s ssa.Value) (*ssa.BasicBlock, []ssa.Value) {
	var header *ssa.BasicBlock
	var elems []ssa.Value
	for _, b := range fn.Blocks {
		for _, in := range b.Instrs {
			ia, ok := in.(*ssa.IndexAddr)
			if !ok || ia.X != s {
				continue
			}
			// index must be the range counter: phi(-1, i+1) + 1
			bo, ok := ia.Index.(*ssa.BinOp)
			if !ok || bo.Op != token.ADD {
				continue
			}
			phi, ok := bo.X.(*ssa.Phi)
			if !ok {
				continue
			}
			header = phi.Block()
			for _, ref := range *ia.Referrers() {
				if u, ok := ref.(*ssa.UnOp); ok && u.Op == token.MUL {
					elems = append(elems, u)
				}
			}
		}
	}
	return header, elems
}

// latches returns the sources of back edges into header.
func latches(header *ssa.BasicBlock) []*ssa.BasicBlock {
	var out []*ssa.BasicBlock
	for _, pr := range header.Preds {
		if header.Dominates(pr) {
			out = append(out, pr)
		}
	}
	return out
}

func runC11(p *Program, r *Report) {
	r.Rule("R11a", "MUST-RECORD: every added leaf is recorded in the update data on every path through the add loop")
	r.Rule("R11b", "PREV-COUNT-BEFORE-ADD: PrevNumLeaves is read before the add phase increments the leaf count")
	r.Rule("R11c", "SORT-BEFORE-RETURN: the add lists are sorted after the last insertion on every path to the return")
	r.Rule("R11d", "DESTROY-FROM-PRE-STATE: ToDestroy is computed from the state before any write of the add phase")
	r.Rule("R11e", "DEL-DATA-FROM-POST-DELETION-RUN: NewDelHash/NewDelPos come from the run of the hashing core with emptied targets")
	a := resolveUpdateAnchors(p)
	if a.update == nil {
		r.MissingAnchor("R11a", "(*Stump).Update", "verifier-state update not found")
		return
	}
	if a.add == nil || a.del == nil {
		r.Undecided("R11a", "anchor:phases", p.Pos(a.update.Pos()), "cannot resolve the delete / add phase from the UpdateData built by (*Stump).Update")
		return
	}
	checkMustRecord(p, r, a, "R11a")
	checkPrevCount(p, r, a)
	checkSortBeforeReturn(p, r, a)
	checkDestroyPreState(p, r, a)
	checkDelData(p, r, a)
	r.Rule("R11h", "FULL-HASH-KEYS: the verifier-state update never identifies a node by a truncated hash (two added leaves, or a leaf and a root, with a common 12-byte prefix would collapse into one entry of the update data)")
	checkFullHashKeys(p, r, "R11h", "(*Stump).Update", []string{"(*Stump).Update"})
	r.Rule("R11j", "NO-COUNT-NARROWING: under Stump.Update no count taken from a length is converted to a narrower integer type (a block with 65536 or more additions would be truncated silently)")
	checkNoCountNarrowing(p, r, "R11j", []string{"(*Stump).Update"})
	r.Rule("R11k", "SIBLING-SIMULATIONS-AGREE: the verifier's and the tracker's simulation of the empty roots that additions write over have the same control structure over their inputs (early exits, loop bounds, the test under which a position is recorded)")
	checkSiblingSimulations(p, r, "R11k", "rootsToDestory", "rootInfoToDestroy")
	r.Rule("R11i", "LEAF-COUNT-MONOTONE: under Stump.Update every store into the leaf count is an increment of its own value (PrevNumLeaves and the reported positions are those of the forest with every leaf ever added)")
	checkLeafCountMonotone(p, r, "R11i", []string{"(*Stump).Update"})
	r.Rule("R11f", "SUCCESS-RETURNS-DATA: every success return of the verifier-state update hands out the UpdateData whose fields were all stored")
	checkSuccessReturnsData(p, r, "R11f")
}

// checkMustRecord: R11a (also R07b).
func checkMustRecord(p *Program, r *Report, a *updateAnchors, rule string) {
	add := a.add
	name := p.FuncName(add)
	// the added-hashes parameter: the []Hash parameter of the add phase
	var adds ssa.Value
	for _, par := range add.Params {
		if isHashSlice(par.Type()) {
			adds = par
		}
	}
	if adds == nil {
		r.Undecided(rule, name+"/record", p.Pos(add.Pos()), "the add phase has no []Hash parameter")
		return
	}
	header, elems := rangeLoopOver(add, adds)
	if header == nil || len(elems) == 0 {
		r.Undecided(rule, name+"/record", p.Pos(add.Pos()), "cannot find the loop over the added hashes")
		return
	}
	isElem := map[ssa.Value]bool{}
	for _, e := range elems {
		isElem[e] = true
	}
	// recording instructions: a map update keyed by the element, or a call that
	// receives the element (Append-style recording)
	var records []ssa.Instruction
	for _, b := range add.Blocks {
		if !header.Dominates(b) {
			continue
		}
		for _, in := range b.Instrs {
			switch x := in.(type) {
			case *ssa.MapUpdate:
				if isElem[x.Key] {
					records = append(records, x)
				}
			case *ssa.Call:
				if sc := x.Common().StaticCallee(); sc != nil && p.owns(sc) && sc.Signature.Recv() != nil {
					for _, arg := range x.Common().Args {
						if isElem[arg] {
							records = append(records, x)
						}
					}
				}
			}
		}
	}
	ls := latches(header)
	if len(ls) == 0 {
		r.Undecided(rule, name+"/record", p.Pos(add.Pos()), "the loop over the added hashes has no latch")
		return
	}
	for _, l := range ls {
		ok := false
		for _, rec := range records {
			if rec.Block() == l || rec.Block().Dominates(l) {
				ok = true
			}
		}
		if !ok {
			r.Violate(rule, name+"/record", posOf(p, l.Instrs[len(l.Instrs)-1]),
				fmt.Sprintf("a path through the body of the loop over the added hashes reaches the next iteration without recording the added leaf itself (%d conditional recording site(s) found): a leaf that is not hashed with a non-empty root is missing from NewAddHash/NewAddPos", len(records)), "in "+name)
			return
		}
	}
	r.Discharge(rule, name+"/record", posOf(p, records[0]), "a record keyed by the loop element dominates every latch of the loop over the added hashes", true)
	if rule == "R11a" {
		checkRecordAfterLift(p, r, "R11g", add, header, records)
	} else {
		checkRecordAfterLift(p, r, "R07e", add, header, records)
	}
}

// checkRecordAfterLift (R11g): additions that overwrite empty roots lift the
// new leaf to a higher position before it is merged. Where the add loop calls
// a position-moving function (pos, del, rows) -> (pos, error) on the leaf's
// position, the position recorded for the leaf itself must be computed after
// that call - it has to depend on its result.
func checkRecordAfterLift(p *Program, r *Report, rid string, add *ssa.Function, header *ssa.BasicBlock, records []ssa.Instruction) {
	r.Rule(rid, "RECORD-AFTER-LIFT: the position recorded for an added leaf depends on the result of the call that lifts the leaf over the empty roots the additions overwrite")
	name := p.FuncName(add)
	var lifts []*ssa.Call
	for _, b := range add.Blocks {
		if !header.Dominates(b) {
			continue
		}
		for _, in := range b.Instrs {
			c, ok := in.(*ssa.Call)
			if !ok {
				continue
			}
			sc := c.Common().StaticCallee()
			if sc == nil || !p.owns(sc) {
				continue
			}
			sig := sc.Signature
			if sig.Params().Len() == 3 && isUint64(sig.Params().At(0).Type()) && isUint64(sig.Params().At(1).Type()) && isUint8(sig.Params().At(2).Type()) &&
				sig.Results().Len() == 2 && isUint64(sig.Results().At(0).Type()) && isErrorType(sig.Results().At(1).Type()) {
				lifts = append(lifts, c)
			}
		}
	}
	key := name + "/record-position"
	if len(lifts) == 0 {
		r.Discharge(rid, key, p.Pos(add.Pos()), "the add loop lifts no position before recording", false)
		return
	}
	for _, rec := range records {
		mu, ok := rec.(*ssa.MapUpdate)
		if !ok {
			continue
		}
		dep := derivesFrom(mu.Value, func(x ssa.Value) bool {
			ex, ok := x.(*ssa.Extract)
			if !ok {
				return false
			}
			for _, l := range lifts {
				if ex.Tuple == ssa.Value(l) {
					return true
				}
			}
			return false
		}, 10)
		if dep {
			r.Discharge(rid, key, posOf(p, rec), "the recorded position flows from the result of the lifting call", true)
			return
		}
	}
	r.Violate(rid, key, posOf(p, records[0]), "the position recorded for the added leaf does not depend on the call that lifts it over overwritten empty roots: a leaf that ends as a lone root above row 0 is reported at its unlifted position", "in "+name)
}

func checkPrevCount(p *Program, r *Report, a *updateAnchors) {
	key := "(*Stump).Update/PrevNumLeaves"
	v := a.udStores["PrevNumLeaves"]
	if v == nil {
		r.Undecided("R11b", key, p.Pos(a.update.Pos()), "UpdateData.PrevNumLeaves is not set by a store in Update")
		return
	}
	ld, ok := v.(*ssa.UnOp)
	base, f, okf := fieldRead(v)
	if !ok || !okf || f != "NumLeaves" {
		r.Violate("R11b", key, p.Pos(v.Pos()), "PrevNumLeaves is not a read of the stump's NumLeaves", "in (*Stump).Update")
		return
	}
	_ = base
	switch {
	case !dominatesInstr(ld, a.addCall):
		r.Violate("R11b", key, posOf(p, ld), "NumLeaves is read after the add phase (which increments it): PrevNumLeaves would be the count after the additions", "in (*Stump).Update")
	default:
		r.Discharge("R11b", key, posOf(p, ld), "the read of NumLeaves dominates the add phase, the only writer of the leaf count (the delete phase does not write it: R04a write inventory)", true)
	}
}

func checkSortBeforeReturn(p *Program, r *Report, a *updateAnchors) {
	add := a.add
	name := p.FuncName(add)
	key := name + "/sorted"
	rets := returnsOf(add)
	if len(rets) == 0 {
		r.Undecided("R11c", key, p.Pos(add.Pos()), "no return")
		return
	}
	for _, ret := range rets {
		ops := retOperands(ret)
		// the struct (local) both add lists are read from
		var holder ssa.Value
		for i := 0; i < 2 && i < len(ops); i++ {
			if base, _, ok := fieldRead(ops[i]); ok {
				holder = base
			}
		}
		if holder == nil {
			r.Undecided("R11c", key, posOf(p, ret), "the add lists are not read from a single hashAndPos value")
			return
		}
		// a sort call on (a load of) holder that dominates the return
		var sortCall *ssa.Call
		for _, b := range add.Blocks {
			for _, in := range b.Instrs {
				c, ok := in.(*ssa.Call)
				if !ok {
					continue
				}
				f := calleeFunc(c.Common())
				if f == nil || f.Pkg() == nil {
					continue
				}
				isSort := (f.Pkg().Path() == "sort" && (f.Name() == "Sort" || f.Name() == "Stable")) ||
					((f.Pkg().Path() == "slices" || f.Pkg().Path() == "golang.org/x/exp/slices") && (f.Name() == "SortFunc" || f.Name() == "Sort" || f.Name() == "SortStableFunc"))
				if !isSort || len(c.Common().Args) == 0 {
					continue
				}
				arg := stripValue(c.Common().Args[0])
				if u, ok := arg.(*ssa.UnOp); ok && u.X == holder && dominatesInstr(c, ret) {
					sortCall = c
				}
			}
		}
		if sortCall == nil {
			r.Violate("R11c", key, posOf(p, ret), "the add lists come out of a map (random iteration order) and no sort of them dominates the return", "in "+name)
			return
		}
		// no insertion into holder after the sort
		for _, b := range add.Blocks {
			for _, in := range b.Instrs {
				c, ok := in.(*ssa.Call)
				if !ok || c == sortCall || len(c.Common().Args) == 0 || c.Common().Args[0] != holder {
					continue
				}
				if canReach(sortCall, c) {
					r.Violate("R11c", key, posOf(p, c), "an insertion into the add lists can happen after they were sorted", "in "+name)
					return
				}
			}
		}
		r.Discharge("R11c", key, posOf(p, sortCall), "a sort of the add lists dominates the return and no insertion follows it", true)
	}
}

func checkDestroyPreState(p *Program, r *Report, a *updateAnchors) {
	add := a.add
	name := p.FuncName(add)
	key := name + "/ToDestroy"
	v := a.udStores["ToDestroy"]
	ex, ok := v.(*ssa.Extract)
	if !ok || ex.Tuple != ssa.Value(a.addCall) {
		r.Undecided("R11d", key, p.Pos(a.update.Pos()), "ToDestroy is not a result of the add phase")
		return
	}
	aa := &atomicAnalysis{p: p, memo: map[string][]writeSite{}, busy: map[string]bool{}}
	writes := aa.stateWrites(add, 0)
	for _, ret := range returnsOf(add) {
		rv := retOperands(ret)[ex.Index]
		c, ok := rv.(*ssa.Call)
		if !ok {
			r.Undecided("R11d", key, posOf(p, ret), "the destroyed-roots result is not the direct result of a call")
			return
		}
		for _, w := range writes {
			if !dominatesInstr(c, w.in) {
				r.Violate("R11d", key, posOf(p, c), fmt.Sprintf("the destroyed-roots list is computed after (or not before) a write to the stump at %s: it must describe the empty roots of the state before the additions", posOf(p, w.in)), "in "+name)
				return
			}
		}
		// its arguments read the receiver's state
		readsState := false
		for _, arg := range c.Common().Args {
			if derivesFrom(arg, func(x ssa.Value) bool { _, f, ok := fieldRead(x); return ok && (f == "Roots" || f == "NumLeaves") }, 6) {
				readsState = true
			}
		}
		if !readsState {
			r.Violate("R11d", key, posOf(p, c), "the destroyed-roots list is not computed from the stump's roots / leaf count", "in "+name)
			return
		}
		r.Discharge("R11d", key, posOf(p, c), fmt.Sprintf("computed from the stump's state by a call that dominates all %d state writes of the add phase", len(writes)), true)
	}
}

func checkDelData(p *Program, r *Report, a *updateAnchors) {
	del := a.del
	name := p.FuncName(del)
	key := name + "/NewDel"
	va := resolveVerifyAnchors(p)
	if va.core == nil {
		r.Undecided("R11e", key, p.Pos(del.Pos()), "verification core not resolved")
		return
	}
	for _, ret := range successReturns(del) {
		ops := retOperands(ret)
		for i := 0; i < 2 && i < len(ops); i++ {
			base, _, ok := fieldRead(ops[i])
			if !ok {
				r.Undecided("R11e", key, posOf(p, ret), "the delete lists are not fields of a hashAndPos value")
				return
			}
			// base (a local) is assigned from result 0 of a core call with nil hashes
			var src *ssa.Call
			if al, ok := base.(*ssa.Alloc); ok {
				for _, ref := range *al.Referrers() {
					if st, ok := ref.(*ssa.Store); ok && st.Addr == al {
						if ex, ok := st.Val.(*ssa.Extract); ok && ex.Index == 0 {
							src, _ = ex.Tuple.(*ssa.Call)
						}
					}
				}
			} else if ex, ok := base.(*ssa.Extract); ok && ex.Index == 0 {
				src, _ = ex.Tuple.(*ssa.Call)
			}
			if src == nil || src.Common().StaticCallee() != va.core {
				r.Violate("R11e", key, posOf(p, ret), "the delete lists do not come from the hashing core", "in "+name)
				return
			}
			nilHashes := false
			for _, arg := range src.Common().Args {
				if isHashSlice(arg.Type()) && isNilConst(arg) {
					nilHashes = true
				}
			}
			if !nilHashes {
				r.Violate("R11e", key, posOf(p, src), "the delete lists come from the run of the hashing core on the real target hashes (pre-deletion values) instead of the run with emptied targets", "in "+name)
				return
			}
		}
	}
	r.Discharge("R11e", key, p.Pos(del.Pos()), "both delete lists are read from result 0 of the core run with nil (emptied) target hashes", true)
}

// ---------------------------------------------------------------------------
// C07.

func runC07(p *Program, r *Report) {
	r.Rule("R07a", "WIRING: the cached-proof update feeds its remove phase from NewDelPos/NewDelHash and its add phase from NewAddPos/NewAddHash, PrevNumLeaves and ToDestroy")
	r.Rule("R07b", "MUST-RECORD (=R11a): every added leaf is listed in the update data, the only place remembered leaves get their position from")
	r.Rule("R07c", "PHASE-ORDER: the cached proof is updated for the deletions before the additions, and the add phase works on the hashes the remove phase returned")
	a := resolveUpdateAnchors(p)
	if a.update != nil && a.add != nil {
		checkMustRecord(p, r, a, "R07b")
	} else {
		r.MissingAnchor("R07b", "(*Stump).Update", "verifier-state update not found")
	}
	upd := p.Func("(*Proof).Update")
	if upd == nil {
		r.MissingAnchor("R07a", "(*Proof).Update", "cached-proof update not found")
		return
	}
	// the two phase calls: methods on the same receiver taking a hashAndPos built from UpdateData fields
	type phase struct {
		call   *ssa.Call
		fields map[string]bool
	}
	var phases []phase
	udParam := -1
	for i, par := range upd.Params {
		if p.localNamed(par.Type(), "UpdateData") {
			udParam = i
		}
	}
	for _, sc := range callsIn(p, upd) {
		callee := sc.call.Common().StaticCallee()
		if callee == nil || !p.owns(callee) || callee.Signature.Recv() == nil {
			continue
		}
		ph := phase{call: sc.call, fields: map[string]bool{}}
		for _, arg := range sc.call.Common().Args {
			collectUDFields(upd, arg, udParam, ph.fields, 0)
		}
		if len(ph.fields) > 0 {
			phases = append(phases, ph)
		}
	}
	if len(phases) != 2 {
		r.Undecided("R07a", "(*Proof).Update/phases", p.Pos(upd.Pos()), fmt.Sprintf("expected two phase calls fed from UpdateData, found %d", len(phases)))
		return
	}
	rem, add := phases[0], phases[1]
	if rem.fields["NewAddPos"] || rem.fields["NewAddHash"] {
		rem, add = add, rem
	}
	want := func(ph phase, rule, key string, need []string, forbid []string) {
		for _, n := range need {
			if !ph.fields[n] {
				r.Violate(rule, key, posOf(p, ph.call), "phase is not fed from UpdateData."+n, "in (*Proof).Update")
				return
			}
		}
		for _, n := range forbid {
			if ph.fields[n] {
				r.Violate(rule, key, posOf(p, ph.call), "phase is fed from UpdateData."+n+", which belongs to the other phase", "in (*Proof).Update")
				return
			}
		}
		r.Discharge(rule, key, posOf(p, ph.call), fmt.Sprintf("fed from UpdateData fields %v", sortedKeys(ph.fields)), true)
	}
	want(rem, "R07a", "(*Proof).Update/remove-phase", []string{"NewDelPos", "NewDelHash", "PrevNumLeaves"}, []string{"NewAddPos", "NewAddHash", "ToDestroy"})
	want(add, "R07a", "(*Proof).Update/add-phase", []string{"NewAddPos", "NewAddHash", "PrevNumLeaves", "ToDestroy"}, []string{"NewDelPos", "NewDelHash"})
	// positions paired with positions, hashes with hashes
	for _, ph := range []phase{rem, add} {
		checkPairWiring(p, r, upd, ph.call, udParam)
	}
	// R07c
	key := "(*Proof).Update/order"
	if !dominatesInstr(rem.call, add.call) {
		r.Violate("R07c", key, posOf(p, add.call), "the add phase does not run after the remove phase", "in (*Proof).Update")
		return
	}
	// the add phase receives the hashes returned by the remove phase
	usesResult := false
	for _, arg := range add.call.Common().Args {
		if arg == ssa.Value(rem.call) {
			usesResult = true
		}
		if ex, ok := arg.(*ssa.Extract); ok && ex.Tuple == ssa.Value(rem.call) {
			usesResult = true
		}
	}
	if !usesResult {
		r.Violate("R07c", key, posOf(p, add.call), "the add phase does not work on the cached hashes returned by the remove phase", "in (*Proof).Update")
		return
	}
	r.Discharge("R07c", key, posOf(p, add.call), "remove phase dominates the add phase, which receives the remove phase's result", true)
	r.Rule("R07f", "FULL-HASH-KEYS: the cached-proof update and undo never identify a leaf by a truncated hash (the 12-byte map key of the pointer forest): two different leaves with a common prefix would be taken for each other")
	checkFullHashKeys(p, r, "R07f", "(*Proof).Update+Undo", []string{"(*Proof).Update", "(*Proof).Undo"})
	r.Rule("R07d", "NO-ARITHMETIC-POSITIONS: in the add phase of the cached-proof update no position list computed from the leaf count selects from the update-data nodes (remembered leaves are found by hash)")
	if g := add.call.Common().StaticCallee(); g != nil {
		checkNoArithmeticPositions(p, r, "R07d", g)
	}
	r.Rule("R07h", "MERGE-WALK-SORTED: a list parameter that the cached-proof update walks with a forward-only cursor against a loop counter (one side of a merge) is sorted on its way from the exported entry")
	checkMergeWalkSorted(p, r, "R07h", "(*Proof).Update")
	if e := p.Func("(*Proof).Update"); e != nil {
		checkThreadedState(p, r, "R07i", []*ssa.Function{e}, 2)
	}
	r.Rule("R07g", "DISCARDED-ERRORS-EXCLUDED: in the cached-proof update every discarded error of a position function is excluded by a dominating guard (or reviewed lemma) covering EVERY failing return of the callee - a failing call hands back position 0, with which the held leaf would silently be paired")
	scope := p.StaticReach(upd)
	scope[upd] = true
	runDiscardGuardIn(p, r, resolveVerifyAnchors(p), "R07g", scope, "the cached-proof update", 1)
}

// checkFullHashKeys: no call reachable from the entries returns a truncated
// hash (a byte array of the package shorter than a full hash).
func checkFullHashKeys(p *Program, r *Report, rule, label string, names []string) {
	var entries []*ssa.Function
	for _, n := range names {
		if f := p.Func(n); f != nil {
			entries = append(entries, f)
		} else {
			r.MissingAnchor(rule, n, "entry not found")
		}
	}
	if len(entries) == 0 {
		return
	}
	var hit ssa.Instruction
	nCalls := 0
	for _, g := range sortedFuncs(p, p.StaticReach(entries...)) {
		for _, sc := range callsIn(p, g) {
			nCalls++
			res := sc.call.Common().Signature().Results()
			for i := 0; i < res.Len(); i++ {
				if nt := namedOf(res.At(i).Type()); nt != nil && nt.Obj().Pkg() == p.Types {
					if arr, ok := nt.Underlying().(*types.Array); ok && arr.Len() < 32 {
						if bt, ok := arr.Elem().Underlying().(*types.Basic); ok && bt.Kind() == types.Byte && hit == nil {
							hit = sc.call
						}
					}
				}
			}
		}
	}
	key := label + "/truncated-hash"
	if hit != nil {
		r.Violate(rule, key, posOf(p, hit), "a truncated hash is computed on this path (in "+p.FuncName(hit.Parent())+"): nodes are identified by less than their full hash, so two different nodes with a common prefix are taken for each other", "in "+p.FuncName(hit.Parent()))
	} else {
		r.Discharge(rule, key, p.Pos(entries[0].Pos()), fmt.Sprintf("none of the %d calls reachable from %s returns a truncated hash", nCalls, label), true)
	}
}

// collectUDFields records which UpdateData fields (of parameter udParam) v is built from.
func collectUDFields(fn *ssa.Function, v ssa.Value, udParam int, into map[string]bool, depth int) {
	if depth > 6 || v == nil {
		return
	}
	if base, f, ok := fieldRead(v); ok {
		if i, ok := paramOf(fn, base); ok && i == udParam {
			into[f] = true
			return
		}
		if al, ok := base.(*ssa.Alloc); ok {
			if i, ok := spillOfParam(fn, al); ok && i == udParam {
				into[f] = true
				return
			}
		}
	}
	switch x := v.(type) {
	case *ssa.UnOp:
		if al, ok := x.X.(*ssa.Alloc); ok { // composite literal local: look at the stores into its fields
			for _, ref := range *al.Referrers() {
				if fa, ok := ref.(*ssa.FieldAddr); ok {
					for _, rr := range *fa.Referrers() {
						if st, ok := rr.(*ssa.Store); ok && st.Addr == fa {
							collectUDFields(fn, st.Val, udParam, into, depth+1)
						}
					}
				}
			}
		}
	case *ssa.Convert:
		collectUDFields(fn, x.X, udParam, into, depth+1)
	}
}

// checkPairWiring: in a hashAndPos literal passed to a phase, the positions
// field is fed from a ...Pos field and the hashes field from the matching ...Hash field.
func checkPairWiring(p *Program, r *Report, fn *ssa.Function, call *ssa.Call, udParam int) {
	for _, arg := range call.Common().Args {
		u, ok := arg.(*ssa.UnOp)
		if !ok {
			continue
		}
		al, ok := u.X.(*ssa.Alloc)
		if !ok || !p.localNamed(al.Type(), "hashAndPos") {
			continue
		}
		got := map[string]string{}
		for _, ref := range *al.Referrers() {
			fa, ok := ref.(*ssa.FieldAddr)
			if !ok {
				continue
			}
			for _, rr := range *fa.Referrers() {
				if st, ok := rr.(*ssa.Store); ok && st.Addr == fa {
					fs := map[string]bool{}
					collectUDFields(fn, st.Val, udParam, fs, 0)
					for f := range fs {
						got[fieldName(al.Type(), fa.Field)] = f
					}
				}
			}
		}
		key := fmt.Sprintf("(*Proof).Update/pair(%s,%s)", got["positions"], got["hashes"])
		pos, hs := got["positions"], got["hashes"]
		if len(pos) > 3 && len(hs) > 4 && pos[len(pos)-3:] == "Pos" && hs[len(hs)-4:] == "Hash" && pos[:len(pos)-3] == hs[:len(hs)-4] {
			r.Discharge("R07a", key, posOf(p, call), "positions and hashes of the same UpdateData list are paired", true)
		} else {
			r.Violate("R07a", key, posOf(p, call), "a hashAndPos is built from mismatched UpdateData fields", "in (*Proof).Update")
		}
	}
}

var _ = types.Typ
