package main

import (
	"fmt"
	"go/token"
	"go/types"
	"sort"

	"golang.org/x/tools/go/ssa"
)

// E5: who-may-insert discipline for the leaf indexes.
//
// A leaf index is (a) an interface declared in the package with a method
// Put(Hash, ...) — the hash-keyed cache of the map forest — or (b) a map field
// of a package struct whose key is a byte-array type declared in the package
// other than through such an interface's implementation (the pointer
// forest's NodeMap).

type leafInsert struct {
	in    ssa.Instruction
	key   ssa.Value
	pos   ssa.Value // position argument (interface Put), nil for maps
	index string
	kind  string // "put" | "mapupdate"
}

func isByteArrayNamed(p *Program, t types.Type) bool {
	n, ok := types.Unalias(t).(*types.Named)
	if !ok || n.Obj().Pkg() != p.Types {
		return false
	}
	arr, ok := n.Underlying().(*types.Array)
	if !ok {
		return false
	}
	b, ok := arr.Elem().Underlying().(*types.Basic)
	return ok && b.Kind() == types.Byte
}

// hashKeyedIface reports whether t is an interface of the package with Put(<byte array>, ...).
func hashKeyedIface(p *Program, t types.Type) bool {
	n := namedOf(t)
	if n == nil || n.Obj().Pkg() != p.Types {
		return false
	}
	it, ok := n.Underlying().(*types.Interface)
	if !ok {
		return false
	}
	for i := 0; i < it.NumMethods(); i++ {
		m := it.Method(i)
		sig := m.Type().(*types.Signature)
		if m.Name() == "Put" && sig.Params().Len() >= 1 && isByteArrayNamed(p, sig.Params().At(0).Type()) {
			return true
		}
	}
	return false
}

// implementsHashKeyed: fn is a method of a type implementing a hash-keyed index interface.
func implementsHashKeyed(p *Program, fn *ssa.Function) bool {
	recv := fn.Signature.Recv()
	if recv == nil {
		return false
	}
	scope := p.Types.Scope()
	for _, name := range scope.Names() {
		tn, ok := scope.Lookup(name).(*types.TypeName)
		if !ok || !hashKeyedIface(p, tn.Type()) {
			continue
		}
		if types.Implements(recv.Type(), tn.Type().Underlying().(*types.Interface)) {
			return true
		}
	}
	return false
}

func leafInserts(p *Program) []leafInsert {
	var out []leafInsert
	for _, fn := range p.Funcs {
		if implementsHashKeyed(p, fn) {
			continue
		}
		for _, b := range fn.Blocks {
			for _, in := range b.Instrs {
				switch x := in.(type) {
				case *ssa.Call:
					cc := x.Common()
					if cc.IsInvoke() && cc.Method.Name() == "Put" && hashKeyedIface(p, cc.Value.Type()) && len(cc.Args) >= 1 {
						li := leafInsert{in: x, key: cc.Args[0], index: namedOf(cc.Value.Type()).Obj().Name(), kind: "put"}
						if len(cc.Args) >= 2 {
							li.pos = cc.Args[1]
						}
						out = append(out, li)
					}
				case *ssa.MapUpdate:
					mt, ok := x.Map.Type().Underlying().(*types.Map)
					if !ok || !isByteArrayNamed(p, mt.Key()) {
						continue
					}
					if _, f, ok := fieldRead(x.Map); ok {
						out = append(out, leafInsert{in: x, key: x.Key, index: f, kind: "mapupdate"})
					}
				}
			}
		}
	}
	sort.SliceStable(out, func(i, j int) bool { return out[i].in.Pos() < out[j].in.Pos() })
	return out
}

// sameExpr: a and b are the same pure expression over the same SSA values
// (loads of the same address, the same field of the same base, calls of the
// same function on the same arguments).
func sameExpr(a, b ssa.Value, depth int) bool {
	if a == b {
		return true
	}
	if a == nil || b == nil || depth > 8 {
		return false
	}
	switch x := a.(type) {
	case *ssa.UnOp:
		y, ok := b.(*ssa.UnOp)
		return ok && x.Op == y.Op && sameExpr(x.X, y.X, depth+1)
	case *ssa.FieldAddr:
		y, ok := b.(*ssa.FieldAddr)
		return ok && x.Field == y.Field && sameExpr(x.X, y.X, depth+1)
	case *ssa.Field:
		y, ok := b.(*ssa.Field)
		return ok && x.Field == y.Field && sameExpr(x.X, y.X, depth+1)
	case *ssa.IndexAddr:
		y, ok := b.(*ssa.IndexAddr)
		return ok && sameExpr(x.X, y.X, depth+1) && sameExpr(x.Index, y.Index, depth+1)
	case *ssa.Call:
		y, ok := b.(*ssa.Call)
		if !ok || x.Common().StaticCallee() == nil || x.Common().StaticCallee() != y.Common().StaticCallee() {
			return false
		}
		if len(x.Common().Args) != len(y.Common().Args) {
			return false
		}
		for i := range x.Common().Args {
			if !sameExpr(x.Common().Args[i], y.Common().Args[i], depth+1) {
				return false
			}
		}
		return true
	case *ssa.Const:
		y, ok := b.(*ssa.Const)
		return ok && x.Value == y.Value && types.Identical(x.Type(), y.Type())
	}
	return false
}

// updateOnly: the insertion is dominated by the found-edge of a lookup of the
// same key in the same index — it can only move an existing entry.
func updateOnly(p *Program, li leafInsert) (bool, string) {
	for _, g := range guardsAtInstr(li.in) {
		if !g.Truth {
			continue
		}
		ex, ok := g.Cond.(*ssa.Extract)
		if !ok || ex.Index != 1 {
			continue
		}
		switch lk := ex.Tuple.(type) {
		case *ssa.Call:
			cc := lk.Common()
			if cc.IsInvoke() && cc.Method.Name() == "Get" && hashKeyedIface(p, cc.Value.Type()) && len(cc.Args) == 1 && li.kind == "put" {
				if sameExpr(cc.Args[0], li.key, 0) {
					return true, "dominated by the found-edge of Get on the same key"
				}
			}
		case *ssa.Lookup:
			if li.kind == "mapupdate" && lk.CommaOk && sameExpr(lk.Index, li.key, 0) {
				if mu, ok := li.in.(*ssa.MapUpdate); ok && sameExpr(lk.X, mu.Map, 0) {
					return true, "dominated by the found-edge of a lookup of the same key in the same map"
				}
			}
		}
	}
	return false, ""
}

// foreachKey: the insertion happens inside a callback handed to ForEach of a
// hash-keyed index and its key is the callback's key parameter.
func foreachKey(p *Program, li leafInsert) bool {
	fn := li.in.Parent()
	if fn.Parent() == nil || len(fn.Params) == 0 || li.key != ssa.Value(fn.Params[0]) {
		return false
	}
	par := fn.Parent()
	for _, b := range par.Blocks {
		for _, in := range b.Instrs {
			c, ok := in.(*ssa.Call)
			if !ok || !c.Common().IsInvoke() || c.Common().Method.Name() != "ForEach" || !hashKeyedIface(p, c.Common().Value.Type()) {
				continue
			}
			for _, a := range c.Common().Args {
				if funcValue(a) == fn {
					return true
				}
			}
		}
	}
	return false
}

// leafParamProvenance traces a key back to a leaf-hash parameter of an
// exported API function (Hash, []Hash, Leaf, []Leaf).
func leafParamProvenance(p *Program, v ssa.Value, fn *ssa.Function, depth int, seen map[ssa.Value]bool) (bool, string) {
	if depth > 6 || v == nil || seen[v] {
		return false, ""
	}
	seen[v] = true
	switch x := v.(type) {
	case *ssa.Call:
		// h.mini() and similar pure projections of a hash
		if sc := x.Common().StaticCallee(); sc != nil && p.owns(sc) && sc.Signature.Recv() != nil && len(x.Common().Args) == 1 &&
			isByteArrayNamed(p, sc.Signature.Recv().Type()) && isByteArrayNamed(p, sc.Signature.Results().At(0).Type()) {
			return leafParamProvenance(p, x.Common().Args[0], fn, depth, seen)
		}
		return false, ""
	case *ssa.Field:
		return leafParamProvenance(p, x.X, fn, depth, seen)
	case *ssa.UnOp:
		if x.Op != token.MUL {
			return false, ""
		}
		switch a := x.X.(type) {
		case *ssa.FieldAddr:
			return leafParamProvenance(p, a.X, fn, depth, seen)
		case *ssa.IndexAddr:
			return leafParamProvenance(p, a.X, fn, depth, seen)
		case *ssa.Alloc:
			return leafParamProvenance(p, a, fn, depth, seen)
		case *ssa.FreeVar:
			return leafParamProvenance(p, a, fn, depth, seen)
		}
		return false, ""
	case *ssa.Alloc:
		// a local variable: every value stored into it must be a leaf hash from the API
		n := 0
		why := ""
		for _, ref := range *x.Referrers() {
			st, ok := ref.(*ssa.Store)
			if !ok || st.Addr != x {
				continue
			}
			n++
			ok2, w := leafParamProvenance(p, st.Val, fn, depth, seen)
			if !ok2 {
				return false, ""
			}
			why = w
		}
		return n > 0, why
	case *ssa.Phi:
		why := ""
		for _, e := range x.Edges {
			ok, w := leafParamProvenance(p, e, fn, depth, seen)
			if !ok {
				return false, ""
			}
			why = w
		}
		return why != "", why
	case *ssa.Parameter:
		t := x.Type()
		leafish := func(t types.Type) bool {
			if sl, ok := t.Underlying().(*types.Slice); ok {
				t = sl.Elem()
			}
			return isHashType(t) || p.localNamed(t, "Leaf")
		}
		if !leafish(t) {
			return false, ""
		}
		if fn.Parent() == nil && fn.Object() != nil && fn.Object().Exported() {
			return true, fmt.Sprintf("parameter %s of the exported %s", x.Name(), p.FuncName(fn))
		}
		// unexported: every call site must pass a leaf-hash parameter
		idx := -1
		for i, par := range fn.Params {
			if par == x {
				idx = i
			}
		}
		callers := 0
		why := ""
		for _, g := range p.Funcs {
			for _, b := range g.Blocks {
				for _, in := range b.Instrs {
					c, ok := in.(*ssa.Call)
					if !ok || c.Common().StaticCallee() != fn || idx >= len(c.Common().Args) {
						continue
					}
					callers++
					ok2, w := leafParamProvenance(p, c.Common().Args[idx], g, depth+1, map[ssa.Value]bool{})
					if !ok2 {
						return false, ""
					}
					why = w
				}
			}
		}
		if callers == 0 {
			return false, ""
		}
		return true, why + " via " + p.FuncName(fn)
	case *ssa.FreeVar:
		par := fn.Parent()
		if par == nil {
			return false, ""
		}
		for i, fv := range fn.FreeVars {
			if fv != x {
				continue
			}
			for _, b := range par.Blocks {
				for _, in := range b.Instrs {
					if mc, ok := in.(*ssa.MakeClosure); ok && mc.Fn == fn && i < len(mc.Bindings) {
						return leafParamProvenance(p, mc.Bindings[i], par, depth+1, map[ssa.Value]bool{})
					}
				}
			}
		}
	}
	return false, ""
}

// derivesFromTargets: v is computed from the Targets field of a Proof value
// (through copies, sorting helpers, translation, element reads).
func derivesFromTargets(p *Program, v ssa.Value, depth int, seen map[ssa.Value]bool) bool {
	if v == nil || depth > 14 || seen[v] {
		return false
	}
	seen[v] = true
	if base, f, ok := fieldRead(v); ok && f == "Targets" && p.localNamed(base.Type(), "Proof") {
		return true
	}
	switch x := v.(type) {
	case *ssa.UnOp:
		if x.Op == token.MUL {
			if al, ok := x.X.(*ssa.Alloc); ok {
				for _, ref := range *al.Referrers() {
					if st, ok := ref.(*ssa.Store); ok && st.Addr == al && derivesFromTargets(p, st.Val, depth+1, seen) {
						return true
					}
				}
			}
			if fa, ok := x.X.(*ssa.FieldAddr); ok {
				// field of a local struct: any store into that field
				if al, ok := fa.X.(*ssa.Alloc); ok {
					for _, ref := range *al.Referrers() {
						switch r := ref.(type) {
						case *ssa.FieldAddr:
							if r.Field != fa.Field {
								continue
							}
							for _, rr := range *r.Referrers() {
								if st, ok := rr.(*ssa.Store); ok && st.Addr == r && derivesFromTargets(p, st.Val, depth+1, seen) {
									return true
								}
							}
						case *ssa.Store:
							if r.Addr == al && derivesFromTargets(p, r.Val, depth+1, seen) {
								return true
							}
						}
					}
				}
			}
			return derivesFromTargets(p, x.X, depth+1, seen)
		}
	case *ssa.IndexAddr:
		return derivesFromTargets(p, x.X, depth+1, seen)
	case *ssa.FieldAddr:
		return derivesFromTargets(p, x.X, depth+1, seen)
	case *ssa.Field:
		return derivesFromTargets(p, x.X, depth+1, seen)
	case *ssa.Extract:
		return derivesFromTargets(p, x.Tuple, depth+1, seen)
	case *ssa.Phi:
		for _, e := range x.Edges {
			if derivesFromTargets(p, e, depth+1, seen) {
				return true
			}
		}
	case *ssa.Slice:
		return derivesFromTargets(p, x.X, depth+1, seen)
	case *ssa.Call:
		for _, a := range x.Common().Args {
			if derivesFromTargets(p, a, depth+1, seen) {
				return true
			}
		}
	}
	return false
}

// targetFlag: the insertion is dominated by the true edge of a boolean flag
// that is set to true only under an equality between the inserted position
// and a position derived from the proof's targets.
func targetFlag(p *Program, li leafInsert) (bool, string) {
	if li.pos == nil {
		return false, ""
	}
	for _, g := range guardsAtInstr(li.in) {
		if !g.Truth {
			continue
		}
		if c, isCall := g.Cond.(*ssa.Call); isCall {
			// the search extracted into a helper: contains(targets, pos)
			if sc := c.Common().StaticCallee(); sc != nil && targetMembershipCall(p, c, li.pos) {
				return true, "dominated by a call of " + p.FuncName(sc) + ", which returns true only under (position == an element of the target positions)"
			}
			continue
		}
		phi, ok := g.Cond.(*ssa.Phi)
		if !ok {
			continue
		}
		if flagOnlyUnderTargetEq(p, phi, li.pos, map[*ssa.Phi]bool{}) {
			return true, "dominated by a flag that is only set under (position == a target position)"
		}
	}
	return false, ""
}

// membershipHelper recognises  func(s []T, v T) bool  whose every return of the
// constant true is guarded by an equality between an element of s and v;
// returns the indexes of the slice and the value parameter.
func membershipHelper(f *ssa.Function) (int, int, bool) {
	if f.Blocks == nil || f.Signature.Results().Len() != 1 {
		return 0, 0, false
	}
	if b, ok := f.Signature.Results().At(0).Type().Underlying().(*types.Basic); !ok || b.Kind() != types.Bool {
		return 0, 0, false
	}
	si, vi := -1, -1
	for i, par := range f.Params {
		if isSliceT(par.Type()) && si < 0 {
			si = i
		} else if _, isBasic := par.Type().Underlying().(*types.Basic); isBasic && vi < 0 {
			vi = i
		}
	}
	if si < 0 || vi < 0 {
		return 0, 0, false
	}
	sawTrue := false
	for _, ret := range returnsOf(f) {
		c, ok := ret.Results[0].(*ssa.Const)
		if !ok || c.Value == nil {
			return 0, 0, false // computed result: not the simple search shape
		}
		if c.Value.String() != "true" {
			continue
		}
		sawTrue = true
		guarded := false
		for _, g := range guardsAt(ret.Block()) {
			rel, isRel := relOf(g)
			if !isRel || rel.Op != token.EQL {
				continue
			}
			isElem := func(v ssa.Value) bool {
				return elemLoadOf(v, func(x ssa.Value) bool { return x == ssa.Value(f.Params[si]) })
			}
			if (isElem(rel.X) && rel.Y == ssa.Value(f.Params[vi])) || (isElem(rel.Y) && rel.X == ssa.Value(f.Params[vi])) {
				guarded = true
			}
		}
		if !guarded {
			return 0, 0, false
		}
	}
	return si, vi, sawTrue
}

func flagOnlyUnderTargetEq(p *Program, phi *ssa.Phi, pos ssa.Value, seen map[*ssa.Phi]bool) bool {
	if seen[phi] {
		return true
	}
	seen[phi] = true
	sawTrue := false
	for i, e := range phi.Edges {
		switch x := e.(type) {
		case *ssa.Const:
			if x.Value == nil {
				return false
			}
			if x.Value.String() == "false" {
				continue
			}
			// true: the predecessor must be under pos == target-derived value
			pred := phi.Block().Preds[i]
			ok := false
			for _, g := range guardsAt(pred) {
				if c, isCall := g.Cond.(*ssa.Call); isCall && g.Truth {
					if targetMembershipCall(p, c, pos) {
						ok = true
					}
					continue
				}
				rel, isRel := relOf(g)
				if !isRel || rel.Op != token.EQL {
					continue
				}
				var other ssa.Value
				switch {
				case rel.X == pos:
					other = rel.Y
				case rel.Y == pos:
					other = rel.X
				default:
					continue
				}
				if derivesFromTargets(p, other, 0, map[ssa.Value]bool{}) {
					ok = true
				}
			}
			if !ok {
				return false
			}
			sawTrue = true
		case *ssa.Phi:
			if !flagOnlyUnderTargetEq(p, x, pos, seen) {
				return false
			}
			sawTrue = true
		default:
			return false
		}
	}
	return sawTrue
}

func runC10(p *Program, r *Report) {
	r.Rule("R10a", "LEAF-INDEX-INSERT: a key enters a leaf index only if it is a leaf hash handed in through the API, moves an entry that is already there, is read back from a serialised stream, or sits at a target position")
	r.Rule("R10b", "REMOVE-ON-DELETE: on every success path of Modify every deleted hash is removed from the leaf index")
	ins := leafInserts(p)
	ord := map[string]int{}
	for _, li := range ins {
		fn := li.in.Parent()
		name := p.FuncName(fn)
		ord[name+li.index]++
		key := fmt.Sprintf("%s/%s#%d", name, li.index, ord[name+li.index])
		// (c) restore from a stream
		if rd, _ := hasStreamParam(fn.Signature); rd {
			r.Discharge("R10a", key, posOf(p, li.in), "restore: the key is read back from the serialised stream (consistency is gated by R13d)", false)
			continue
		}
		if fn.Parent() == nil && onlyCalledFromRestore(p, fn, 0) {
			r.Discharge("R10a", key, posOf(p, li.in), "restore: the insertion is in a helper that only the restore functions call; the key is read back from the serialised stream (consistency is gated by R13d)", false)
			continue
		}
		if ok, why := updateOnly(p, li); ok {
			r.Discharge("R10a", key, posOf(p, li.in), "update-only: "+why, true)
			continue
		}
		if foreachKey(p, li) {
			r.Discharge("R10a", key, posOf(p, li.in), "update-only: re-inserts the key handed to the index's own ForEach callback", true)
			continue
		}
		if ok, why := leafParamProvenance(p, li.key, fn, 0, map[ssa.Value]bool{}); ok {
			r.Discharge("R10a", key, posOf(p, li.in), "leaf hash from the API: "+why, true)
			continue
		}
		if ok, why := targetFlag(p, li); ok {
			r.Discharge("R10a", key, posOf(p, li.in), "target position: "+why, true)
			continue
		}
		r.Violate("R10a", key, posOf(p, li.in),
			"a hash that is not known to be a leaf hash (not an API leaf-hash parameter, not an existing entry being moved, not at a target position) is inserted into the leaf index "+li.index+": internal-node hashes would be reported as leaves", "in "+name)
	}
	r.Stats["leafindex.insertions"] = len(ins)
	r.Floor("R10a", "insertion sites into the leaf indexes", len(ins), 15)

	// R10b
	for _, n := range []string{"(*Pollard).Modify", "(*MapPollard).Modify"} {
		fn := p.Func(n)
		if fn == nil {
			r.MissingAnchor("R10b", n, "Modify not found")
			continue
		}
		idx := -1
		for i, par := range fn.Params {
			if isHashSlice(par.Type()) {
				idx = i
			}
		}
		if idx < 0 {
			r.Undecided("R10b", n+"/uncache", p.Pos(fn.Pos()), "no deleted-hashes parameter")
			continue
		}
		ok, why := removesAll(p, fn, idx, 0)
		if ok {
			r.Discharge("R10b", n+"/uncache", p.Pos(fn.Pos()), why, true)
		} else {
			r.Violate("R10b", n+"/uncache", p.Pos(fn.Pos()), "some success path of Modify does not remove every deleted hash from the leaf index: deleted leaves would still be found by GetLeafPosition / provable", "in "+n)
		}
	}
}

// removesAll: on every success path of fn, each element of slice parameter
// idx is removed from a leaf index.
func removesAll(p *Program, fn *ssa.Function, idx int, depth int) (bool, string) {
	if depth > 4 || fn == nil || fn.Blocks == nil || idx >= len(fn.Params) {
		return false, ""
	}
	par := fn.Params[idx]
	succ := successReturns(fn)
	// direct: a range loop over the parameter whose body removes the element's key
	if header, elems := rangeLoopOver(fn, par); header != nil {
		isElem := map[ssa.Value]bool{}
		for _, e := range elems {
			isElem[e] = true
		}
		for _, b := range fn.Blocks {
			for _, in := range b.Instrs {
				c, ok := in.(*ssa.Call)
				if !ok {
					continue
				}
				cc := c.Common()
				removed := false
				if builtinName(cc) == "delete" && len(cc.Args) == 2 {
					if mt, ok := cc.Args[0].Type().Underlying().(*types.Map); ok && isByteArrayNamed(p, mt.Key()) {
						removed = derivesFrom(cc.Args[1], func(v ssa.Value) bool { return isElem[v] }, 4) || keyFromElem(p, cc.Args[1], isElem)
					}
				}
				if cc.IsInvoke() && cc.Method.Name() == "Delete" && hashKeyedIface(p, cc.Value.Type()) && len(cc.Args) == 1 {
					removed = isElem[cc.Args[0]]
				}
				if !removed {
					continue
				}
				// unconditional in the body: dominates every latch
				okAll := true
				for _, l := range latches(header) {
					if !(c.Block() == l || c.Block().Dominates(l)) {
						okAll = false
					}
				}
				// and the loop is reached on every success path: header dominates success returns
				for _, s := range succ {
					if !header.Dominates(s.Block()) {
						okAll = false
					}
				}
				if okAll {
					return true, fmt.Sprintf("%s removes the key of every element of %s from the leaf index (unconditional removal in a range loop that dominates the success return)", p.FuncName(fn), par.Name())
				}
			}
		}
	}
	// indirect: passes the parameter on to a function that does, from a call that dominates every success return
	for _, b := range fn.Blocks {
		for _, in := range b.Instrs {
			c, ok := in.(*ssa.Call)
			if !ok {
				continue
			}
			callee := c.Common().StaticCallee()
			if callee == nil || !p.owns(callee) {
				continue
			}
			for j, arg := range c.Common().Args {
				if arg != ssa.Value(par) {
					continue
				}
				dom := true
				for _, s := range succ {
					if !dominatesInstr(c, s) {
						dom = false
					}
				}
				if !dom {
					continue
				}
				// if the callee can fail, its failure must not be turned into success
				if errorResultIndex(callee.Signature) >= 0 {
					if v := errChain(c, ErrChainOpts{}); !v.OK {
						continue
					}
				}
				if ok, why := removesAll(p, callee, j, depth+1); ok {
					return true, why + "; called from " + p.FuncName(fn) + " on every success path"
				}
			}
		}
	}
	return false, ""
}

// keyFromElem: v is a pure projection (h.mini()) of a loop element.
func keyFromElem(p *Program, v ssa.Value, isElem map[ssa.Value]bool) bool {
	if c, ok := v.(*ssa.Call); ok && len(c.Common().Args) == 1 {
		a := c.Common().Args[0]
		if isElem[a] {
			return true
		}
		// element copied into a local for the method call
		if u, ok := a.(*ssa.UnOp); ok {
			if al, ok := u.X.(*ssa.Alloc); ok {
				for _, ref := range *al.Referrers() {
					if st, ok := ref.(*ssa.Store); ok && st.Addr == al && isElem[st.Val] {
						return true
					}
				}
			}
		}
	}
	return false
}

// targetMembershipCall: c calls a helper of the package that returns true only
// under an equality between the position argument pos and (something derived
// from) an element of a list argument, and that list argument derives from
// the targets of a proof. Two shapes of helper are recognised: the search that
// returns the constant true at the match (membershipHelper), and the scan that
// returns a flag set at the match (flagHelper).
func targetMembershipCall(p *Program, c *ssa.Call, pos ssa.Value) bool {
	sc := c.Common().StaticCallee()
	if sc == nil || !p.owns(sc) {
		return false
	}
	args := c.Common().Args
	if si, vi, ok := membershipHelper(sc); ok && si < len(args) && vi < len(args) {
		if args[vi] == pos && derivesFromTargets(p, args[si], 0, map[ssa.Value]bool{}) {
			return true
		}
	}
	if si, vi, ok := flagHelper(sc); ok && si < len(args) && vi < len(args) {
		if args[vi] == pos && derivesFromTargets(p, args[si], 0, map[ssa.Value]bool{}) {
			return true
		}
	}
	return false
}

// flagHelper recognises  func(..., v T, s []T, ...) bool  whose result is a flag
// that starts false and is set to true only under an equality between v and a
// value computed from an element of s.
func flagHelper(f *ssa.Function) (int, int, bool) {
	if f.Blocks == nil || f.Signature.Results().Len() != 1 {
		return 0, 0, false
	}
	if b, ok := f.Signature.Results().At(0).Type().Underlying().(*types.Basic); !ok || b.Kind() != types.Bool {
		return 0, 0, false
	}
	si, vi := -1, -1
	for i, par := range f.Params {
		if f.Signature.Recv() != nil && i == 0 {
			continue
		}
		if isSliceT(par.Type()) && si < 0 {
			si = i
		} else if _, isBasic := par.Type().Underlying().(*types.Basic); isBasic && vi < 0 {
			vi = i
		}
	}
	if si < 0 || vi < 0 {
		return 0, 0, false
	}
	fromList := func(v ssa.Value) bool {
		return flowsFrom(v, func(x ssa.Value) bool { return x == ssa.Value(f.Params[si]) }, 0, map[ssa.Value]bool{})
	}
	var flagOK func(v ssa.Value, seen map[*ssa.Phi]bool) (bool, bool)
	flagOK = func(v ssa.Value, seen map[*ssa.Phi]bool) (ok, sawTrue bool) {
		switch x := v.(type) {
		case *ssa.Const:
			return x.Value != nil && x.Value.String() == "false", false
		case *ssa.Phi:
			if seen[x] {
				return true, false
			}
			seen[x] = true
			for i, e := range x.Edges {
				if c, isConst := e.(*ssa.Const); isConst && c.Value != nil && c.Value.String() == "true" {
					under := false
					for _, g := range guardsAt(x.Block().Preds[i]) {
						rel, isRel := relOf(g)
						if !isRel || rel.Op != token.EQL {
							continue
						}
						if (rel.X == ssa.Value(f.Params[vi]) && fromList(rel.Y)) || (rel.Y == ssa.Value(f.Params[vi]) && fromList(rel.X)) {
							under = true
						}
					}
					if !under {
						return false, false
					}
					sawTrue = true
					continue
				}
				o, t := flagOK(e, seen)
				if !o {
					return false, false
				}
				sawTrue = sawTrue || t
			}
			return true, sawTrue
		}
		return false, false
	}
	saw := false
	for _, ret := range returnsOf(f) {
		o, t := flagOK(ret.Results[0], map[*ssa.Phi]bool{})
		if !o {
			return 0, 0, false
		}
		saw = saw || t
	}
	return si, vi, saw
}

// onlyCalledFromRestore: fn has callers, and each of them is a function with a
// stream-reader parameter or is itself only called from such functions.
func onlyCalledFromRestore(p *Program, fn *ssa.Function, depth int) bool {
	if depth > 3 {
		return false
	}
	callers := 0
	for _, g := range p.Funcs {
		for _, b := range g.Blocks {
			for _, in := range b.Instrs {
				c, ok := in.(ssa.CallInstruction)
				if !ok || c.Common().StaticCallee() != fn {
					continue
				}
				callers++
				if g == fn {
					continue
				}
				if rd, _ := hasStreamParam(g.Signature); rd {
					continue
				}
				if !onlyCalledFromRestore(p, g, depth+1) {
					return false
				}
			}
		}
	}
	return callers > 0
}
