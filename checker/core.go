package main

import (
	"encoding/json"
	"fmt"
	"go/ast"
	"go/token"
	"go/types"
	"os"
	"path/filepath"
	"sort"
	"strings"
	"time"

	"golang.org/x/tools/go/callgraph"
	"golang.org/x/tools/go/callgraph/cha"
	"golang.org/x/tools/go/callgraph/vta"
	"golang.org/x/tools/go/packages"
	"golang.org/x/tools/go/ssa"
	"golang.org/x/tools/go/ssa/ssautil"
)

// ---------------------------------------------------------------------------
// E1: loader. go/packages -> go/types -> go/ssa (generics instantiated) ->
// call graph (VTA seeded by CHA, or plain CHA).

// Program is one loaded, type-checked and SSA-lowered package under analysis.
type Program struct {
	Dir     string
	Fset    *token.FileSet
	PPkg    *packages.Package
	Types   *types.Package
	Info    *types.Info
	Files   []*ast.File
	SSAProg *ssa.Program
	SSA     *ssa.Package
	// Funcs is every function with a body that belongs to the package:
	// declared functions and methods, anonymous functions nested in them, and
	// the instantiations of the package's generic functions.
	Funcs  []*ssa.Function
	CG     *callgraph.Graph
	CGKind string
	Config string

	byName map[string]*ssa.Function
}

// LoadConfig selects build configuration for a load.
type LoadConfig struct {
	Dir       string
	GOARCH    string
	Tags      string
	CallGraph string // "vta" or "cha"
}

func (lc LoadConfig) String() string {
	s := "GOARCH=" + orDefault(lc.GOARCH, "native")
	if lc.Tags != "" {
		s += " tags=" + lc.Tags
	}
	return s + " callgraph=" + orDefault(lc.CallGraph, "vta")
}

func orDefault(s, d string) string {
	if s == "" {
		return d
	}
	return s
}

// AnalysisError is an error that prevents any verdict (exit 2).
type AnalysisError struct{ Msg string }

func (e *AnalysisError) Error() string { return e.Msg }

func analysisErrorf(format string, args ...any) *AnalysisError {
	return &AnalysisError{fmt.Sprintf(format, args...)}
}

// Load loads the single non-test package found in lc.Dir. It never writes to
// lc.Dir: the go command is run with -mod=readonly.
func Load(lc LoadConfig) (*Program, error) {
	env := []string{}
	for _, kv := range os.Environ() {
		if strings.HasPrefix(kv, "GOFLAGS=") || strings.HasPrefix(kv, "GOWORK=") ||
			strings.HasPrefix(kv, "GOARCH=") {
			continue
		}
		env = append(env, kv)
	}
	env = append(env, "GOFLAGS=-mod=readonly", "GOWORK=off", "GOPROXY=off", "GOSUMDB=off", "GOTOOLCHAIN=local")
	if lc.GOARCH != "" {
		env = append(env, "GOARCH="+lc.GOARCH, "CGO_ENABLED=0")
	}
	cfg := &packages.Config{
		Mode: packages.NeedName | packages.NeedFiles | packages.NeedCompiledGoFiles |
			packages.NeedImports | packages.NeedDeps | packages.NeedTypes |
			packages.NeedSyntax | packages.NeedTypesInfo | packages.NeedTypesSizes | packages.NeedModule,
		Dir:   lc.Dir,
		Env:   env,
		Tests: false,
	}
	if lc.Tags != "" {
		cfg.BuildFlags = []string{"-tags=" + lc.Tags}
	}
	pkgs, err := packages.Load(cfg, ".")
	if err != nil {
		return nil, analysisErrorf("packages.Load(%s): %v", lc.Dir, err)
	}
	if len(pkgs) != 1 {
		return nil, analysisErrorf("expected exactly 1 package in %s, got %d", lc.Dir, len(pkgs))
	}
	root := pkgs[0]
	var errs []string
	packages.Visit(pkgs, nil, func(p *packages.Package) {
		for _, e := range p.Errors {
			errs = append(errs, e.Error())
		}
	})
	if len(errs) > 0 {
		return nil, analysisErrorf("package %s does not type-check: %s", lc.Dir, strings.Join(errs, "; "))
	}
	if len(root.Syntax) == 0 || root.Types == nil || root.TypesInfo == nil {
		return nil, analysisErrorf("package %s loaded without syntax/types", lc.Dir)
	}

	prog, ssaPkgs := ssautil.AllPackages(pkgs, ssa.InstantiateGenerics)
	prog.Build()
	var sp *ssa.Package
	for i, p := range pkgs {
		if p == root {
			sp = ssaPkgs[i]
		}
	}
	if sp == nil {
		sp = prog.Package(root.Types)
	}
	if sp == nil {
		return nil, analysisErrorf("no SSA package for %s", root.PkgPath)
	}

	p := &Program{
		Dir: lc.Dir, Fset: root.Fset, PPkg: root, Types: root.Types, Info: root.TypesInfo,
		Files: root.Syntax, SSAProg: prog, SSA: sp, Config: lc.String(),
		byName: map[string]*ssa.Function{},
	}

	all := ssautil.AllFunctions(prog)
	for fn := range all {
		if fn.Blocks == nil {
			continue
		}
		if p.owns(fn) {
			p.Funcs = append(p.Funcs, fn)
		}
	}
	sort.Slice(p.Funcs, func(i, j int) bool {
		a, b := p.Funcs[i], p.Funcs[j]
		if a.Pos() != b.Pos() {
			return a.Pos() < b.Pos()
		}
		return a.String() < b.String()
	})
	for _, fn := range p.Funcs {
		p.byName[p.FuncName(fn)] = fn
	}

	switch orDefault(lc.CallGraph, "vta") {
	case "cha":
		p.CG = cha.CallGraph(prog)
		p.CGKind = "cha"
	default:
		p.CG = vta.CallGraph(all, cha.CallGraph(prog))
		p.CGKind = "vta"
	}
	return p, nil
}

// owns reports whether fn's body comes from the package under analysis
// (including instantiations of its generic functions and nested closures).
func (p *Program) owns(fn *ssa.Function) bool {
	for f := fn; f != nil; f = f.Parent() {
		if f.Pkg == p.SSA {
			return true
		}
		if o := f.Origin(); o != nil && o.Pkg == p.SSA {
			return true
		}
		if f.Synthetic != "" && f.Pkg == nil && f.Parent() == nil {
			// wrappers / bound methods: owned if they wrap an owned method
			if obj := f.Object(); obj != nil && obj.Pkg() == p.Types {
				return true
			}
		}
	}
	return false
}

// FuncName renders a function in a stable, line-free form:
// "(*MapPollard).verify", "Verify", "(*MapPollard).Write$1",
// "copySortedFunc[uint64]".
func (p *Program) FuncName(fn *ssa.Function) string {
	if fn == nil {
		return "<nil>"
	}
	if fn.Parent() != nil {
		// anonymous function: parent name + ordinal among parent's AnonFuncs
		par := fn.Parent()
		for i, a := range par.AnonFuncs {
			if a == fn {
				return fmt.Sprintf("%s$%d", p.FuncName(par), i+1)
			}
		}
		return p.FuncName(par) + "$?"
	}
	name := fn.Name()
	if recv := fn.Signature.Recv(); recv != nil {
		return "(" + types.TypeString(recv.Type(), func(*types.Package) string { return "" }) + ")." + name
	}
	return name
}

// Func looks a function up by FuncName; nil if absent.
func (p *Program) Func(name string) *ssa.Function { return p.byName[name] }

// Pos renders a position relative to the package directory (diagnosis only).
func (p *Program) Pos(pos token.Pos) string {
	if !pos.IsValid() {
		return "-"
	}
	pp := p.Fset.Position(pos)
	rel, err := filepath.Rel(p.Dir, pp.Filename)
	if err != nil || strings.HasPrefix(rel, "..") {
		rel = pp.Filename
	}
	return fmt.Sprintf("%s:%d:%d", rel, pp.Line, pp.Column)
}

// InstrPos finds the best position for an instruction (some have NoPos).
func InstrPos(in ssa.Instruction) token.Pos {
	if in == nil {
		return token.NoPos
	}
	if in.Pos().IsValid() {
		return in.Pos()
	}
	if v, ok := in.(ssa.Value); ok {
		_ = v
	}
	// fall back to any operand with a position, then the function
	for _, op := range in.Operands(nil) {
		if op != nil && *op != nil && (*op).Pos().IsValid() {
			return (*op).Pos()
		}
	}
	if in.Parent() != nil {
		return in.Parent().Pos()
	}
	return token.NoPos
}

// Callees returns the package-or-any functions a call instruction may invoke
// according to the call graph (static callee first when there is one).
func (p *Program) Callees(call ssa.CallInstruction) []*ssa.Function {
	if sc := call.Common().StaticCallee(); sc != nil {
		return []*ssa.Function{sc}
	}
	node := p.CG.Nodes[call.Parent()]
	if node == nil {
		return nil
	}
	var out []*ssa.Function
	seen := map[*ssa.Function]bool{}
	for _, e := range node.Out {
		if e.Site == call && !seen[e.Callee.Func] {
			seen[e.Callee.Func] = true
			out = append(out, e.Callee.Func)
		}
	}
	sort.Slice(out, func(i, j int) bool { return out[i].String() < out[j].String() })
	return out
}

// Reach returns all functions with bodies owned by the package reachable from
// the entries through resolved callees, closures created in them included.
func (p *Program) Reach(entries ...*ssa.Function) map[*ssa.Function]bool {
	seen := map[*ssa.Function]bool{}
	var work []*ssa.Function
	push := func(f *ssa.Function) {
		if f != nil && !seen[f] {
			seen[f] = true
			work = append(work, f)
		}
	}
	for _, e := range entries {
		push(e)
	}
	for len(work) > 0 {
		f := work[len(work)-1]
		work = work[:len(work)-1]
		for _, a := range f.AnonFuncs {
			push(a)
		}
		for _, b := range f.Blocks {
			for _, in := range b.Instrs {
				switch in := in.(type) {
				case ssa.CallInstruction:
					for _, c := range p.Callees(in) {
						push(c)
					}
					// function values passed as arguments (sort.Slice less etc.)
					for _, a := range in.Common().Args {
						if fn := funcValue(a); fn != nil {
							push(fn)
						}
					}
				case *ssa.MakeClosure:
					if fn, ok := in.Fn.(*ssa.Function); ok {
						push(fn)
					}
				}
			}
		}
	}
	out := map[*ssa.Function]bool{}
	for f := range seen {
		if f.Blocks != nil && p.owns(f) {
			out[f] = true
		}
	}
	return out
}

func funcValue(v ssa.Value) *ssa.Function {
	switch v := v.(type) {
	case *ssa.Function:
		return v
	case *ssa.MakeClosure:
		if fn, ok := v.Fn.(*ssa.Function); ok {
			return fn
		}
	case *ssa.ChangeType:
		return funcValue(v.X)
	case *ssa.MakeInterface:
		return funcValue(v.X)
	}
	return nil
}

// ---------------------------------------------------------------------------
// Obligations, report, evidence.

type Status string

const (
	Discharged Status = "discharged"
	Violated   Status = "violated"
	Known      Status = "known-finding"
	Undecided  Status = "undecided"
)

// Obligation is the unit of work and of evidence: (rule, construct key).
// Keys are built from resolved program entities, never from line numbers.
type Obligation struct {
	Rule       string   `json:"rule"`
	Key        string   `json:"key"`
	Pos        string   `json:"pos"`
	Status     Status   `json:"status"`
	Detail     string   `json:"detail,omitempty"`
	Path       []string `json:"path,omitempty"`
	Nontrivial bool     `json:"nontrivial"`
	Config     string   `json:"config,omitempty"`
}

// Report accumulates obligations for one property over one or more configs.
type Report struct {
	Property string
	Obs      []*Obligation
	index    map[string]*Obligation
	Floors   []FloorResult
	Notes    []string
	Stats    map[string]int
	curCfg   string
	rules    map[string]string // rule id -> one-line statement
}

type FloorResult struct {
	Rule      string `json:"rule"`
	What      string `json:"what"`
	Min       int    `json:"min"`
	Confirmed int    `json:"confirmed_by_hand"`
	Got       int    `json:"got"`
	OK        bool   `json:"ok"`
	Where     string `json:"config,omitempty"`
}

func NewReport(prop string) *Report {
	return &Report{Property: prop, index: map[string]*Obligation{}, Stats: map[string]int{}, rules: map[string]string{}}
}

func (r *Report) Rule(id, statement string) { r.rules[id] = statement }

func (r *Report) add(rule, key, pos string, st Status, detail string, nontrivial bool, path []string) *Obligation {
	k := rule + "\x00" + key
	if old, ok := r.index[k]; ok {
		// Same obligation seen again (another config / another context): keep
		// the worst status.
		if rank(st) > rank(old.Status) {
			old.Status, old.Detail, old.Pos, old.Path, old.Config = st, detail, pos, path, r.curCfg
		}
		old.Nontrivial = old.Nontrivial || nontrivial
		return old
	}
	o := &Obligation{Rule: rule, Key: key, Pos: pos, Status: st, Detail: detail, Nontrivial: nontrivial, Path: path, Config: r.curCfg}
	r.index[k] = o
	r.Obs = append(r.Obs, o)
	return o
}

func rank(s Status) int {
	switch s {
	case Discharged:
		return 0
	case Undecided:
		return 1
	default:
		return 2
	}
}

func (r *Report) Discharge(rule, key, pos, detail string, nontrivial bool) {
	r.add(rule, key, pos, Discharged, detail, nontrivial, nil)
}
func (r *Report) Violate(rule, key, pos, detail string, path ...string) {
	r.add(rule, key, pos, Violated, detail, true, path)
}
func (r *Report) Undecided(rule, key, pos, detail string) {
	r.add(rule, key, pos, Undecided, detail, true, nil)
}

// MissingAnchor records that a named entity a rule is anchored on no longer
// resolves. On /repo this fails the check (a rule that silently skips what it
// cannot find passes vacuously); control packages only define the entities
// their rule needs, so it is ignored there.
func (r *Report) MissingAnchor(rule, name, what string) {
	if r.curCfg == "control" {
		return
	}
	r.add(rule, "anchor:"+name, "-", Undecided, what, true, nil)
}

// Floor records an instance floor; a rule that matches fewer instances than
// were confirmed by hand fails the check (a rule matching nothing passes
// vacuously forever).
// Floor guards against a rule that stops matching and then passes vacuously.
// `confirmed` is the number of instances counted by hand on the reviewed tree;
// the check fails when fewer than floorOf(confirmed) are matched. The
// threshold is deliberately below the confirmed count: extracting a helper or
// merging two call sites into one is behaviour-preserving and lowers the count
// (five such alarms were raised by the negative corpus before this), while a
// rule that lost its anchor matches none or almost none.
func floorOf(confirmed int) int {
	if confirmed <= 2 {
		return confirmed
	}
	m := (confirmed*6 + 9) / 10 // 60 %, rounded up
	if m < 2 {
		m = 2
	}
	return m
}

func (r *Report) Floor(rule, what string, got, confirmed int) {
	if r.curCfg == "control" {
		return
	}
	min := floorOf(confirmed)
	for i := range r.Floors {
		f := &r.Floors[i]
		if f.Rule == rule && f.What == what {
			if got < f.Got {
				f.Got, f.OK, f.Where = got, got >= min, r.curCfg
			}
			return
		}
	}
	r.Floors = append(r.Floors, FloorResult{Rule: rule, What: what, Min: min, Confirmed: confirmed, Got: got, OK: got >= min, Where: r.curCfg})
}

func (r *Report) Count(rule string) int {
	n := 0
	for _, o := range r.Obs {
		if o.Rule == rule {
			n++
		}
	}
	return n
}

// ---------------------------------------------------------------------------
// Known findings.

type KnownFinding struct {
	Property string `json:"property"`
	Rule     string `json:"rule"`
	Key      string `json:"key"`
	What     string `json:"what"`
}

type KnownFile struct {
	Findings []KnownFinding `json:"findings"`
	Fixed    []string       `json:"fixed"`
}

func LoadKnown(path string) (*KnownFile, error) {
	b, err := os.ReadFile(path)
	if err != nil {
		return nil, err
	}
	var k KnownFile
	if err := json.Unmarshal(b, &k); err != nil {
		return nil, err
	}
	return &k, nil
}

// ---------------------------------------------------------------------------
// Evidence.

type Evidence struct {
	PropertyID  string         `json:"property_id"`
	Tier        string         `json:"tier"`
	Seed        int            `json:"seed"`
	Level       string         `json:"level"`
	Coverage    map[string]any `json:"coverage"`
	Assumptions []string       `json:"assumptions"`
	WallS       float64        `json:"wall_s"`
	Violations  int            `json:"violations"`
}

func writeJSON(path string, v any) error {
	if err := os.MkdirAll(filepath.Dir(path), 0o755); err != nil {
		return err
	}
	b, err := json.MarshalIndent(v, "", " ")
	if err != nil {
		return err
	}
	tmp := path + ".tmp"
	if err := os.WriteFile(tmp, append(b, '\n'), 0o644); err != nil {
		return err
	}
	return os.Rename(tmp, path)
}

var startTime = time.Now()

// StaticReach is a call-graph-independent closure: static callees owned by the
// package, implementations (in the package) of methods invoked through
// interfaces declared in the package, and closures created on the way. Calls
// through function-typed values are not followed (the closures they may
// denote are included where they are created).
func (p *Program) StaticReach(entries ...*ssa.Function) map[*ssa.Function]bool {
	seen := map[*ssa.Function]bool{}
	var work []*ssa.Function
	push := func(f *ssa.Function) {
		if f != nil && !seen[f] && f.Blocks != nil && p.owns(f) {
			seen[f] = true
			work = append(work, f)
		}
	}
	for _, e := range entries {
		push(e)
	}
	for len(work) > 0 {
		f := work[len(work)-1]
		work = work[:len(work)-1]
		for _, a := range f.AnonFuncs {
			push(a)
		}
		for _, b := range f.Blocks {
			for _, in := range b.Instrs {
				ci, ok := in.(ssa.CallInstruction)
				if !ok {
					continue
				}
				cc := ci.Common()
				if sc := cc.StaticCallee(); sc != nil {
					push(sc)
				} else if cc.IsInvoke() {
					for _, impl := range p.implementations(cc) {
						push(impl)
					}
				}
				for _, a := range cc.Args {
					if fn := funcValue(a); fn != nil {
						push(fn)
					}
				}
			}
		}
	}
	return seen
}

// implementations lists the package's methods that an invoke on an interface
// declared in the package can dispatch to.
func (p *Program) implementations(cc *ssa.CallCommon) []*ssa.Function {
	n := namedOf(cc.Value.Type())
	if n == nil || n.Obj().Pkg() != p.Types {
		return nil
	}
	it, ok := n.Underlying().(*types.Interface)
	if !ok {
		return nil
	}
	var out []*ssa.Function
	for _, fn := range p.Funcs {
		recv := fn.Signature.Recv()
		if recv == nil || fn.Parent() != nil || fn.Name() != cc.Method.Name() {
			continue
		}
		if types.Implements(recv.Type(), it) {
			out = append(out, fn)
		}
	}
	return out
}
