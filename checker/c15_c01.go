package main

import (
	"fmt"
	"go/token"
	"go/types"
	"strings"

	"golang.org/x/tools/go/ssa"
)

// ---------------------------------------------------------------------------
// C15: caching schedule.

func isSlicesFunc(c *ssa.CallCommon, names ...string) bool {
	f := calleeFunc(c)
	if f == nil || f.Pkg() == nil {
		return false
	}
	if f.Pkg().Path() != "slices" && f.Pkg().Path() != "golang.org/x/exp/slices" {
		return false
	}
	for _, n := range names {
		if f.Name() == n {
			return true
		}
	}
	return false
}

func runC15(p *Program, r *Report) {
	r.Rule("R15a", "BOUNDED-CACHE: the working cache grows only under len(cache) < maxMemory (strict) or right after a one-element removal from it")
	r.Rule("R15b", "EMIT-FROM-CACHE: every position written to the schedule is read from an element of the cache, and nothing else writes the schedule")
	r.Rule("R15c", "SORT-AFTER-APPEND: every schedule row is sorted after the last append to it on every path to the return")
	fn := p.Func("(*CachingScheduleTracker).GenerateCachingSchedule")
	if fn == nil {
		r.MissingAnchor("R15a", "(*CachingScheduleTracker).GenerateCachingSchedule", "schedule generator not found")
		return
	}
	name := p.FuncName(fn)
	// maxMemory: the int parameter
	var maxMem ssa.Value
	for _, par := range fn.Params[1:] {
		if b, ok := par.Type().Underlying().(*types.Basic); ok && b.Kind() == types.Int {
			maxMem = par
		}
	}
	// result: the value returned
	var result ssa.Value
	for _, ret := range returnsOf(fn) {
		result = retOperands(ret)[0]
	}
	if maxMem == nil || result == nil {
		r.Undecided("R15a", name+"/anchors", p.Pos(fn.Pos()), "cannot identify the memory limit parameter or the returned schedule")
		return
	}
	// cache web: the slice whose length is compared with maxMemory (or that is made with that capacity), closed under
	// phi / append / slices.Delete in both directions (the make that starts it is found through the phi it feeds)
	web := map[ssa.Value]bool{}
	for _, b := range fn.Blocks {
		for _, in := range b.Instrs {
			if ms, ok := in.(*ssa.MakeSlice); ok && ms.Cap == maxMem {
				web[ms] = true
			}
			// the working cache is the slice whose length is compared with the limit
			if bo, ok := in.(*ssa.BinOp); ok {
				for _, pr := range [][2]ssa.Value{{bo.X, bo.Y}, {bo.Y, bo.X}} {
					if s, isLen := lenArg(pr[0]); isLen && flowsFrom(pr[1], func(x ssa.Value) bool { return x == maxMem }, 0, map[ssa.Value]bool{}) {
						web[s] = true
					}
				}
			}
		}
	}
	for changed := true; changed; {
		changed = false
		for _, b := range fn.Blocks {
			for _, in := range b.Instrs {
				v, ok := in.(ssa.Value)
				if !ok || web[v] {
					continue
				}
				switch x := in.(type) {
				case *ssa.Phi:
					for _, e := range x.Edges {
						if web[e] {
							web[v], changed = true, true
						}
					}
				case *ssa.MakeSlice:
					// a make that feeds a phi of the web starts the web
					if x.Referrers() != nil {
						for _, ref := range *x.Referrers() {
							if ph, ok := ref.(*ssa.Phi); ok && web[ph] {
								web[v], changed = true, true
							}
						}
					}
				case *ssa.Call:
					cc := x.Common()
					if (builtinName(cc) == "append" || isSlicesFunc(cc, "Delete")) && len(cc.Args) > 0 && web[cc.Args[0]] {
						web[v], changed = true, true
					}
				case *ssa.Slice:
					if web[x.X] {
						web[v], changed = true, true
					}
				}
			}
		}
	}
	if len(web) == 0 {
		r.Undecided("R15a", name+"/anchors", p.Pos(fn.Pos()), "cannot identify the working cache (the slice whose length is compared with the memory limit)")
		return
	}
	// R15a: growth sites
	nGrow := 0
	for _, b := range fn.Blocks {
		for _, in := range b.Instrs {
			c, ok := in.(*ssa.Call)
			if !ok || builtinName(c.Common()) != "append" || !web[c] {
				continue
			}
			nGrow++
			key := fmt.Sprintf("%s/grow#%d", name, nGrow)
			arg0 := c.Common().Args[0]
			// (1) right after a one-element removal
			if d, ok := arg0.(*ssa.Call); ok && isSlicesFunc(d.Common(), "Delete") && len(d.Common().Args) == 3 {
				lo, hi := d.Common().Args[1], d.Common().Args[2]
				one := false
				if bo, ok := hi.(*ssa.BinOp); ok && bo.Op == token.ADD && bo.X == lo {
					if k, ok := bo.Y.(*ssa.Const); ok && k.Int64() == 1 {
						one = true
					}
				}
				if one {
					r.Discharge("R15a", key, posOf(p, c), "append directly onto the result of a one-element removal from the cache: the size does not grow", true)
				} else {
					r.Violate("R15a", key, posOf(p, c), "append after a removal that is not provably exactly one element", "in "+name)
				}
				continue
			}
			// (2) strict bound
			isLen := func(v ssa.Value) bool { s, ok := lenArg(v); return ok && s == arg0 }
			isMax := func(v ssa.Value) bool { return v == maxMem }
			if _, ok := holdsRel(guardsAtInstr(c), []token.Token{token.LSS}, isLen, isMax); ok {
				r.Discharge("R15a", key, posOf(p, c), "append under len(cache) < maxMemory on the same cache value", true)
			} else {
				r.Violate("R15a", key, posOf(p, c), "the cache grows without a dominating strict test len(cache) < maxMemory on the value being appended to: more than maxMemory scheduled leaves can be resident", "in "+name)
			}
		}
	}
	r.Floor("R15a", "growth sites of the working cache", nGrow, 2)

	// R15b / R15c: stores into rows of the result
	isResult := func(v ssa.Value) bool { return v == result }
	elemOfWeb := func(v ssa.Value) bool {
		if u, ok := v.(*ssa.UnOp); ok && u.Op == token.MUL {
			switch a := u.X.(type) {
			case *ssa.IndexAddr:
				return web[a.X]
			case *ssa.FieldAddr:
				if ia, ok := a.X.(*ssa.IndexAddr); ok {
					return web[ia.X]
				}
			}
		}
		return false
	}
	nRow := 0
	for _, b := range fn.Blocks {
		for _, in := range b.Instrs {
			st, ok := in.(*ssa.Store)
			if !ok {
				continue
			}
			ia, ok := st.Addr.(*ssa.IndexAddr)
			if !ok || !isResult(ia.X) {
				continue
			}
			nRow++
			key := fmt.Sprintf("%s/row-write#%d", name, nRow)
			ap, ok := st.Val.(*ssa.Call)
			if !ok || builtinName(ap.Common()) != "append" {
				r.Violate("R15b", key, posOf(p, st), "a schedule row is overwritten by something other than an append", "in "+name)
				continue
			}
			// appended elements: stores into the varargs array
			okAll, nElems := true, 0
			if len(ap.Common().Args) == 2 {
				if sl, ok := ap.Common().Args[1].(*ssa.Slice); ok {
					if al, ok := sl.X.(*ssa.Alloc); ok {
						for _, ref := range *al.Referrers() {
							if ea, ok := ref.(*ssa.IndexAddr); ok {
								for _, rr := range *ea.Referrers() {
									if s2, ok := rr.(*ssa.Store); ok && s2.Addr == ea {
										nElems++
										if !derivesFrom(s2.Val, elemOfWeb, 4) {
											okAll = false
										}
									}
								}
							}
						}
					} else {
						okAll = false
					}
				} else {
					okAll = false
				}
			}
			if okAll && nElems > 0 {
				r.Discharge("R15b", key, posOf(p, st), "the appended position is read from an element of the working cache", true)
			} else {
				r.Violate("R15b", key, posOf(p, st), "a position that is not read from the working cache is written to the schedule: it may never have been resident (or bypasses the memory bound)", "in "+name)
			}
			// R15c: a sort of the same row follows on every path
			skey := fmt.Sprintf("%s/row-sorted#%d", name, nRow)
			var sortBlock *ssa.BasicBlock
			sameBlockAfter := false
			for _, b2 := range fn.Blocks {
				for _, in2 := range b2.Instrs {
					c, ok := in2.(*ssa.Call)
					if !ok || !isSlicesFunc(c.Common(), "Sort", "SortFunc", "SortStableFunc") || len(c.Common().Args) == 0 {
						continue
					}
					u, ok := c.Common().Args[0].(*ssa.UnOp)
					if !ok {
						continue
					}
					ia2, ok := u.X.(*ssa.IndexAddr)
					if !ok || !isResult(ia2.X) {
						continue
					}
					if sameExpr(ia2.Index, ia.Index, 0) {
						if b2 == b && instrIndex(c) > instrIndex(st) {
							sameBlockAfter = true
						}
						sortBlock = b2
					}
				}
			}
			switch {
			case sameBlockAfter:
				r.Discharge("R15c", skey, posOf(p, st), "the row is sorted right after the append, in the same block", true)
			case sortBlock != nil && !reachesReturnAvoiding(st, sortBlock):
				r.Discharge("R15c", skey, posOf(p, st), "every path from the append to the return passes a sort of the same row", true)
			default:
				r.Violate("R15c", skey, posOf(p, st), "a schedule row can reach the return unsorted after an append (positions are emitted in eviction order, not ascending)", "in "+name)
			}
		}
	}
	r.Floor("R15b", "writes to schedule rows", nRow, 1)
	// nothing else writes the result: other stores through the result value
	for _, b := range fn.Blocks {
		for _, in := range b.Instrs {
			c, ok := in.(*ssa.Call)
			if !ok {
				continue
			}
			if builtinName(c.Common()) == "copy" && len(c.Common().Args) == 2 && isResult(c.Common().Args[0]) {
				r.Violate("R15b", name+"/other-writes", posOf(p, c), "the schedule is written by copy", "in "+name)
			}
		}
	}
}

// reachesReturnAvoiding: some path from instruction in to a return avoids block avoid.
func reachesReturnAvoiding(in ssa.Instruction, avoid *ssa.BasicBlock) bool {
	seen := map[*ssa.BasicBlock]bool{}
	work := append([]*ssa.BasicBlock{}, in.Block().Succs...)
	if in.Block() == avoid {
		return false
	}
	for len(work) > 0 {
		b := work[len(work)-1]
		work = work[:len(work)-1]
		if seen[b] || b == avoid {
			continue
		}
		seen[b] = true
		if _, ok := b.Instrs[len(b.Instrs)-1].(*ssa.Return); ok {
			return true
		}
		work = append(work, b.Succs...)
	}
	return false
}

// ---------------------------------------------------------------------------
// C01: sibling agreement of the three block-application implementations.

type siblingImpl struct {
	name string
	fn   *ssa.Function
}

// findHasher: the package function (Hash, Hash) Hash that feeds a hash
// function from crypto/sha512 — parentHash on the reviewed tree.
func findHasher(p *Program) *ssa.Function {
	for _, fn := range p.Funcs {
		if fn.Parent() != nil || fn.Signature.Recv() != nil {
			continue
		}
		sig := fn.Signature
		if sig.Params().Len() != 2 || sig.Results().Len() != 1 || !isHashType(sig.Params().At(0).Type()) || !isHashType(sig.Params().At(1).Type()) || !isHashType(sig.Results().At(0).Type()) {
			continue
		}
		for _, b := range fn.Blocks {
			for _, in := range b.Instrs {
				if c, ok := in.(*ssa.Call); ok {
					if f := calleeFunc(c.Common()); f != nil && f.Pkg() != nil && strings.HasPrefix(f.Pkg().Path(), "crypto/") {
						return fn
					}
				}
			}
		}
	}
	return nil
}

// proofDerived: v is the proof parameter, its Targets, or a fresh slice filled by copy from them.
func proofDerived(p *Program, fn *ssa.Function, v ssa.Value) bool {
	if p.localNamed(v.Type(), "Proof") {
		return true
	}
	if derivesFromTargets(p, v, 0, map[ssa.Value]bool{}) {
		return true
	}
	// dst of copy(dst, proof.Targets)
	for _, b := range fn.Blocks {
		for _, in := range b.Instrs {
			c, ok := in.(*ssa.Call)
			if !ok || builtinName(c.Common()) != "copy" || len(c.Common().Args) != 2 {
				continue
			}
			if c.Common().Args[0] == v && derivesFromTargets(p, c.Common().Args[1], 0, map[ssa.Value]bool{}) {
				return true
			}
		}
	}
	return false
}

func runC01(p *Program, r *Report) {
	r.Rule("R01a", "PHASE-ORDER: in every block-application implementation the deletion phase dominates the addition phase and no path adds before deleting")
	r.Rule("R01b", "MERGE-ORDER: when an added node is merged with an existing root, the existing (older) root is the left input of the hash and the incoming node the right one")
	r.Rule("R01c", "ZOMBIE-SKIP: the merge hash is only computed when the existing root is not the empty (all-zero) root")
	impls := []siblingImpl{{"(*Stump).Update", nil}, {"(*Pollard).Modify", nil}, {"(*MapPollard).Modify", nil}}
	hasher := findHasher(p)
	if hasher == nil {
		r.MissingAnchor("R01b", "parentHash", "cannot find the two-input hash function")
	}
	nImpl := 0
	for _, im := range impls {
		fn := p.Func(im.name)
		if fn == nil {
			r.MissingAnchor("R01a", im.name, "block-application implementation not found")
			continue
		}
		nImpl++
		// addition parameter: []Leaf, or the second []Hash parameter
		var adds ssa.Value
		hashSlices := 0
		for _, par := range fn.Params {
			if sl, ok := par.Type().Underlying().(*types.Slice); ok && p.localNamed(sl.Elem(), "Leaf") {
				adds = par
			}
		}
		if adds == nil {
			for _, par := range fn.Params {
				if isHashSlice(par.Type()) {
					hashSlices++
					if hashSlices == 2 {
						adds = par
					}
				}
			}
		}
		var addCalls, delCalls []*ssa.Call
		for _, sc := range callsIn(p, fn) {
			callee := sc.call.Common().StaticCallee()
			if callee == nil || !p.owns(callee) || callee.Signature.Recv() == nil {
				continue
			}
			isAdd, isDel := false, false
			for _, arg := range sc.call.Common().Args[1:] {
				if adds != nil && arg == adds {
					isAdd = true
				}
				if proofDerived(p, fn, arg) {
					isDel = true
				}
			}
			if isAdd {
				addCalls = append(addCalls, sc.call)
			} else if isDel {
				delCalls = append(delCalls, sc.call)
			}
		}
		key := im.name + "/order"
		switch {
		case len(addCalls) == 0 || len(delCalls) == 0:
			r.Undecided("R01a", key, p.Pos(fn.Pos()), fmt.Sprintf("cannot identify both phases (add calls %d, delete calls %d)", len(addCalls), len(delCalls)))
		default:
			ok := true
			for _, ac := range addCalls {
				dom := false
				for _, dc := range delCalls {
					if dominatesInstr(dc, ac) {
						dom = true
					}
					if canReach(ac, dc) {
						ok = false
					}
				}
				ok = ok && dom
			}
			if ok {
				r.Discharge("R01a", key, posOf(p, addCalls[0]), fmt.Sprintf("the deletion phase (%s) dominates the addition phase (%s); no path from the addition phase back to a deletion", p.FuncName(delCalls[len(delCalls)-1].Common().StaticCallee()), p.FuncName(addCalls[0].Common().StaticCallee())), true)
			} else {
				r.Violate("R01a", key, posOf(p, addCalls[0]), "the addition phase can run before (or without) the deletion phase: targets are positions of the forest before the additions", "in "+im.name)
			}
		}
		// R01b / R01c in the add path
		if hasher == nil || len(addCalls) == 0 {
			continue
		}
		addFn := addCalls[0].Common().StaticCallee()
		nMerge := 0
		for _, g := range sortedFuncs(p, p.StaticReach(addFn)) {
			if g.Signature.Recv() == nil && g != addFn {
				continue // merges happen in methods of the accumulator
			}
			for _, sc := range callsIn(p, g) {
				if sc.call.Common().StaticCallee() != hasher {
					continue
				}
				if !isAddMerge(p, g, sc.call) {
					continue
				}
				nMerge++
				checkMerge(p, r, im.name, g, sc.call)
			}
		}
		if nMerge == 0 {
			r.Undecided("R01b", im.name+"/merge", p.Pos(addFn.Pos()), "no merge hash found on the addition path")
		}
	}
	r.Floor("R01a", "block-application implementations", nImpl, 3)
}

// stateRead: v reads the accumulator's own state (a field of the receiver, or
// the result of a Get on a store held in a receiver field).
func stateRead(fn *ssa.Function) func(ssa.Value) bool {
	return func(v ssa.Value) bool {
		if base, _, ok := fieldRead(v); ok {
			if i, ok := paramOf(fn, base); ok && i == 0 && fn.Signature.Recv() != nil {
				return true
			}
		}
		if ex, ok := v.(*ssa.Extract); ok {
			if c, ok := ex.Tuple.(*ssa.Call); ok && c.Common().IsInvoke() {
				if base, _, ok := fieldRead(c.Common().Value); ok {
					if i, ok := paramOf(fn, base); ok && i == 0 {
						return true
					}
				}
			}
		}
		return false
	}
}

// incoming: v comes from a non-receiver parameter (the node being added) or an element of one.
func incomingRead(fn *ssa.Function) func(ssa.Value) bool {
	return func(v ssa.Value) bool {
		if i, ok := paramOf(fn, v); ok && (i > 0 || fn.Signature.Recv() == nil) {
			return true
		}
		if al, ok := v.(*ssa.Alloc); ok {
			if i, ok := spillOfParam(fn, al); ok && i > 0 {
				return true
			}
		}
		return false
	}
}

// derivesDeep is derivesFrom extended through local variables (loads of
// allocs follow the stores into them) and struct literals.
func derivesDeep(v ssa.Value, pred func(ssa.Value) bool, depth int, seen map[ssa.Value]bool) bool {
	if v == nil || depth > 14 || seen[v] {
		return false
	}
	seen[v] = true
	if pred(v) {
		return true
	}
	switch x := v.(type) {
	case *ssa.UnOp:
		if x.Op == token.MUL {
			if al, ok := x.X.(*ssa.Alloc); ok {
				if pred(al) {
					return true
				}
				for _, ref := range *al.Referrers() {
					switch r := ref.(type) {
					case *ssa.Store:
						if r.Addr == al && derivesDeep(r.Val, pred, depth+1, seen) {
							return true
						}
					}
				}
				return false
			}
		}
		return derivesDeep(x.X, pred, depth+1, seen)
	case *ssa.FieldAddr:
		if al, ok := x.X.(*ssa.Alloc); ok {
			if pred(al) {
				return true
			}
			// stores into the same field of the local, or whole-struct stores
			for _, ref := range *al.Referrers() {
				switch r := ref.(type) {
				case *ssa.FieldAddr:
					if r.Field == x.Field {
						for _, rr := range *r.Referrers() {
							if st, ok := rr.(*ssa.Store); ok && st.Addr == r && derivesDeep(st.Val, pred, depth+1, seen) {
								return true
							}
						}
					}
				case *ssa.Store:
					if r.Addr == al && derivesDeep(r.Val, pred, depth+1, seen) {
						return true
					}
				}
			}
			return false
		}
		return derivesDeep(x.X, pred, depth+1, seen)
	case *ssa.Field:
		return derivesDeep(x.X, pred, depth+1, seen)
	case *ssa.IndexAddr:
		return derivesDeep(x.X, pred, depth+1, seen)
	case *ssa.Phi:
		for _, e := range x.Edges {
			if derivesDeep(e, pred, depth+1, seen) {
				return true
			}
		}
	case *ssa.Extract:
		return pred(x) || derivesDeep(x.Tuple, pred, depth+1, seen)
	case *ssa.Convert:
		return derivesDeep(x.X, pred, depth+1, seen)
	case *ssa.ChangeType:
		return derivesDeep(x.X, pred, depth+1, seen)
	}
	return false
}

// isAddMerge: the hash call merges an existing root with the incoming node —
// one input reads the accumulator state, the other derives from a non-receiver parameter.
func isAddMerge(p *Program, g *ssa.Function, call *ssa.Call) bool {
	a0, a1 := call.Common().Args[0], call.Common().Args[1]
	st, inc := stateRead(g), incomingRead(g)
	s0 := derivesDeep(a0, st, 0, map[ssa.Value]bool{})
	s1 := derivesDeep(a1, st, 0, map[ssa.Value]bool{})
	i0 := derivesDeep(a0, inc, 0, map[ssa.Value]bool{})
	i1 := derivesDeep(a1, inc, 0, map[ssa.Value]bool{})
	return (s0 || s1) && (i0 || i1)
}

func checkMerge(p *Program, r *Report, impl string, g *ssa.Function, call *ssa.Call) {
	a0, a1 := call.Common().Args[0], call.Common().Args[1]
	st, inc := stateRead(g), incomingRead(g)
	s0 := derivesDeep(a0, st, 0, map[ssa.Value]bool{})
	s1 := derivesDeep(a1, st, 0, map[ssa.Value]bool{})
	i0 := derivesDeep(a0, inc, 0, map[ssa.Value]bool{})
	i1 := derivesDeep(a1, inc, 0, map[ssa.Value]bool{})
	key := impl + "/" + p.FuncName(g) + "/merge"
	if s0 && !i0 && i1 && !s1 {
		r.Discharge("R01b", key, posOf(p, call), "left input reads the existing root from the accumulator state, right input is the incoming node", true)
	} else {
		r.Violate("R01b", key, posOf(p, call), fmt.Sprintf("merge hash inputs are not (existing root, incoming node): left state=%v incoming=%v, right state=%v incoming=%v — the older tree must be the left child", s0, i0, s1, i1), "in "+p.FuncName(g))
	}
	// R01c: guarded by root != empty
	zkey := impl + "/" + p.FuncName(g) + "/zombie-skip"
	ok := false
	for _, gd := range guardsAtInstr(call) {
		rel, isRel := relOf(gd)
		if !isRel || rel.Op != token.NEQ {
			continue
		}
		for _, pair := range [][2]ssa.Value{{rel.X, rel.Y}, {rel.Y, rel.X}} {
			if isEmptyGlobal(pair[1]) && (sameExpr(pair[0], a0, 0) || sameValue(pair[0], a0)) {
				ok = true
			}
		}
	}
	if ok {
		r.Discharge("R01c", zkey, posOf(p, call), "the merge is control-dependent on (existing root != empty)", true)
	} else {
		r.Violate("R01c", zkey, posOf(p, call), "the merge hash is computed without a dominating test that the existing root is not the empty root: an added node would be hashed with a zombie root instead of taking its place", "in "+p.FuncName(g))
	}
}

func isEmptyGlobal(v ssa.Value) bool {
	v = stripValue(v)
	if u, ok := v.(*ssa.UnOp); ok && u.Op == token.MUL {
		if g, ok := u.X.(*ssa.Global); ok && g.Name() == "empty" {
			return true
		}
	}
	if c, ok := v.(*ssa.Const); ok && c.Value == nil && isHashType(c.Type()) {
		return true // zero Hash constant
	}
	return false
}
