// Command utxlint is a repository-specific static checker for utreexo/utreexo.
// It decides structural clauses of the properties C01..C17 (see
// /verif/DESIGN.md) from the type-checked, SSA-lowered source of /repo and
// never executes utreexo code.
package main

import (
	"encoding/json"
	"flag"
	"fmt"
	"os"
	"path/filepath"
	"runtime/debug"
	"sort"
	"strconv"
	"strings"
	"time"
)

// RuleDef is one rule of a property.
type RuleDef struct {
	ID        string
	Statement string
	Run       func(p *Program, r *Report)
}

// PropertyDef groups the rules that together decide the structural clauses
// claimed for one property.
type PropertyDef struct {
	ID          string
	Title       string
	Explanation string
	NotDecided  string
	Assumptions []string
	Rules       []RuleDef
}

var registry = map[string]*PropertyDef{}

func register(p *PropertyDef) { registry[p.ID] = p }

var commonAssumptions = []string{
	"go/types, go/ssa (x/tools v0.29.0) and the VTA/CHA call graph model the package faithfully",
	"no unsafe, reflect, cgo, assembly or go:linkname in the analysed package (checked on every run)",
	"stdlib summaries (sort, slices, x/exp/slices, copy, append, io.ReadFull, sync.RWMutex, fmt, encoding/*) are as tabled in the checker",
	"closures passed to package or stdlib iterators run synchronously; no goroutines are started by the package (checked)",
	"NodesInterface / CachedLeavesInterface implementations supplied from outside the package and direct access to exported struct fields by callers are out of scope",
}

func main() {
	var (
		prop     = flag.String("prop", "", "property id (C01..C17)")
		tier     = flag.String("tier", "quick", "quick | thorough")
		repo     = flag.String("repo", "/repo", "directory of the utreexo package")
		verifDir = flag.String("verif", "/verif", "verification directory (evidence, known findings, controls)")
		replay   = flag.String("replay", "", "replay file to re-check")
		onlyRule = flag.String("rule", "", "restrict to rule ids with this prefix (variant/self-test runs)")
		noEvid   = flag.Bool("no-evidence", false, "do not write evidence (variant runs)")
		listObs  = flag.Bool("list", false, "print every obligation")
		cg       = flag.String("callgraph", "vta", "vta | cha")
		goarch   = flag.String("goarch", "", "GOARCH for the load")
		tags     = flag.String("tags", "", "build tags for the load")
		noCtl    = flag.Bool("no-controls", false, "skip controls (variant runs)")
	)
	flag.Parse()

	defer func() {
		if e := recover(); e != nil {
			fmt.Printf("ANALYSIS-ERROR property=%s checker panic: %v\n%s\n", *prop, e, debug.Stack())
			os.Exit(2)
		}
	}()

	if *replay != "" {
		os.Exit(doReplay(*replay, *repo, *verifDir))
	}
	def := registry[*prop]
	if def == nil {
		fmt.Printf("ANALYSIS-ERROR unknown or unclaimed property %q\n", *prop)
		os.Exit(2)
	}
	seed := 0
	if s := os.Getenv("VERIF_SEED"); s != "" {
		seed, _ = strconv.Atoi(s)
	}

	rep := NewReport(def.ID)
	configs := []LoadConfig{{Dir: *repo, CallGraph: *cg, GOARCH: *goarch, Tags: *tags}}
	if *tier == "thorough" {
		configs = append(configs,
			LoadConfig{Dir: *repo, CallGraph: "cha"},
			LoadConfig{Dir: *repo, CallGraph: "vta", GOARCH: "386"},
			LoadConfig{Dir: *repo, CallGraph: "vta", GOARCH: "arm64"},
			LoadConfig{Dir: *repo, CallGraph: "vta", Tags: "verif"},
		)
	}
	var cfgNames []string
	funcsAnalysed, callSites := 0, 0
	for _, lc := range configs {
		p, err := Load(lc)
		if err != nil {
			fmt.Printf("ANALYSIS-ERROR property=%s %v\n", def.ID, err)
			os.Exit(2)
		}
		rep.curCfg = lc.String()
		cfgNames = append(cfgNames, lc.String())
		if bad := forbiddenFeatures(p); len(bad) > 0 {
			rep.Undecided("R00", "soundness-assumptions", "-", "package uses features outside the analysis' assumptions: "+strings.Join(bad, ", "))
		} else {
			rep.Discharge("R00", "soundness-assumptions", "-", "no unsafe/reflect/cgo/linkname/go statements in the package", false)
		}
		runRules(def, p, rep, *onlyRule)
		if funcsAnalysed == 0 {
			funcsAnalysed = len(p.Funcs)
			for _, f := range p.Funcs {
				for _, b := range f.Blocks {
					for _, in := range b.Instrs {
						if isCall(in) {
							callSites++
						}
					}
				}
			}
		}
	}

	// Controls: tiny packages that must fire / stay silent for each rule.
	var ctl []ControlResult
	ctlOK := true
	if !*noCtl && *onlyRule == "" {
		ctl, ctlOK = runControls(def, filepath.Join(*verifDir, "checker", "testdata", "controls", def.ID))
	}

	// Self-test variants (thorough tier only).
	var st *SelfTestSummary
	if *tier == "thorough" && *onlyRule == "" {
		st = runVariants(def, *repo, *verifDir)
	}

	// Known findings.
	known, err := LoadKnown(filepath.Join(*verifDir, "known_findings.json"))
	if err != nil {
		fmt.Printf("ANALYSIS-ERROR cannot read known_findings.json: %v\n", err)
		os.Exit(2)
	}
	for _, o := range rep.Obs {
		if o.Status != Violated {
			continue
		}
		for _, k := range known.Findings {
			if k.Property == def.ID && k.Rule == o.Rule && k.Key == o.Key {
				o.Status = Known
				fmt.Printf("KNOWN-FINDING: property=%s %s [%s %s at %s]\n", def.ID, k.What, o.Rule, o.Key, o.Pos)
			}
		}
	}

	// Verdict.
	sort.SliceStable(rep.Obs, func(i, j int) bool {
		if rep.Obs[i].Rule != rep.Obs[j].Rule {
			return rep.Obs[i].Rule < rep.Obs[j].Rule
		}
		return rep.Obs[i].Key < rep.Obs[j].Key
	})
	nViol := 0
	discharged, nontrivial := 0, 0
	violDir := filepath.Join(*verifDir, "evidence", "violations")
	if !*noEvid {
		// stale replay files of this property are removed so that a replay path
		// always belongs to the latest run
		old, _ := filepath.Glob(filepath.Join(violDir, def.ID+"-*.json"))
		for _, f := range old {
			os.Remove(f)
		}
	}
	emit := func(o *Obligation, reason string) {
		nViol++
		path := filepath.Join(violDir, fmt.Sprintf("%s-%d.json", def.ID, nViol))
		if !*noEvid {
			writeJSON(path, map[string]any{"property": def.ID, "reason": reason, "obligation": o,
				"statement": rep.rules[o.Rule], "repo": *repo})
		}
		fmt.Printf("%s: %s %s: %s [%s] %s\n", o.Pos, o.Rule, reason, o.Key, rep.rules[o.Rule], o.Detail)
		for _, s := range o.Path {
			fmt.Printf("    via %s\n", s)
		}
		fmt.Printf("VIOLATION property=%s replay=%s\n", def.ID, path)
	}
	for _, o := range rep.Obs {
		if o.Nontrivial {
			nontrivial++
		}
		switch o.Status {
		case Discharged, Known:
			discharged++
		case Violated:
			emit(o, "violated")
		case Undecided:
			emit(o, "undecided")
		}
	}
	for _, f := range rep.Floors {
		if !f.OK {
			o := &Obligation{Rule: f.Rule, Key: "floor:" + f.What, Pos: "-", Status: Violated,
				Detail: fmt.Sprintf("rule matched %d instances of %q; %d were confirmed by hand on the reviewed tree and the floor is %d (a rule that stops matching passes vacuously)", f.Got, f.What, f.Confirmed, f.Min)}
			emit(o, "instance-floor")
		}
	}
	if !ctlOK {
		for _, c := range ctl {
			if !c.OK {
				fmt.Printf("CONTROL-FAILURE property=%s control=%s: %s\n", def.ID, c.Name, c.Detail)
			}
		}
	}
	if st != nil {
		for _, v := range st.Results {
			if v.Outcome == "missed" || v.Outcome == "error" {
				fmt.Printf("SELFTEST-FAILURE property=%s variant=%s outcome=%s: %s\n", def.ID, v.Name, v.Outcome, v.Detail)
			}
		}
	}

	// Evidence.
	wall := time.Since(startTime).Seconds()
	if !*noEvid {
		samples := sampleObligations(rep.Obs, 14)
		ruleList := []map[string]any{}
		var ids []string
		for id := range rep.rules {
			ids = append(ids, id)
		}
		sort.Strings(ids)
		for _, id := range ids {
			ruleList = append(ruleList, map[string]any{"id": id, "statement": rep.rules[id], "obligations": rep.Count(id)})
		}
		cov := map[string]any{
			"explanation": def.Explanation + " NOT DECIDED: " + def.NotDecided,
			"obligations": len(rep.Obs), "discharged": discharged,
			"evaluations": len(rep.Obs), "distinct_nontrivial": nontrivial,
			"rule": "one obligation per (rule id, construct key); keys are resolved program entities (function, callee, field, role, ordinal), never lines. " +
				"An obligation counts as non-trivial when discharging it needed a path, dominance, dataflow or lockset argument (not mere absence of a construct).",
			"samples":            samples,
			"rules":              ruleList,
			"floors":             rep.Floors,
			"controls":           ctl,
			"functions_analysed": funcsAnalysed,
			"call_sites":         callSites,
			"packages":           1,
			"configs":            cfgNames,
			"notes":              rep.Notes,
			"stats":              rep.Stats,
			"checker_cmd":        strings.Join(os.Args, " "),
			"trusted_base":       []string{"go/types", "golang.org/x/tools/go/ssa v0.29.0", "golang.org/x/tools/go/callgraph/{vta,cha}", "utxlint rule tables"},
			"exhaustive":         true,
		}
		if st != nil {
			cov["selftest"] = st
		}
		ev := Evidence{PropertyID: def.ID, Tier: *tier, Seed: seed, Level: "other", Coverage: cov,
			Assumptions: append(append([]string{}, commonAssumptions...), def.Assumptions...),
			WallS:       wall, Violations: nViol}
		if err := writeJSON(filepath.Join(*verifDir, "evidence", def.ID+".json"), ev); err != nil {
			fmt.Printf("ANALYSIS-ERROR cannot write evidence: %v\n", err)
			os.Exit(2)
		}
	}
	if *listObs {
		for _, o := range rep.Obs {
			fmt.Printf("  %-6s %-13s %-60s %s  %s\n", o.Rule, o.Status, o.Key, o.Pos, o.Detail)
		}
	}
	fmt.Printf("%s %s: %d obligations, %d discharged, %d non-trivial, %d failing; %d functions, %d call sites, configs=%d, %.1fs\n",
		def.ID, *tier, len(rep.Obs), discharged, nontrivial, nViol, funcsAnalysed, callSites, len(cfgNames), wall)
	if !ctlOK {
		os.Exit(2)
	}
	if st != nil && st.Failed > 0 {
		os.Exit(2)
	}
	if nViol > 0 {
		os.Exit(1)
	}
}

func runRules(def *PropertyDef, p *Program, rep *Report, only string) {
	for _, rd := range def.Rules {
		rep.Rule(rd.ID, rd.Statement)
		if only != "" && !ruleSelected(rd.ID, only) {
			continue
		}
		rd.Run(p, rep)
	}
}

func ruleSelected(id, only string) bool {
	for _, o := range strings.Split(only, ",") {
		if o != "" && (strings.HasPrefix(id, o) || strings.HasPrefix(o, id)) {
			return true
		}
	}
	return false
}

func sampleObligations(obs []*Obligation, n int) []*Obligation {
	if len(obs) <= n {
		return obs
	}
	// spread over rules: take them round-robin by rule
	byRule := map[string][]*Obligation{}
	var rules []string
	for _, o := range obs {
		if _, ok := byRule[o.Rule]; !ok {
			rules = append(rules, o.Rule)
		}
		byRule[o.Rule] = append(byRule[o.Rule], o)
	}
	var out []*Obligation
	for i := 0; len(out) < n; i++ {
		progress := false
		for _, r := range rules {
			if i < len(byRule[r]) && len(out) < n {
				// prefer non-trivial ones first within a rule
				out = append(out, byRule[r][i])
				progress = true
			}
		}
		if !progress {
			break
		}
	}
	return out
}

func doReplay(path, repo, verifDir string) int {
	b, err := os.ReadFile(path)
	if err != nil {
		fmt.Printf("ANALYSIS-ERROR cannot read replay file: %v\n", err)
		return 2
	}
	var rf struct {
		Property   string     `json:"property"`
		Reason     string     `json:"reason"`
		Obligation Obligation `json:"obligation"`
		Statement  string     `json:"statement"`
	}
	if err := json.Unmarshal(b, &rf); err != nil {
		fmt.Printf("ANALYSIS-ERROR bad replay file: %v\n", err)
		return 2
	}
	def := registry[rf.Property]
	if def == nil {
		fmt.Printf("ANALYSIS-ERROR unknown property %q in replay file\n", rf.Property)
		return 2
	}
	p, err := Load(LoadConfig{Dir: repo})
	if err != nil {
		fmt.Printf("ANALYSIS-ERROR %v\n", err)
		return 2
	}
	rep := NewReport(def.ID)
	runRules(def, p, rep, rf.Obligation.Rule)
	fmt.Printf("replay %s: rule %s (%s)\n  recorded: %s %s at %s: %s\n", rf.Property, rf.Obligation.Rule, rf.Statement,
		rf.Reason, rf.Obligation.Key, rf.Obligation.Pos, rf.Obligation.Detail)
	for _, s := range rf.Obligation.Path {
		fmt.Printf("    via %s\n", s)
	}
	found := false
	for _, o := range rep.Obs {
		if o.Rule == rf.Obligation.Rule && o.Key == rf.Obligation.Key {
			found = true
			fmt.Printf("  now:      %s at %s: %s\n", o.Status, o.Pos, o.Detail)
			if o.Status == Violated || o.Status == Undecided {
				fmt.Printf("VIOLATION property=%s replay=%s\n", rf.Property, path)
				return 1
			}
		}
	}
	if strings.HasPrefix(rf.Obligation.Key, "floor:") {
		for _, f := range rep.Floors {
			if f.Rule == rf.Obligation.Rule && "floor:"+f.What == rf.Obligation.Key {
				found = true
				fmt.Printf("  now:      matched %d, floor %d\n", f.Got, f.Min)
				if !f.OK {
					fmt.Printf("VIOLATION property=%s replay=%s\n", rf.Property, path)
					return 1
				}
			}
		}
	}
	if !found {
		fmt.Printf("  now:      the construct no longer produces this obligation on the current tree\n")
	}
	return 0
}
