package main

import (
	"fmt"
	"go/token"
	"go/types"
	"sort"
	"strings"

	"golang.org/x/tools/go/ssa"
)

// E3: slice-discipline abstract interpreter over SSA.
//
// Abstract objects are backing arrays and memory cells. An abstract value
// records which objects a slice/pointer may designate, per-field values for
// structs, whether a slice value may be shorter than the array it was cut
// from, and the functions a func value may denote. The heap maps objects to
// the abstract value stored in them (weak updates). Callees are analysed in
// the context of their abstract arguments (memoised), so the analysis is
// context-sensitive; registers are flow-sensitive by SSA construction, memory
// is flow-insensitive.

type objKind int

const (
	okParam   objKind = iota // caller-owned backing array of an entry parameter (protected)
	okRecv                   // storage owned by the receiver object
	okFresh                  // allocated during the call
	okCell                   // local variable / heap cell
	okGlobal                 // package-level variable
	okUnknown                // result of an unsummarised callee
)

type Obj struct {
	ID   int
	Kind objKind
	Name string // "proof.Targets", "make@prove.go:63", ...
	Pos  token.Pos
}

func (o *Obj) String() string { return o.Name }

// Loc is a location inside an object: the object plus a field path.
type Loc struct {
	Obj  *Obj
	Path string
}

type AV struct {
	Ptrs   map[Loc]bool
	Fields map[int]*AV
	Shrunk bool
	Fns    map[*ssa.Function]*AV // function values with the abstract values of their free variables packed in Fields
	Dyn    map[string]types.Type // dynamic types seen at MakeInterface
}

func newAV() *AV { return &AV{} }

func (a *AV) isEmpty() bool {
	return a == nil || (len(a.Ptrs) == 0 && len(a.Fields) == 0 && len(a.Fns) == 0 && len(a.Dyn) == 0)
}

func (a *AV) clone() *AV {
	if a == nil {
		return newAV()
	}
	n := newAV()
	n.join(a)
	return n
}

// join merges b into a; reports whether a changed.
func (a *AV) join(b *AV) bool {
	if b == nil {
		return false
	}
	ch := false
	for l := range b.Ptrs {
		if !a.Ptrs[l] {
			if a.Ptrs == nil {
				a.Ptrs = map[Loc]bool{}
			}
			a.Ptrs[l] = true
			ch = true
		}
	}
	if b.Shrunk && !a.Shrunk {
		a.Shrunk = true
		ch = true
	}
	for i, f := range b.Fields {
		if a.Fields == nil {
			a.Fields = map[int]*AV{}
		}
		if a.Fields[i] == nil {
			a.Fields[i] = newAV()
		}
		if a.Fields[i].join(f) {
			ch = true
		}
	}
	for fn, fv := range b.Fns {
		if a.Fns == nil {
			a.Fns = map[*ssa.Function]*AV{}
		}
		if a.Fns[fn] == nil {
			a.Fns[fn] = newAV()
			ch = true
		}
		if a.Fns[fn].join(fv) {
			ch = true
		}
	}
	for k, t := range b.Dyn {
		if _, ok := a.Dyn[k]; !ok {
			if a.Dyn == nil {
				a.Dyn = map[string]types.Type{}
			}
			a.Dyn[k] = t
			ch = true
		}
	}
	return ch
}

func (a *AV) field(i int) *AV {
	if a == nil || a.Fields == nil || a.Fields[i] == nil {
		return newAV()
	}
	return a.Fields[i]
}

// at navigates a field path ".1.0".
func (a *AV) at(path string) *AV {
	cur := a
	for _, seg := range strings.Split(path, ".") {
		if seg == "" {
			continue
		}
		var i int
		fmt.Sscanf(seg, "%d", &i)
		cur = cur.field(i)
	}
	return cur
}

// ensure navigates and creates.
func (a *AV) ensure(path string) *AV {
	cur := a
	for _, seg := range strings.Split(path, ".") {
		if seg == "" {
			continue
		}
		var i int
		fmt.Sscanf(seg, "%d", &i)
		if cur.Fields == nil {
			cur.Fields = map[int]*AV{}
		}
		if cur.Fields[i] == nil {
			cur.Fields[i] = newAV()
		}
		cur = cur.Fields[i]
	}
	return cur
}

func (a *AV) sig(sb *strings.Builder) {
	if a == nil {
		sb.WriteString("-")
		return
	}
	var ls []string
	for l := range a.Ptrs {
		ls = append(ls, fmt.Sprintf("%d%s", l.Obj.ID, l.Path))
	}
	sort.Strings(ls)
	sb.WriteString("{")
	sb.WriteString(strings.Join(ls, ","))
	if a.Shrunk {
		sb.WriteString("!")
	}
	var fs []int
	for i := range a.Fields {
		fs = append(fs, i)
	}
	sort.Ints(fs)
	for _, i := range fs {
		if a.Fields[i].isEmpty() {
			continue
		}
		fmt.Fprintf(sb, "|%d:", i)
		a.Fields[i].sig(sb)
	}
	var fns []string
	for fn, fv := range a.Fns {
		var s2 strings.Builder
		fv.sig(&s2)
		fns = append(fns, fmt.Sprintf("%p%s", fn, s2.String()))
	}
	sort.Strings(fns)
	for _, f := range fns {
		sb.WriteString("|fn" + f)
	}
	var dyn []string
	for k := range a.Dyn {
		dyn = append(dyn, k)
	}
	sort.Strings(dyn)
	for _, d := range dyn {
		sb.WriteString("|T" + d)
	}
	sb.WriteString("}")
}

// objs lists the objects a value may designate directly (its own Ptrs).
func (a *AV) objs() []*Obj {
	var out []*Obj
	seen := map[*Obj]bool{}
	for l := range a.Ptrs {
		if !seen[l.Obj] {
			seen[l.Obj] = true
			out = append(out, l.Obj)
		}
	}
	sort.Slice(out, func(i, j int) bool { return out[i].ID < out[j].ID })
	return out
}

// allObjs lists objects designated by the value or any of its fields.
func (a *AV) allObjs(into map[*Obj]bool) {
	if a == nil {
		return
	}
	for l := range a.Ptrs {
		into[l.Obj] = true
	}
	for _, f := range a.Fields {
		f.allObjs(into)
	}
	for _, f := range a.Fns {
		f.allObjs(into)
	}
}

// ---------------------------------------------------------------------------

type evKind int

const (
	evMutate evKind = iota
	evUndecided
	evRetain
)

type Event struct {
	Kind  evKind
	Obj   *Obj
	In    ssa.Instruction
	What  string
	Stack []string
	Val   ssa.Value // stored value for element stores (exemption analysis)
}

type memoEntry struct {
	id      int
	results *AV // tuple: Fields[i] per result
	round   int
	busy    bool
}

type interp struct {
	private  map[*ssa.Alloc]bool
	cellIn   map[cellKey]map[*ssa.BasicBlock]map[*ssa.Store]bool
	p        *Program
	heap     map[*Obj]*AV
	objs     map[string]*Obj
	memo     map[string]*memoEntry
	events   map[string]*Event
	order    []*Event
	stack    []string
	round    int
	changed  bool
	maxDepth int
	funcsHit map[*ssa.Function]bool
	callsHit int
}

func newInterp(p *Program) *interp {
	return &interp{p: p, heap: map[*Obj]*AV{}, objs: map[string]*Obj{}, memo: map[string]*memoEntry{},
		events: map[string]*Event{}, maxDepth: 40, funcsHit: map[*ssa.Function]bool{}}
}

func (it *interp) obj(key string, kind objKind, name string, pos token.Pos) *Obj {
	if o, ok := it.objs[key]; ok {
		return o
	}
	o := &Obj{ID: len(it.objs) + 1, Kind: kind, Name: name, Pos: pos}
	it.objs[key] = o
	return o
}

func (it *interp) content(o *Obj) *AV {
	if it.heap[o] == nil {
		it.heap[o] = newAV()
	}
	return it.heap[o]
}

func (it *interp) event(kind evKind, o *Obj, in ssa.Instruction, what string, val ssa.Value) {
	key := fmt.Sprintf("%d/%d/%p", kind, func() int {
		if o != nil {
			return o.ID
		}
		return 0
	}(), in)
	if _, ok := it.events[key]; ok {
		return
	}
	e := &Event{Kind: kind, Obj: o, In: in, What: what, Stack: append([]string{}, it.stack...), Val: val}
	it.events[key] = e
	it.order = append(it.order, e)
}

// pointerish reports whether values of type t can carry objects.
func pointerish(t types.Type) bool {
	return pointerishSeen(t, map[types.Type]bool{})
}

func pointerishSeen(t types.Type, seen map[types.Type]bool) bool {
	if seen[t] {
		return false
	}
	seen[t] = true
	switch u := t.Underlying().(type) {
	case *types.Slice, *types.Pointer, *types.Map, *types.Signature, *types.Interface, *types.Chan:
		return true
	case *types.Struct:
		for i := 0; i < u.NumFields(); i++ {
			if pointerishSeen(u.Field(i).Type(), seen) {
				return true
			}
		}
	case *types.Array:
		return pointerishSeen(u.Elem(), seen)
	case *types.Tuple:
		for i := 0; i < u.Len(); i++ {
			if pointerishSeen(u.At(i).Type(), seen) {
				return true
			}
		}
	}
	return false
}

// mutate records a write into the storage designated by v's own pointers.
func (it *interp) mutate(v *AV, in ssa.Instruction, what string, val ssa.Value) {
	for _, o := range v.objs() {
		it.event(evMutate, o, in, what, val)
	}
}

// loadFrom reads the abstract value stored at the locations p designates.
func (it *interp) loadFrom(p *AV) *AV {
	out := newAV()
	for l := range p.Ptrs {
		out.join(it.content(l.Obj).at(l.Path))
	}
	return out
}

func (it *interp) storeTo(p *AV, v *AV) {
	if v.isEmpty() {
		return
	}
	for l := range p.Ptrs {
		if it.content(l.Obj).ensure(l.Path).join(v) {
			it.changed = true
		}
	}
}

// analyze interprets fn with abstract arguments (free variables appended
// after the parameters) and returns its abstract results as a tuple value.
func (it *interp) analyze(fn *ssa.Function, args []*AV, site ssa.Instruction) *AV {
	if fn == nil || fn.Blocks == nil {
		return newAV()
	}
	var sb strings.Builder
	fmt.Fprintf(&sb, "%p", fn)
	for _, a := range args {
		a.sig(&sb)
	}
	key := sb.String()
	me := it.memo[key]
	if me == nil {
		me = &memoEntry{id: len(it.memo) + 1, results: newAV()}
		it.memo[key] = me
	}
	if me.busy || me.round == it.round {
		return me.results
	}
	if len(it.stack) > it.maxDepth {
		it.event(evUndecided, nil, site, "call depth bound exceeded while following slice values", nil)
		return me.results
	}
	me.busy = true
	me.round = it.round
	it.funcsHit[fn] = true
	frame := it.p.FuncName(fn)
	if site != nil {
		frame = fmt.Sprintf("%s (called at %s)", frame, posOf(it.p, site))
	}
	it.stack = append(it.stack, frame)
	defer func() {
		it.stack = it.stack[:len(it.stack)-1]
		me.busy = false
	}()

	env := map[ssa.Value]*AV{}
	for i, par := range fn.Params {
		if i < len(args) {
			env[par] = args[i]
		}
	}
	for i, fv := range fn.FreeVars {
		if len(fn.Params)+i < len(args) {
			env[fv] = args[len(fn.Params)+i]
		}
	}
	get := func(v ssa.Value) *AV {
		switch x := v.(type) {
		case nil:
			return newAV()
		case *ssa.Const:
			return newAV()
		case *ssa.Function:
			return &AV{Fns: map[*ssa.Function]*AV{x: newAV()}}
		case *ssa.Global:
			o := it.obj("g:"+x.String(), okGlobal, "global "+x.Name(), x.Pos())
			return &AV{Ptrs: map[Loc]bool{{o, ""}: true}}
		case *ssa.Builtin:
			return newAV()
		}
		if a, ok := env[v]; ok {
			return a
		}
		return newAV()
	}
	set := func(v ssa.Value, a *AV) bool {
		if env[v] == nil {
			env[v] = newAV()
		}
		return env[v].join(a)
	}
	for pass := 0; pass < 12; pass++ {
		progress := false
		for _, b := range fn.Blocks {
			for _, in := range b.Instrs {
				if it.step(fn, me, in, get, set) {
					progress = true
				}
			}
		}
		if !progress {
			break
		}
	}
	// results
	for _, ret := range returnsOf(fn) {
		for i, rv := range ret.Results {
			if me.results.ensure(fmt.Sprintf(".%d", i)).join(get(rv)) {
				it.changed = true
			}
		}
	}
	return me.results
}

func (it *interp) fresh(me *memoEntry, in ssa.Instruction, kind objKind, what string) *Obj {
	// Allocation-site abstraction (not qualified by the calling context):
	// objects created here are never caller-owned, so conflating the arrays
	// one site allocates in different contexts cannot produce or hide a write
	// to a caller-owned array; it keeps the number of contexts finite when a
	// fresh result is fed back as an argument in a loop.
	return it.obj(fmt.Sprintf("%p", in), kind, fmt.Sprintf("%s@%s", what, posOf(it.p, in)), InstrPos(in))
}

// step interprets one instruction; reports whether the environment changed.
func (it *interp) step(fn *ssa.Function, me *memoEntry, in ssa.Instruction, get func(ssa.Value) *AV, set func(ssa.Value, *AV) bool) bool {
	switch x := in.(type) {
	case *ssa.Alloc:
		o := it.fresh(me, x, okCell, "var "+x.Comment)
		return set(x, &AV{Ptrs: map[Loc]bool{{o, ""}: true}})
	case *ssa.MakeSlice:
		o := it.fresh(me, x, okFresh, "make")
		return set(x, &AV{Ptrs: map[Loc]bool{{o, ""}: true}})
	case *ssa.MakeMap:
		o := it.fresh(me, x, okFresh, "map")
		return set(x, &AV{Ptrs: map[Loc]bool{{o, ""}: true}})
	case *ssa.MakeChan:
		return false
	case *ssa.Slice:
		src := get(x.X)
		out := newAV()
		out.Ptrs = map[Loc]bool{}
		for l := range src.Ptrs {
			out.Ptrs[l] = true
		}
		out.Shrunk = src.Shrunk
		if x.High != nil {
			if _, isSlice := x.X.Type().Underlying().(*types.Slice); isSlice {
				if s, ok := lenArg(x.High); !ok || s != x.X {
					out.Shrunk = true
				}
			}
		}
		return set(x, out)
	case *ssa.IndexAddr:
		src := get(x.X)
		out := &AV{Ptrs: map[Loc]bool{}}
		for l := range src.Ptrs {
			out.Ptrs[l] = true
		}
		return set(x, out)
	case *ssa.Index:
		// element of an array value
		return set(x, get(x.X))
	case *ssa.FieldAddr:
		src := get(x.X)
		out := &AV{Ptrs: map[Loc]bool{}}
		for l := range src.Ptrs {
			out.Ptrs[Loc{l.Obj, fmt.Sprintf("%s.%d", l.Path, x.Field)}] = true
		}
		return set(x, out)
	case *ssa.Field:
		return set(x, get(x.X).field(x.Field))
	case *ssa.UnOp:
		if x.Op == token.MUL {
			if !pointerish(x.Type()) {
				return false
			}
			// Strong update for a private cell: a field of a local variable whose
			// address never leaves the function is read as what the stores that
			// reach this load put there, not as everything ever stored in it.
			if defs, ok := it.reachingDefs(fn, x); ok {
				out := newAV()
				for _, d := range defs {
					v := get(d.st.Val)
					if d.whole {
						v = v.field(d.field)
					}
					out.join(v)
				}
				return set(x, out)
			}
			return set(x, it.loadFrom(get(x.X)))
		}
		return false
	case *ssa.Store:
		ptr := get(x.Addr)
		val := get(x.Val)
		// A store through a pointer into the element storage of a backing
		// array is a mutation of that array (cells are plain variables).
		for l := range ptr.Ptrs {
			switch l.Obj.Kind {
			case okParam, okFresh, okUnknown:
				it.event(evMutate, l.Obj, x, "element store", x.Val)
			case okRecv:
				if _, isIA := x.Addr.(*ssa.IndexAddr); isIA || addrIntoElems(x.Addr) {
					it.event(evMutate, l.Obj, x, "element store", x.Val)
				}
			}
		}
		if pointerish(x.Val.Type()) {
			it.storeTo(ptr, val)
		}
		return false
	case *ssa.Phi:
		ch := false
		for _, e := range x.Edges {
			if set(x, get(e)) {
				ch = true
			}
		}
		return ch
	case *ssa.Extract:
		return set(x, get(x.Tuple).field(x.Index))
	case *ssa.MakeInterface:
		a := get(x.X).clone()
		if a.Dyn == nil {
			a.Dyn = map[string]types.Type{}
		}
		a.Dyn[x.X.Type().String()] = x.X.Type()
		return set(x, a)
	case *ssa.ChangeType:
		return set(x, get(x.X))
	case *ssa.ChangeInterface:
		return set(x, get(x.X))
	case *ssa.Convert:
		if pointerish(x.Type()) && pointerish(x.X.Type()) {
			return set(x, get(x.X))
		}
		if _, ok := x.Type().Underlying().(*types.Slice); ok { // string -> []byte
			o := it.fresh(me, x, okFresh, "convert")
			return set(x, &AV{Ptrs: map[Loc]bool{{o, ""}: true}})
		}
		return false
	case *ssa.SliceToArrayPointer:
		return set(x, get(x.X))
	case *ssa.TypeAssert:
		a := get(x.X)
		if x.CommaOk {
			return set(x, &AV{Fields: map[int]*AV{0: a}})
		}
		return set(x, a)
	case *ssa.MakeClosure:
		cf, _ := x.Fn.(*ssa.Function)
		if cf == nil {
			return false
		}
		binds := &AV{Fields: map[int]*AV{}}
		for i, b := range x.Bindings {
			binds.Fields[i] = get(b)
		}
		// interpret the body once at creation with its bindings (its effects on
		// captured storage happen in the creating frame: closures run synchronously)
		args := make([]*AV, len(cf.Params)+len(cf.FreeVars))
		for i := range cf.Params {
			args[i] = newAV()
		}
		for i := range cf.FreeVars {
			args[len(cf.Params)+i] = binds.field(i)
		}
		it.analyze(cf, args, x)
		return set(x, &AV{Fns: map[*ssa.Function]*AV{cf: binds}})
	case *ssa.Lookup:
		if !pointerish(x.Type()) {
			return false
		}
		v := it.loadFrom(get(x.X))
		if x.CommaOk {
			return set(x, &AV{Fields: map[int]*AV{0: v}})
		}
		return set(x, v)
	case *ssa.MapUpdate:
		if pointerish(x.Value.Type()) {
			it.storeTo(get(x.Map), get(x.Value))
		}
		return false
	case *ssa.Range:
		return set(x, get(x.X))
	case *ssa.Next:
		if x.IsString {
			return false
		}
		v := it.loadFrom(get(x.Iter))
		return set(x, &AV{Fields: map[int]*AV{2: v}})
	case *ssa.Call:
		res := it.call(fn, me, x, x.Common(), get)
		if res == nil {
			return false
		}
		if x.Common().Signature().Results().Len() == 1 {
			return set(x, res.field(0))
		}
		return set(x, res)
	case *ssa.Defer:
		it.call(fn, me, x, x.Common(), get)
		return false
	case *ssa.Go:
		it.event(evUndecided, nil, x, "go statement", nil)
		return false
	case *ssa.Return, *ssa.If, *ssa.Jump, *ssa.RunDefers, *ssa.Panic, *ssa.DebugRef, *ssa.BinOp, *ssa.Send, *ssa.Select:
		return false
	}
	return false
}

// addrIntoElems: the address was derived from an IndexAddr through field
// selections (&s[i].f).
func addrIntoElems(a ssa.Value) bool {
	for {
		switch x := a.(type) {
		case *ssa.FieldAddr:
			a = x.X
		case *ssa.IndexAddr:
			_, isSlice := x.X.Type().Underlying().(*types.Slice)
			return isSlice
		default:
			return false
		}
	}
}

func (it *interp) call(fn *ssa.Function, me *memoEntry, site ssa.Instruction, cc *ssa.CallCommon, get func(ssa.Value) *AV) *AV {
	it.callsHit++
	args := make([]*AV, len(cc.Args))
	for i, a := range cc.Args {
		args[i] = get(a)
	}
	tuple := func(vs ...*AV) *AV {
		t := &AV{Fields: map[int]*AV{}}
		for i, v := range vs {
			t.Fields[i] = v
		}
		return t
	}
	// builtins
	if b := builtinName(cc); b != "" {
		switch b {
		case "append":
			out := newAV()
			if len(args) > 0 {
				for l := range args[0].Ptrs {
					if out.Ptrs == nil {
						out.Ptrs = map[Loc]bool{}
					}
					out.Ptrs[l] = true
				}
				if args[0].Shrunk && len(args) > 1 {
					it.mutate(args[0], site, "append to a re-sliced (shortened) slice overwrites its tail", nil)
				}
			}
			o := it.fresh(me, site, okFresh, "append")
			if out.Ptrs == nil {
				out.Ptrs = map[Loc]bool{}
			}
			out.Ptrs[Loc{o, ""}] = true
			// element content flows into the result arrays
			if len(args) > 1 && pointerishElem(cc.Args[0].Type()) {
				elems := it.loadFrom(args[1])
				if len(args) > 0 {
					elems.join(it.loadFrom(args[0]))
				}
				it.storeTo(out, elems)
			}
			return tuple(out)
		case "copy":
			if len(args) == 2 {
				it.mutate(args[0], site, "copy into the slice", nil)
				if pointerishElem(cc.Args[0].Type()) {
					it.storeTo(args[0], it.loadFrom(args[1]))
				}
			}
			return tuple(newAV())
		case "clear":
			if len(args) == 1 {
				it.mutate(args[0], site, "clear", nil)
			}
			return nil
		default:
			return nil
		}
	}
	// static callee owned by the package: interpret it
	if sc := cc.StaticCallee(); sc != nil && !cc.IsInvoke() {
		if sc.Blocks != nil && it.p.owns(sc) {
			full := append([]*AV{}, args...)
			if mc, ok := cc.Value.(*ssa.MakeClosure); ok {
				for _, b := range mc.Bindings {
					full = append(full, get(b))
				}
			}
			return it.analyze(sc, full, site)
		}
		return it.external(me, site, cc, sc, args, get)
	}
	if cc.IsInvoke() {
		return it.invoke(me, site, cc, args, get)
	}
	// dynamic function value
	fv := get(cc.Value)
	out := newAV()
	known := false
	for f, binds := range fv.Fns {
		known = true
		full := append([]*AV{}, args...)
		for i := range f.FreeVars {
			full = append(full, binds.field(i))
		}
		out.join(it.analyze(f, full, site))
	}
	if !known {
		it.passToUnknown(site, "a function value the analysis cannot resolve", args)
	}
	return out
}

func pointerishElem(t types.Type) bool {
	if sl, ok := t.Underlying().(*types.Slice); ok {
		return pointerish(sl.Elem())
	}
	return false
}

// passToUnknown: protected or receiver storage handed to code the analysis has no summary for.
func (it *interp) passToUnknown(site ssa.Instruction, callee string, args []*AV) {
	seen := map[*Obj]bool{}
	for _, a := range args {
		a.allObjs(seen)
	}
	for o := range seen {
		if o.Kind == okParam {
			it.event(evUndecided, o, site, "passed to "+callee, nil)
		}
	}
}

// invoke handles interface method calls.
func (it *interp) invoke(me *memoEntry, site ssa.Instruction, cc *ssa.CallCommon, args []*AV, get func(ssa.Value) *AV) *AV {
	recv := get(cc.Value)
	// dispatch to the package's own implementations when the interface is declared here
	impls := it.p.implementations(cc)
	if len(impls) > 0 {
		out := newAV()
		for _, f := range impls {
			out.join(it.analyze(f, append([]*AV{recv}, args...), site))
		}
		return out
	}
	// dynamic types recorded at MakeInterface
	if len(recv.Dyn) > 0 {
		out := newAV()
		resolved := false
		for _, t := range recv.Dyn {
			if m := it.p.SSAProg.LookupMethod(t, cc.Method.Pkg(), cc.Method.Name()); m != nil && m.Blocks != nil && it.p.owns(m) {
				resolved = true
				out.join(it.analyze(m, append([]*AV{recv}, args...), site))
			}
		}
		if resolved {
			return out
		}
	}
	// known pure stdlib interfaces
	if n := namedOf(cc.Value.Type()); n != nil && n.Obj().Pkg() != nil {
		switch n.Obj().Pkg().Path() + "." + n.Obj().Name() {
		case "hash.Hash", "io.Writer", "fmt.Stringer":
			return newAV()
		case "io.Reader":
			if len(args) == 1 {
				it.mutate(args[0], site, "Read into the slice", nil)
			}
			return newAV()
		}
	}
	if cc.Method.Name() == "Error" && cc.Signature().Params().Len() == 0 {
		return newAV()
	}
	it.passToUnknown(site, "an interface method the analysis has no summary for ("+cc.Method.Name()+")", args)
	return newAV()
}

// external applies the stdlib summary table.
func (it *interp) external(me *memoEntry, site ssa.Instruction, cc *ssa.CallCommon, sc *ssa.Function, args []*AV, get func(ssa.Value) *AV) *AV {
	pkg, name := "", sc.Name()
	if sc.Pkg != nil {
		pkg = sc.Pkg.Pkg.Path()
	} else if o := sc.Origin(); o != nil && o.Pkg != nil {
		pkg, name = o.Pkg.Pkg.Path(), o.Name()
	}
	recvT := ""
	if r := sc.Signature.Recv(); r != nil {
		if n := namedOf(r.Type()); n != nil {
			recvT = n.Obj().Name()
			if n.Obj().Pkg() != nil {
				pkg = n.Obj().Pkg().Path()
			}
		}
	}
	tuple := func(vs ...*AV) *AV {
		t := &AV{Fields: map[int]*AV{}}
		for i, v := range vs {
			t.Fields[i] = v
		}
		return t
	}
	full := pkg + "." + name
	if recvT != "" {
		full = pkg + "." + recvT + "." + name
	}
	switch pkg {
	case "sort":
		switch name {
		case "Slice", "SliceStable":
			it.mutate(args[0], site, "sorted in place by sort."+name, nil)
			return newAV()
		case "Sort", "Stable":
			// sort.Sort(data): data's Swap runs on the dynamic value
			done := false
			for _, t := range args[0].Dyn {
				if m := it.p.SSAProg.LookupMethod(t, nil, "Swap"); m != nil && m.Blocks != nil {
					it.analyze(m, []*AV{args[0], newAV(), newAV()}, site)
					done = true
				}
			}
			if !done {
				it.passToUnknown(site, "sort."+name+" on a value whose dynamic type is unknown", args)
			}
			return newAV()
		case "Search", "SearchInts", "SliceIsSorted", "IsSorted":
			return tuple(newAV())
		}
	case "slices", "golang.org/x/exp/slices":
		switch name {
		case "Sort", "SortFunc", "SortStableFunc", "Reverse":
			it.mutate(args[0], site, "reordered in place by slices."+name, nil)
			return newAV()
		case "Delete", "DeleteFunc", "Compact", "CompactFunc":
			it.mutate(args[0], site, "elements moved in place by slices."+name, nil)
			out := args[0].clone()
			out.Shrunk = true
			return tuple(out)
		case "Insert", "Replace", "Grow", "Clip":
			if name == "Insert" || name == "Replace" {
				it.mutate(args[0], site, "elements moved in place by slices."+name, nil)
			}
			out := args[0].clone()
			o := it.fresh(me, site, okFresh, "slices."+name)
			if out.Ptrs == nil {
				out.Ptrs = map[Loc]bool{}
			}
			out.Ptrs[Loc{o, ""}] = true
			return tuple(out)
		case "Clone":
			o := it.fresh(me, site, okFresh, "slices.Clone")
			out := &AV{Ptrs: map[Loc]bool{{o, ""}: true}}
			it.storeTo(out, it.loadFrom(args[0]))
			return tuple(out)
		case "Index", "IndexFunc", "Contains", "ContainsFunc", "Equal", "EqualFunc", "BinarySearch", "BinarySearchFunc",
			"Max", "Min", "MaxFunc", "MinFunc", "IsSorted", "IsSortedFunc", "Compare", "CompareFunc":
			return tuple(newAV(), newAV())
		}
	case "fmt", "errors", "strings", "strconv", "math", "math/bits", "encoding/hex", "unicode/utf8", "bytes":
		if pkg == "strings" && recvT == "Builder" {
			return tuple(newAV(), newAV())
		}
		return tuple(newAV(), newAV())
	case "encoding/binary":
		if strings.HasPrefix(name, "Put") || strings.HasPrefix(name, "Append") {
			if len(args) >= 2 {
				it.mutate(args[1], site, "binary."+name+" writes into the slice", nil)
			}
		}
		return tuple(newAV(), newAV())
	case "io":
		switch name {
		case "ReadFull", "ReadAtLeast":
			if len(args) >= 2 {
				it.mutate(args[1], site, "io."+name+" reads into the slice", nil)
			}
			return tuple(newAV(), newAV())
		}
	case "crypto/sha512", "crypto/sha256":
		o := it.fresh(me, site, okFresh, full)
		return tuple(&AV{Ptrs: map[Loc]bool{{o, ""}: true}})
	case "sync":
		return newAV()
	}
	// unknown external callee
	hasPtr := false
	for i := range cc.Args {
		if pointerish(cc.Args[i].Type()) && !args[i].isEmpty() {
			hasPtr = true
		}
	}
	if hasPtr {
		it.passToUnknown(site, "external function "+full+" (no summary)", args)
	}
	out := newAV()
	if pointerish(sc.Signature.Results()) {
		o := it.fresh(me, site, okUnknown, "result of "+full)
		for i := 0; i < sc.Signature.Results().Len(); i++ {
			out.ensure(fmt.Sprintf(".%d", i)).join(&AV{Ptrs: map[Loc]bool{{o, ""}: true}})
		}
	}
	return out
}

// ---------------------------------------------------------------------------
// Reaching stores for private cells (strong updates).

type cellDef struct {
	st    *ssa.Store
	whole bool // the store assigns the whole variable; the field is selected from the stored value
	field int
}

type cellKey struct {
	al    *ssa.Alloc
	field int
}

// privateCell reports whether every use of the local variable al is a direct
// load or store of the variable or of one of its fields: then nothing but the
// stores of this function can change it.
func privateCell(al *ssa.Alloc) bool {
	if al.Heap {
		// captured by a closure or address taken: other code may write it
		for _, r := range *al.Referrers() {
			switch r.(type) {
			case *ssa.MakeClosure:
				return false
			}
		}
	}
	for _, r := range *al.Referrers() {
		switch u := r.(type) {
		case *ssa.Store:
			if u.Addr != al {
				return false // the address itself is stored somewhere
			}
		case *ssa.UnOp:
			if u.Op != token.MUL {
				return false
			}
		case *ssa.FieldAddr:
			for _, rr := range *u.Referrers() {
				switch uu := rr.(type) {
				case *ssa.Store:
					if uu.Addr != u {
						return false
					}
				case *ssa.UnOp:
					if uu.Op != token.MUL {
						return false
					}
				case *ssa.DebugRef:
				default:
					return false
				}
			}
		case *ssa.DebugRef:
		default:
			return false
		}
	}
	return true
}

// reachingDefs: for a load of field f of a private local variable, the stores
// that may reach it. ok is false when the load is not of that shape or when
// some path reaches the load without any store (the zero value: handled by the
// caller as an empty contribution, so ok stays true and the path adds nothing).
func (it *interp) reachingDefs(fn *ssa.Function, ld *ssa.UnOp) ([]cellDef, bool) {
	fa, ok := ld.X.(*ssa.FieldAddr)
	if !ok {
		return nil, false
	}
	al, ok := fa.X.(*ssa.Alloc)
	if !ok || al.Parent() != fn {
		return nil, false
	}
	if it.private == nil {
		it.private = map[*ssa.Alloc]bool{}
		it.cellIn = map[cellKey]map[*ssa.BasicBlock]map[*ssa.Store]bool{}
	}
	priv, seen := it.private[al]
	if !seen {
		priv = privateCell(al)
		it.private[al] = priv
	}
	if !priv {
		return nil, false
	}
	key := cellKey{al, fa.Field}
	isDef := func(in ssa.Instruction) (*ssa.Store, bool) {
		st, ok := in.(*ssa.Store)
		if !ok {
			return nil, false
		}
		if st.Addr == al {
			return st, true
		}
		if f2, ok := st.Addr.(*ssa.FieldAddr); ok && f2.X == al && f2.Field == fa.Field {
			return st, true
		}
		return nil, false
	}
	in, done := it.cellIn[key]
	if !done {
		in = map[*ssa.BasicBlock]map[*ssa.Store]bool{}
		out := map[*ssa.BasicBlock]map[*ssa.Store]bool{}
		last := map[*ssa.BasicBlock]*ssa.Store{}
		for _, b := range fn.Blocks {
			in[b] = map[*ssa.Store]bool{}
			out[b] = map[*ssa.Store]bool{}
			for _, ins := range b.Instrs {
				if st, ok := isDef(ins); ok {
					last[b] = st
				}
			}
		}
		for changed := true; changed; {
			changed = false
			for _, b := range fn.Blocks {
				for _, p := range b.Preds {
					for st := range out[p] {
						if !in[b][st] {
							in[b][st] = true
							changed = true
						}
					}
				}
				if l := last[b]; l != nil {
					if !out[b][l] || len(out[b]) != 1 {
						out[b] = map[*ssa.Store]bool{l: true}
						changed = true
					}
				} else {
					for st := range in[b] {
						if !out[b][st] {
							out[b][st] = true
							changed = true
						}
					}
				}
			}
		}
		it.cellIn[key] = in
	}
	// the last store before the load in its own block, else what reaches the block
	b := ld.Block()
	var local *ssa.Store
	for _, ins := range b.Instrs {
		if ins == ssa.Instruction(ld) {
			break
		}
		if st, ok := isDef(ins); ok {
			local = st
		}
	}
	mk := func(st *ssa.Store) cellDef {
		return cellDef{st: st, whole: st.Addr == al, field: fa.Field}
	}
	if local != nil {
		return []cellDef{mk(local)}, true
	}
	var defs []cellDef
	for st := range in[b] {
		defs = append(defs, mk(st))
	}
	sort.Slice(defs, func(i, j int) bool { return defs[i].st.Pos() < defs[j].st.Pos() })
	return defs, true
}
