package main

func init() {
	register(&PropertyDef{
		ID:    "C04",
		Title: "Verifiers are total on untrusted input and reject atomically",
		Explanation: "Over the verification closure (everything statically reachable from Verify, (*Stump).Update, (*Pollard).Verify, (*MapPollard).Verify and " +
			"VerifyPartialProof): a rejected (*Stump).Update writes nothing — no write to the roots or the leaf count can be followed by a failing return, with callee " +
			"writes refined to their success edge (R04a, decided completely for that clause); every discarded error is excluded by a dominating guard on the same SSA " +
			"values, the callee's error condition being extracted from the callee (R04b); every loop matches a terminating idiom or a reviewed entry, and the reviewed " +
			"merge loop consumes an element on every path to its latch (R04c); the hashing core sees caller hashes only behind a length check (R04d); caller-supplied " +
			"slices are indexed by counters only behind a length bound (R04e).",
		NotDecided: "absence of index panics in general (parallel internal slices), polynomial running time beyond loop termination, the two reviewed termination " +
			"arguments themselves, uint8 counter wrap-around for forests above 254 rows (bounds are TreeRows values <= 64), MapPollard state after a rejected Verify.",
		Rules: []RuleDef{{ID: "R04", Statement: "totality and atomic rejection of the verifiers", Run: runC04}},
	})
}
