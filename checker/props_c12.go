package main

import "golang.org/x/tools/go/ssa"

func init() {
	register(&PropertyDef{
		ID:    "C12",
		Title: "The map forest is race-free and every query sees a whole-block state",
		Explanation: "Lockset analysis (E4) of the struct carrying the sync.RWMutex (MapPollard): every load/store of a guarded field and every call of a " +
			"reader/writer method on the guarded interface fields happens while the right lock mode is held on every path (R12a, with requirements of " +
			"non-locking internal functions propagated to every entry call site); no function holding the lock reaches one that acquires it (R12b); no path " +
			"re-acquires the lock after releasing it, so delete+add / undo-add+undo-delete form one critical section (R12c); fields read without the lock are " +
			"written only on local values under construction (R12d); closures touching guarded state are consumed synchronously and no goroutine is started (R12e); " +
			"every return releases exactly what is held (R12f). Decided for all schedules: absence of unsynchronised access through the package's own code, mutual " +
			"exclusion of writers with every query, single-section blocks, no self-deadlock, no lock leak.",
		NotDecided: "that the value a query returns is correct for that state; panics; user-supplied NodesInterface/CachedLeavesInterface implementations; " +
			"direct access to exported fields from outside the package; String() composing several individually locked getters.",
		Assumptions: []string{"all goroutines reach the forest only through the package's exported functions and methods", "a single MapPollard instance is involved in each call (no function handles two instances)"},
		Rules: []RuleDef{
			{ID: "R12", Statement: "lockset discipline for the struct carrying the RWMutex", Run: runLockset},
			{ID: "R12i", Statement: "the lock is released by defer wherever the section calls other code", Run: func(p *Program, r *Report) {
				r.Rule("R12i", "RELEASE-IS-DEFERRED: a function that acquires the lock and makes any call inside the section releases it with defer (the node store, the leaf index and the serialization streams are the user's code: a recovered panic in there must not leave the lock held)")
				checkReleaseDeferred(p, r, "R12i")
			}},
			{ID: "R12h", Statement: "the mutex of a live forest is never replaced", Run: func(p *Program, r *Report) {
				r.Rule("R12h", "LOCK-NEVER-REPLACED: no live instance of the struct that carries the lock is overwritten as a whole, and its lock field is never re-assigned (everybody has to lock the same mutex)")
				checkLockNeverReplaced(p, r, "R12h")
			}},
			{ID: "R12g", Statement: "one critical section per exported method, callees included", Run: func(p *Program, r *Report) {
				r.Rule("R12g", "ATOMIC-QUERY: every exported method of the map forest enters at most one critical section on any path, counting the sections of the functions it calls (a query assembled from separately locked getters can mix two block states)")
				acq := transitiveAcquirers(p)
				checkAtomicQuery(p, r, "R12g", func(f *ssa.Function) bool { return acq[f] }, map[string]string{
					"(*MapPollard).String":              "debug printing through the generic ToString helpers composes several locked getters; it is not one of the queries the property lists",
					"(*MapPollard).AllSubTreesToString": "debug printing through the generic ToString helpers composes several locked getters; it is not one of the queries the property lists",
				})
			}},
		},
	})
}
