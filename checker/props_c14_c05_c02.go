package main

func init() {
	register(&PropertyDef{
		ID:    "C14",
		Title: "Proof combination, restriction and completion are exact",
		Explanation: "Order-class abstract interpretation (E7) of the proof-algebra entries and of the consumers of their results. Every backing array is followed " +
			"flow-sensitively through copies, re-slices, in-place sorts, struct fields, local variables and calls (callees re-analysed per abstract context); its contents " +
			"are classified as raw(g) = the caller's order of parallel group g, sorted(g), canonical proof order canon(g), or locally assembled. R14a: at every site that " +
			"combines positions with hashes index by index (toHashAndPos, hashAndPos{a,b}, AppendMany, a[i]/b[i] under one index) both operands are in the same class - " +
			"the statement's 'targets and hashes given in any parallel order'. R14b: no slice still in a caller-chosen order reaches a function documented as requiring " +
			"sorted input. R14c: GetProofSubset succeeds only behind the test 'wants minus proof targets is empty'. R14d: GetProofSubset returns hashes and targets in " +
			"the order of the request.",
		NotDecided: "canonicity and exactness of merged / restricted proofs, exactness of the missing positions, that supplying them makes verification succeed (position " +
			"arithmetic); element rewrites inside an already sorted slice are not tracked.",
		Assumptions: []string{"order contracts of the API entries (which parameter is parallel to which) are tabled from the documentation", "the requires-sorted table is taken from the repository's 'MUST be sorted' comments"},
		Rules:       []RuleDef{{ID: "R14", Statement: "order classes over the proof algebra", Run: runC14}},
	})
	register(&PropertyDef{
		ID:    "C05",
		Title: "An accepted block is applied identically by every implementation",
		Explanation: "The clause 'for every accepted encoding of the proof - any target order, trailing unused proof hashes' is decided structurally. R05a (E7 order classes): " +
			"from the proof/hash parameters of verification, block application and undo, no slice in the caller's order reaches a requires-sorted function, and hashes are " +
			"paired with targets only in the same order class. R05b: neither forest's Modify reads Proof.Proof anywhere in its call closure, so junk, trailing or " +
			"non-canonical proof hashes cannot influence the forests (a sufficient argument for that clause). R05c: all three implementations delete before they add.",
		NotDecided:  "that the three implementations compute equal roots (position arithmetic, hashing) and that they equal the reference value.",
		Assumptions: []string{"order contracts of the API entries are tabled from the documentation"},
		Rules:       []RuleDef{{ID: "R05", Statement: "order independence and proof-hash non-interference of block application", Run: runC05}},
	})
	register(&PropertyDef{
		ID:    "C02",
		Title: "Every live leaf set is provable; proofs are canonical and verify everywhere",
		Explanation: "Thin claim on both provers. R02a (E7 order classes): the returned targets are filled index by index from the requested hashes (request order) and the " +
			"returned proof hashes are filled in the order of ProofPositions applied to a sorted copy of those same targets (canonical order). R02b: the request order never " +
			"reaches ProofPositions. R02c: a hash that cannot be read makes the prover return an error, never a proof with a hole.",
		NotDecided: "that positions are the true ones, that the proof verifies, equality of the two provers' outputs, that every tracked leaf set is provable.",
		Rules: []RuleDef{{ID: "R02", Statement: "order and completeness discipline of the provers", Run: runC02},
			{ID: "R02f", Statement: "a full pointer forest keeps every node it creates", Run: func(p *Program, r *Report) {
				r.Rule("R02f", "FULL-KEEPS-CREATED: every node the pointer forest creates while applying a block is marked to be kept when the forest is full (the flag is stored from the forest's full setting, or set to true under a test of it)")
				checkFullKeepsCreated(p, r, "R02f")
			}},
			{ID: "R02g", Statement: "nieces are pruned in pairs", Run: func(p *Program, r *Report) {
				r.Rule("R02g", "PRUNE-IN-PAIRS: the pointer forest drops a niece only under a condition on the keep flags of both nieces (a proof needs both children of a node or neither)")
				checkPruneInPairs(p, r, "R02g")
			}}},
	})
}
