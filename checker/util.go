package main

import (
	"go/ast"
	"go/token"
	"go/types"
	"sort"
	"strings"

	"golang.org/x/tools/go/ssa"
)

func isCall(in ssa.Instruction) bool {
	switch in.(type) {
	case *ssa.Call, *ssa.Defer, *ssa.Go:
		return true
	}
	return false
}

// forbiddenFeatures lists uses of features outside the analysis' assumptions.
func forbiddenFeatures(p *Program) []string {
	var bad []string
	for _, imp := range p.Types.Imports() {
		switch imp.Path() {
		case "unsafe", "reflect", "C":
			bad = append(bad, "import "+imp.Path())
		}
	}
	for _, f := range p.Files {
		for _, cg := range f.Comments {
			for _, c := range cg.List {
				if strings.HasPrefix(c.Text, "//go:linkname") {
					bad = append(bad, "go:linkname at "+p.Pos(c.Pos()))
				}
			}
		}
	}
	for _, fn := range p.Funcs {
		for _, b := range fn.Blocks {
			for _, in := range b.Instrs {
				if g, ok := in.(*ssa.Go); ok {
					bad = append(bad, "go statement in "+p.FuncName(fn)+" at "+p.Pos(g.Pos()))
				}
			}
		}
	}
	sort.Strings(bad)
	return bad
}

// deref returns the pointee type of a pointer type, or t itself.
func deref(t types.Type) types.Type {
	if pt, ok := t.Underlying().(*types.Pointer); ok {
		return pt.Elem()
	}
	return t
}

// namedOf returns the *types.Named behind t (through one pointer), or nil.
func namedOf(t types.Type) *types.Named {
	t = deref(t)
	if n, ok := types.Unalias(t).(*types.Named); ok {
		return n
	}
	return nil
}

// typeIs reports whether t (through one pointer) is the named type pkgPath.name.
func typeIs(t types.Type, pkgPath, name string) bool {
	n := namedOf(t)
	if n == nil || n.Obj() == nil {
		return false
	}
	if n.Obj().Name() != name {
		return false
	}
	if n.Obj().Pkg() == nil {
		return pkgPath == ""
	}
	return n.Obj().Pkg().Path() == pkgPath
}

// localNamed reports whether t (through one pointer) is the package's own
// named type with this name.
func (p *Program) localNamed(t types.Type, name string) bool {
	n := namedOf(t)
	return n != nil && n.Obj() != nil && n.Obj().Pkg() == p.Types && n.Obj().Name() == name
}

// lookupStruct finds a named struct type of the package.
func (p *Program) lookupStruct(name string) (*types.Named, *types.Struct) {
	obj := p.Types.Scope().Lookup(name)
	if obj == nil {
		return nil, nil
	}
	n, ok := obj.Type().(*types.Named)
	if !ok {
		return nil, nil
	}
	st, ok := n.Underlying().(*types.Struct)
	if !ok {
		return n, nil
	}
	return n, st
}

// fieldName returns the name of field idx of the struct behind t.
func fieldName(t types.Type, idx int) string {
	st, ok := deref(t).Underlying().(*types.Struct)
	if !ok || idx >= st.NumFields() {
		return "?"
	}
	return st.Field(idx).Name()
}

// calleeFunc returns the statically known callee (function or method,
// including interface methods) of a call as a *types.Func, or nil.
func calleeFunc(c *ssa.CallCommon) *types.Func {
	if c.IsInvoke() {
		return c.Method
	}
	if sc := c.StaticCallee(); sc != nil {
		if f, ok := sc.Object().(*types.Func); ok {
			return f
		}
		if o := sc.Origin(); o != nil {
			if f, ok := o.Object().(*types.Func); ok {
				return f
			}
		}
	}
	return nil
}

// isPkgFunc reports whether c is a static call to pkgPath.name (package-level
// function) — for generic functions the origin is compared.
func isPkgFunc(c *ssa.CallCommon, pkgPath, name string) bool {
	if c.IsInvoke() {
		return false
	}
	f := calleeFunc(c)
	if f == nil || f.Pkg() == nil {
		return false
	}
	if f.Type().(*types.Signature).Recv() != nil {
		return false
	}
	return f.Pkg().Path() == pkgPath && f.Name() == name
}

// isMethodCall reports whether c calls method `name` (static or invoke) whose
// receiver's named type is pkgPath.typeName.
func isMethodCall(c *ssa.CallCommon, pkgPath, typeName, name string) bool {
	f := calleeFunc(c)
	if f == nil || f.Name() != name {
		return false
	}
	recv := f.Type().(*types.Signature).Recv()
	if recv == nil {
		return false
	}
	return typeIs(recv.Type(), pkgPath, typeName)
}

// builtinName returns the name of the builtin called, or "".
func builtinName(c *ssa.CallCommon) string {
	if b, ok := c.Value.(*ssa.Builtin); ok {
		return b.Name()
	}
	return ""
}

// stripValue walks through value-preserving wrappers.
func stripValue(v ssa.Value) ssa.Value {
	for {
		switch x := v.(type) {
		case *ssa.ChangeType:
			v = x.X
		case *ssa.ChangeInterface:
			v = x.X
		case *ssa.MakeInterface:
			v = x.X
		case *ssa.Convert:
			// conversions between identical underlying slice types only
			if types.Identical(x.X.Type().Underlying(), x.Type().Underlying()) {
				v = x.X
			} else {
				return v
			}
		default:
			return v
		}
	}
}

// enclosingFuncDecl returns the AST declaration of a source function.
func (p *Program) funcSyntax(fn *ssa.Function) ast.Node {
	for f := fn; f != nil; f = f.Origin() {
		if f.Syntax() != nil {
			return f.Syntax()
		}
		if f.Origin() == nil {
			break
		}
	}
	return nil
}

// returnsOf lists the Return instructions of fn.
func returnsOf(fn *ssa.Function) []*ssa.Return {
	var out []*ssa.Return
	for _, b := range fn.Blocks {
		if len(b.Instrs) == 0 {
			continue
		}
		if r, ok := b.Instrs[len(b.Instrs)-1].(*ssa.Return); ok {
			out = append(out, r)
		}
	}
	return out
}

// isSpillAlloc reports whether a is a result-spill variable: go/ssa stores the
// results of functions that contain defers into such allocs right before
// rundefers and reloads them for the return instruction.
func isSpillAlloc(a *ssa.Alloc) bool {
	if a.Referrers() == nil {
		return false
	}
	loads := 0
	for _, ref := range *a.Referrers() {
		switch r := ref.(type) {
		case *ssa.Store:
			if r.Addr != a {
				return false
			}
		case *ssa.UnOp:
			if r.Op != token.MUL {
				return false
			}
			for _, rr := range *r.Referrers() {
				if _, ok := rr.(*ssa.Return); !ok {
					if _, dbg := rr.(*ssa.DebugRef); !dbg {
						return false
					}
				}
			}
			loads++
		case *ssa.DebugRef:
		default:
			return false
		}
	}
	return loads > 0
}

// retOperands returns the values a Return hands out, looking through the
// result-spill pattern of functions with defers (store; rundefers; load).
func retOperands(ret *ssa.Return) []ssa.Value {
	out := append([]ssa.Value{}, ret.Results...)
	instrs := ret.Block().Instrs
	for i, v := range out {
		u, ok := v.(*ssa.UnOp)
		if !ok || u.Op != token.MUL {
			continue
		}
		a, ok := u.X.(*ssa.Alloc)
		if !ok || !isSpillAlloc(a) {
			continue
		}
		for j := len(instrs) - 1; j >= 0; j-- {
			if st, ok := instrs[j].(*ssa.Store); ok && st.Addr == a {
				out[i] = st.Val
				break
			}
		}
	}
	return out
}

// errorResultIndex returns the index of the (last) result of type error, or -1.
func errorResultIndex(sig *types.Signature) int {
	res := sig.Results()
	for i := res.Len() - 1; i >= 0; i-- {
		if isErrorType(res.At(i).Type()) {
			return i
		}
	}
	return -1
}

func isErrorType(t types.Type) bool {
	n, ok := types.Unalias(t).(*types.Named)
	return ok && n.Obj().Pkg() == nil && n.Obj().Name() == "error"
}

// isNilConst reports whether v is the constant nil.
func isNilConst(v ssa.Value) bool {
	c, ok := v.(*ssa.Const)
	return ok && c.IsNil()
}

// instrIndex returns the index of in within its block.
func instrIndex(in ssa.Instruction) int {
	for i, x := range in.Block().Instrs {
		if x == in {
			return i
		}
	}
	return -1
}

// dominatesInstr reports whether a is executed before b on every path to b.
func dominatesInstr(a, b ssa.Instruction) bool {
	if a.Parent() != b.Parent() {
		return false
	}
	if a.Block() == b.Block() {
		return instrIndex(a) < instrIndex(b)
	}
	return a.Block().Dominates(b.Block())
}

// reachableFrom computes the set of blocks reachable from start (inclusive of
// successors only; start itself is included only when on a cycle).
func reachableBlocks(start []*ssa.BasicBlock) map[*ssa.BasicBlock]bool {
	seen := map[*ssa.BasicBlock]bool{}
	work := append([]*ssa.BasicBlock{}, start...)
	for len(work) > 0 {
		b := work[len(work)-1]
		work = work[:len(work)-1]
		if seen[b] {
			continue
		}
		seen[b] = true
		work = append(work, b.Succs...)
	}
	return seen
}

// canReach reports whether instruction a can be followed by instruction b on
// some path (a != b; same function).
func canReach(a, b ssa.Instruction) bool {
	if a.Parent() != b.Parent() {
		return false
	}
	if a.Block() == b.Block() && instrIndex(a) < instrIndex(b) {
		return true
	}
	return reachableBlocks(a.Block().Succs)[b.Block()]
}

func posOf(p *Program, in ssa.Instruction) string { return p.Pos(InstrPos(in)) }

// sortedKeys returns map keys sorted.
func sortedKeys[V any](m map[string]V) []string {
	out := make([]string, 0, len(m))
	for k := range m {
		out = append(out, k)
	}
	sort.Strings(out)
	return out
}

var _ = token.NoPos
