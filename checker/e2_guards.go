package main

import (
	"go/token"
	"go/types"

	"golang.org/x/tools/go/ssa"
)

// guard is a branch condition known to hold at a program point: cond has
// truth value Truth on every path reaching the point.
type guard struct {
	Cond  ssa.Value
	Truth bool
	If    *ssa.If
}

// guardsAt lists the conditions established by dominating branch edges: for
// every block D that dominates b and ends in an If, if the successor on one
// side has D as its only predecessor and dominates b, the condition holds
// with that truth value. (SSA values are immutable, so no kill analysis is
// needed: a guard on value v stays true for v.)
func guardsAt(b *ssa.BasicBlock) []guard {
	var out []guard
	for d := b; d != nil; d = d.Idom() {
		id := d.Idom()
		if id == nil {
			break
		}
		iff, ok := id.Instrs[len(id.Instrs)-1].(*ssa.If)
		if !ok {
			continue
		}
		for k, s := range id.Succs {
			if s == d && len(d.Preds) == 1 {
				out = append(out, normGuard(guard{Cond: iff.Cond, Truth: k == 0, If: iff}))
			}
		}
	}
	return out
}

func guardsAtInstr(in ssa.Instruction) []guard { return guardsAt(in.Block()) }

func normGuard(g guard) guard {
	for {
		u, ok := g.Cond.(*ssa.UnOp)
		if !ok || u.Op != token.NOT {
			return g
		}
		g.Cond = u.X
		g.Truth = !g.Truth
	}
}

// relation is a normalised comparison "X Op Y" that holds.
type relation struct {
	Op   token.Token
	X, Y ssa.Value
}

func negateOp(op token.Token) token.Token {
	switch op {
	case token.LSS:
		return token.GEQ
	case token.LEQ:
		return token.GTR
	case token.GTR:
		return token.LEQ
	case token.GEQ:
		return token.LSS
	case token.EQL:
		return token.NEQ
	case token.NEQ:
		return token.EQL
	}
	return token.ILLEGAL
}

func flipOp(op token.Token) token.Token {
	switch op {
	case token.LSS:
		return token.GTR
	case token.LEQ:
		return token.GEQ
	case token.GTR:
		return token.LSS
	case token.GEQ:
		return token.LEQ
	}
	return op
}

// relOf turns a guard into the comparison that holds, if it is one.
func relOf(g guard) (relation, bool) {
	bo, ok := g.Cond.(*ssa.BinOp)
	if !ok {
		return relation{}, false
	}
	op := bo.Op
	switch op {
	case token.LSS, token.LEQ, token.GTR, token.GEQ, token.EQL, token.NEQ:
	default:
		return relation{}, false
	}
	if !g.Truth {
		op = negateOp(op)
	}
	return relation{op, bo.X, bo.Y}, true
}

// holdsRel reports whether some guard establishes "x op y" (also written the
// other way round) for values matched by the predicates.
func holdsRel(gs []guard, ops []token.Token, isX, isY func(ssa.Value) bool) (guard, bool) {
	for _, g := range gs {
		r, ok := relOf(g)
		if !ok {
			continue
		}
		for _, op := range ops {
			if r.Op == op && isX(r.X) && isY(r.Y) {
				return g, true
			}
			if r.Op == flipOp(op) && isX(r.Y) && isY(r.X) {
				return g, true
			}
		}
	}
	return guard{}, false
}

// lenArg returns s when v is len(s).
func lenArg(v ssa.Value) (ssa.Value, bool) {
	v = stripConvert(v)
	c, ok := v.(*ssa.Call)
	if !ok || builtinName(c.Common()) != "len" || len(c.Common().Args) != 1 {
		return nil, false
	}
	return c.Common().Args[0], true
}

func stripConvert(v ssa.Value) ssa.Value {
	for {
		switch x := v.(type) {
		case *ssa.Convert:
			v = x.X
		case *ssa.ChangeType:
			v = x.X
		default:
			return v
		}
	}
}

// fieldRead decomposes v into (base, field name) when v reads a struct field:
// ssa.Field on a struct value, or a load through FieldAddr.
func fieldRead(v ssa.Value) (ssa.Value, string, bool) {
	switch x := v.(type) {
	case *ssa.Field:
		return x.X, fieldName(x.X.Type(), x.Field), true
	case *ssa.UnOp:
		if x.Op == token.MUL {
			if fa, ok := x.X.(*ssa.FieldAddr); ok {
				return fa.X, fieldName(fa.X.Type(), fa.Field), true
			}
		}
	}
	return nil, "", false
}

// sameValue: identical SSA values, or two reads of the same memory (loads of
// the same local variable / the same field of the same base) — used to match
// "the same proof / the same hashes" across two uses. Stores in between are
// not excluded here; callers that need it check storesBetween.
func sameValue(a, b ssa.Value) bool {
	if a == b {
		return true
	}
	if a == nil || b == nil {
		return false
	}
	ua, ok1 := a.(*ssa.UnOp)
	ub, ok2 := b.(*ssa.UnOp)
	if ok1 && ok2 && ua.Op == token.MUL && ub.Op == token.MUL {
		if ua.X == ub.X {
			return true
		}
		fa, ok1 := ua.X.(*ssa.FieldAddr)
		fb, ok2 := ub.X.(*ssa.FieldAddr)
		if ok1 && ok2 && fa.Field == fb.Field && sameValue(fa.X, fb.X) {
			return true
		}
		// the same element of a slice that the function never stores into, read twice
		ia, ok1 := ua.X.(*ssa.IndexAddr)
		ib, ok2 := ub.X.(*ssa.IndexAddr)
		if ok1 && ok2 && ia.X == ib.X && ia.Index == ib.Index && !elementsStored(ia.X) {
			return true
		}
	}
	fa, ok1 := a.(*ssa.Field)
	fb, ok2 := b.(*ssa.Field)
	if ok1 && ok2 && fa.Field == fb.Field && sameValue(fa.X, fb.X) {
		return true
	}
	// struct value loaded from a local vs. the parameter it was initialised from
	return false
}

// isParam reports whether v is (a load of the spill slot of) parameter idx of fn.
func paramOf(fn *ssa.Function, v ssa.Value) (int, bool) {
	for i, p := range fn.Params {
		if v == p {
			return i, true
		}
	}
	// parameter spilled to a local because its address/fields are taken:
	// t0 = local T (p); *t0 = p ; ... *t0
	if u, ok := v.(*ssa.UnOp); ok && u.Op == token.MUL {
		if a, ok := u.X.(*ssa.Alloc); ok {
			if i, ok := spillOfParam(fn, a); ok {
				return i, true
			}
		}
	}
	return -1, false
}

// spillOfParam: a is the local copy of parameter i (first store into it is the parameter).
func spillOfParam(fn *ssa.Function, a *ssa.Alloc) (int, bool) {
	if a.Referrers() == nil {
		return -1, false
	}
	for _, ref := range *a.Referrers() {
		if st, ok := ref.(*ssa.Store); ok && st.Addr == a {
			for i, p := range fn.Params {
				if st.Val == p {
					return i, true
				}
			}
		}
	}
	return -1, false
}

// paramFieldRead reports whether v reads field `field` of parameter idx of fn
// (struct passed by value, possibly spilled to a local).
func paramFieldRead(fn *ssa.Function, v ssa.Value, idx int, field string) bool {
	base, f, ok := fieldRead(v)
	if !ok || f != field {
		return false
	}
	if i, ok := paramOf(fn, base); ok && i == idx {
		return true
	}
	if a, ok := base.(*ssa.Alloc); ok {
		if i, ok := spillOfParam(fn, a); ok && i == idx {
			return true
		}
	}
	return false
}

// derivesFrom reports whether v's backward slice (through arithmetic,
// conversions, phis, field reads, index/len) contains a value satisfying pred.
func derivesFrom(v ssa.Value, pred func(ssa.Value) bool, maxDepth int) bool {
	seen := map[ssa.Value]bool{}
	var walk func(v ssa.Value, d int) bool
	walk = func(v ssa.Value, d int) bool {
		if v == nil || seen[v] || d > maxDepth {
			return false
		}
		seen[v] = true
		if pred(v) {
			return true
		}
		switch x := v.(type) {
		case *ssa.BinOp:
			return walk(x.X, d+1) || walk(x.Y, d+1)
		case *ssa.UnOp:
			return walk(x.X, d+1)
		case *ssa.Convert:
			return walk(x.X, d+1)
		case *ssa.ChangeType:
			return walk(x.X, d+1)
		case *ssa.Phi:
			for _, e := range x.Edges {
				if walk(e, d+1) {
					return true
				}
			}
		case *ssa.Field:
			return walk(x.X, d+1)
		case *ssa.FieldAddr:
			return walk(x.X, d+1)
		case *ssa.IndexAddr:
			return walk(x.X, d+1) || walk(x.Index, d+1)
		case *ssa.Index:
			return walk(x.X, d+1) || walk(x.Index, d+1)
		case *ssa.Slice:
			return walk(x.X, d+1)
		case *ssa.Extract:
			return walk(x.Tuple, d+1)
		case *ssa.Call:
			if b := builtinName(x.Common()); b == "len" || b == "cap" {
				return walk(x.Common().Args[0], d+1)
			}
		}
		return false
	}
	return walk(v, 0)
}

// elemLoadOf reports whether v is a load of an element of slice s
// (*(&s[i])) or, for field-of-element reads, of a field thereof.
func elemLoadOf(v ssa.Value, isSlice func(ssa.Value) bool) bool {
	u, ok := v.(*ssa.UnOp)
	if !ok || u.Op != token.MUL {
		return false
	}
	switch a := u.X.(type) {
	case *ssa.IndexAddr:
		return isSlice(a.X)
	case *ssa.FieldAddr:
		// field of *element (slice of pointers): (*s[i]).f
		if uu, ok := a.X.(*ssa.UnOp); ok && uu.Op == token.MUL {
			if ia, ok := uu.X.(*ssa.IndexAddr); ok {
				return isSlice(ia.X)
			}
		}
		if ia, ok := a.X.(*ssa.IndexAddr); ok {
			return isSlice(ia.X)
		}
	}
	return false
}

func isHashType(t types.Type) bool {
	arr, ok := t.Underlying().(*types.Array)
	if !ok || arr.Len() != 32 {
		return false
	}
	b, ok := arr.Elem().Underlying().(*types.Basic)
	return ok && b.Kind() == types.Byte
}

func isHashSlice(t types.Type) bool {
	sl, ok := t.Underlying().(*types.Slice)
	return ok && isHashType(sl.Elem())
}

// elementsStored: some element of the slice value s is stored through an
// IndexAddr on s (in the function that defines the referrers).
func elementsStored(s ssa.Value) bool {
	if s.Referrers() == nil {
		return true
	}
	for _, ref := range *s.Referrers() {
		ia, ok := ref.(*ssa.IndexAddr)
		if !ok || ia.Referrers() == nil {
			continue
		}
		for _, r2 := range *ia.Referrers() {
			if st, ok := r2.(*ssa.Store); ok && st.Addr == ia {
				return true
			}
		}
	}
	return false
}
