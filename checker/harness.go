package main

import (
	"encoding/json"
	"fmt"
	"os"
	"os/exec"
	"path/filepath"
	"sort"
	"strings"
	"sync"
)

// ---------------------------------------------------------------------------
// Controls: tiny packages under checker/testdata/controls/<prop>/ named
// bad_<RULE>_<what> (the rule must fire) or good_<RULE>_<what> (the rule must
// stay silent). They are analysed with exactly the same rule code as /repo.

type ControlResult struct {
	Name   string `json:"name"`
	Rule   string `json:"rule"`
	Want   string `json:"want"`
	Got    string `json:"got"`
	OK     bool   `json:"ok"`
	Detail string `json:"detail,omitempty"`
}

func runControls(def *PropertyDef, dir string) ([]ControlResult, bool) {
	ents, err := os.ReadDir(dir)
	if err != nil {
		return nil, true // property without controls
	}
	var names []string
	for _, e := range ents {
		if e.IsDir() && (strings.HasPrefix(e.Name(), "bad_") || strings.HasPrefix(e.Name(), "good_")) {
			names = append(names, e.Name())
		}
	}
	sort.Strings(names)
	res := make([]ControlResult, len(names))
	var wg sync.WaitGroup
	sem := make(chan struct{}, 8)
	for i, name := range names {
		wg.Add(1)
		go func(i int, name string) {
			defer wg.Done()
			sem <- struct{}{}
			defer func() { <-sem }()
			res[i] = runControl(def, dir, name)
		}(i, name)
	}
	wg.Wait()
	ok := true
	for _, r := range res {
		ok = ok && r.OK
	}
	return res, ok
}

func runControl(def *PropertyDef, dir, name string) (cr ControlResult) {
	parts := strings.SplitN(name, "_", 3)
	cr = ControlResult{Name: name}
	if len(parts) < 2 {
		cr.Detail = "bad control name"
		return
	}
	cr.Rule = parts[1]
	cr.Want = map[string]string{"bad": "fires", "good": "silent"}[parts[0]]
	defer func() {
		if e := recover(); e != nil {
			cr.OK = false
			cr.Got = "panic"
			cr.Detail = fmt.Sprint(e)
		}
	}()
	p, err := Load(LoadConfig{Dir: filepath.Join(dir, name)})
	if err != nil {
		cr.Got = "load error"
		cr.Detail = err.Error()
		return
	}
	rep := NewReport(def.ID)
	rep.curCfg = "control"
	runRules(def, p, rep, cr.Rule)
	fired := 0
	var details []string
	for _, o := range rep.Obs {
		if strings.HasPrefix(o.Rule, cr.Rule) && (o.Status == Violated || o.Status == Undecided) {
			fired++
			details = append(details, o.Rule+" "+o.Key+": "+o.Detail)
		}
	}
	if fired > 0 {
		cr.Got = "fires"
	} else {
		cr.Got = "silent"
	}
	cr.OK = cr.Got == cr.Want
	if !cr.OK || parts[0] == "bad" {
		if len(details) > 3 {
			details = details[:3]
		}
		cr.Detail = strings.Join(details, " | ")
	}
	return
}

// ---------------------------------------------------------------------------
// Self-test variants (thorough tier): scratch copies of /repo with exactly one
// instance of a rule broken. They measure the checker's sensitivity; they do
// not execute utreexo.

type Variant struct {
	Name    string `json:"name"`
	Rule    string `json:"rule"` // rule id (prefix) expected to fire
	File    string `json:"file"` // file relative to the repo
	Find    string `json:"find"` // anchor text, must occur exactly once
	Replace string `json:"replace"`
	Expect  string `json:"expect"`  // substring expected in the report line (usually a function name)
	Inverse bool   `json:"inverse"` // if true: the variant must be silent for Rule
	Patch   string `json:"patch"`   // instead of File/Find/Replace: a unified diff (path relative to the verification directory) applied with git apply
	Edits   []struct {
		File    string `json:"file"`
		Find    string `json:"find"`
		Replace string `json:"replace"`
	} `json:"edits"` // optional extra edits
}

type VariantResult struct {
	Name    string `json:"name"`
	Rule    string `json:"rule"`
	Outcome string `json:"outcome"` // fired | silent-ok | missed | skipped | error
	Detail  string `json:"detail,omitempty"`
}

type SelfTestSummary struct {
	Run     int             `json:"variants_run"`
	Fired   int             `json:"fired"`
	Skipped int             `json:"skipped"`
	Failed  int             `json:"failed"`
	Results []VariantResult `json:"results"`
}

func runVariants(def *PropertyDef, repo, verifDir string) *SelfTestSummary {
	dir := filepath.Join(verifDir, "selftest", "variants", def.ID)
	files, _ := filepath.Glob(filepath.Join(dir, "*.json"))
	sort.Strings(files)
	var vs []Variant
	for _, f := range files {
		b, err := os.ReadFile(f)
		if err != nil {
			continue
		}
		var many []Variant
		if err := json.Unmarshal(b, &many); err == nil {
			vs = append(vs, many...)
			continue
		}
		var one Variant
		if err := json.Unmarshal(b, &one); err == nil {
			vs = append(vs, one)
		}
	}
	sum := &SelfTestSummary{Results: make([]VariantResult, len(vs))}
	var wg sync.WaitGroup
	sem := make(chan struct{}, 8)
	for i, v := range vs {
		wg.Add(1)
		go func(i int, v Variant) {
			defer wg.Done()
			sem <- struct{}{}
			defer func() { <-sem }()
			sum.Results[i] = runVariant(def, v, repo, verifDir)
		}(i, v)
	}
	wg.Wait()
	for _, r := range sum.Results {
		switch r.Outcome {
		case "fired", "silent-ok":
			sum.Run++
			sum.Fired++
		case "skipped":
			sum.Skipped++
		default:
			sum.Run++
			sum.Failed++
		}
	}
	return sum
}

func copyRepo(src, dst string) error {
	ents, err := os.ReadDir(src)
	if err != nil {
		return err
	}
	for _, e := range ents {
		if e.IsDir() {
			continue
		}
		n := e.Name()
		if strings.HasSuffix(n, "_test.go") {
			continue
		}
		if strings.HasSuffix(n, ".go") || n == "go.mod" || n == "go.sum" {
			b, err := os.ReadFile(filepath.Join(src, n))
			if err != nil {
				return err
			}
			if err := os.WriteFile(filepath.Join(dst, n), b, 0o644); err != nil {
				return err
			}
		}
	}
	return nil
}

func applyEdit(dir, file, find, replace string) (bool, error) {
	path := filepath.Join(dir, file)
	b, err := os.ReadFile(path)
	if err != nil {
		return false, nil // file gone: anchor missing
	}
	s := string(b)
	if strings.Count(s, find) != 1 {
		return false, nil
	}
	s = strings.Replace(s, find, replace, 1)
	return true, os.WriteFile(path, []byte(s), 0o644)
}

func runVariant(def *PropertyDef, v Variant, repo, verifDir string) VariantResult {
	res := VariantResult{Name: v.Name, Rule: v.Rule}
	tmp, err := os.MkdirTemp("", "utxlint-variant-")
	if err != nil {
		res.Outcome, res.Detail = "error", err.Error()
		return res
	}
	defer os.RemoveAll(tmp)
	if err := copyRepo(repo, tmp); err != nil {
		res.Outcome, res.Detail = "error", err.Error()
		return res
	}
	if v.Patch != "" {
		ap := exec.Command("git", "apply", filepath.Join(verifDir, v.Patch))
		ap.Dir = tmp
		if out, err := ap.CombinedOutput(); err != nil {
			res.Outcome, res.Detail = "skipped", "patch no longer applies to the current tree: "+firstLine(string(out))
			return res
		}
	} else {
		ok, err := applyEdit(tmp, v.File, v.Find, v.Replace)
		if err != nil {
			res.Outcome, res.Detail = "error", err.Error()
			return res
		}
		if !ok {
			res.Outcome, res.Detail = "skipped", "anchor text not found exactly once (the repository was edited there)"
			return res
		}
	}
	for _, e := range v.Edits {
		ok, err := applyEdit(tmp, e.File, e.Find, e.Replace)
		if err != nil || !ok {
			res.Outcome, res.Detail = "skipped", "secondary anchor not found"
			return res
		}
	}
	build := exec.Command("go", "build", "./...")
	build.Dir = tmp
	build.Env = append(os.Environ(), "GOFLAGS=-mod=readonly", "GOWORK=off", "GOPROXY=off", "GOSUMDB=off", "GOTOOLCHAIN=local")
	if out, err := build.CombinedOutput(); err != nil {
		res.Outcome, res.Detail = "skipped", "variant does not compile on the current tree: "+firstLine(string(out))
		return res
	}
	self, _ := os.Executable()
	cmd := exec.Command(self, "-prop", def.ID, "-repo", tmp, "-verif", verifDir, "-rule", v.Rule, "-no-evidence", "-no-controls")
	out, err := cmd.CombinedOutput()
	code := 0
	if ee, ok := err.(*exec.ExitError); ok {
		code = ee.ExitCode()
	} else if err != nil {
		res.Outcome, res.Detail = "error", err.Error()
		return res
	}
	text := string(out)
	hit := ""
	for _, line := range strings.Split(text, "\n") {
		if strings.Contains(line, " "+v.Rule) && (strings.Contains(line, "violated") || strings.Contains(line, "undecided") || strings.Contains(line, "instance-floor")) &&
			(v.Expect == "" || strings.Contains(line, v.Expect)) {
			hit = line
			break
		}
	}
	switch {
	case code == 2:
		res.Outcome, res.Detail = "error", firstLine(text)
	case v.Inverse:
		if code == 0 {
			res.Outcome = "silent-ok"
		} else {
			res.Outcome, res.Detail = "missed", "repaired variant still fires: "+firstLine(text)
		}
	case code == 1 && hit != "":
		res.Outcome, res.Detail = "fired", strings.TrimSpace(hit)
	default:
		res.Outcome, res.Detail = "missed", fmt.Sprintf("exit %d, no report naming %s / %q", code, v.Rule, v.Expect)
	}
	return res
}

func firstLine(s string) string {
	s = strings.TrimSpace(s)
	if i := strings.IndexByte(s, '\n'); i >= 0 {
		s = s[:i]
	}
	if len(s) > 300 {
		s = s[:300]
	}
	return s
}
