package main

import (
	"fmt"

	"golang.org/x/tools/go/ssa"
)

func runC09(p *Program, r *Report) {
	r.Rule("R09a", "VERIFY-BEFORE-INGEST: proof material is stored in the forest only after the package verifier accepted the same hashes and proof; the storing function has no other caller than the documented unverified entry")
	r.Rule("R09b", "ROOT-GUARD: the pruning primitive, which deletes whatever position it is given, is only handed children or positions tested not to be roots")
	a := resolveVerifyAnchors(p)
	mpVerify := p.Func("(*MapPollard).Verify")
	if mpVerify == nil || a.verify == nil {
		r.MissingAnchor("R09a", "(*MapPollard).Verify", "map forest verifier not found")
	} else {
		// the storing function: the spine function reached from (*MapPollard).Verify that
		// writes the node map and is not the package verifier
		var storers []*ssa.Function
		for _, fn := range sortedFuncs(p, p.StaticReach(mpVerify)) {
			if fn == a.verify || !a.spine[fn] || fn == mpVerify {
				continue
			}
			if writesNodes(p, fn) {
				storers = append(storers, fn)
			}
		}
		if len(storers) == 0 {
			r.Undecided("R09a", "anchor:ingest", p.Pos(mpVerify.Pos()), "cannot find the function that stores verified proof material")
		}
		for _, st := range storers {
			name := p.FuncName(st)
			n := 0
			for _, g := range p.Funcs {
				for _, sc := range callsIn(p, g) {
					if sc.call.Common().StaticCallee() != st {
						continue
					}
					n++
					key := fmt.Sprintf("%s->%s", p.FuncName(g), name)
					exportedWrapper := g.Object() != nil && g.Object().Exported() && g.Parent() == nil && !a.vc[g] && thinWrapper(p, g, st)
					if exportedWrapper {
						r.Discharge("R09a", key, posOf(p, sc.call), "exported entry documented as unverified ingestion (caller's responsibility; outside the property's interleavings only when misused)", false)
						continue
					}
					if j, why := discardJustified(p, sc.call, a); j {
						r.Discharge("R09a", key, posOf(p, sc.call), why, true)
					} else {
						r.Violate("R09a", key, posOf(p, sc.call), "proof hashes are stored in the forest without a dominating successful verification of the same hashes and proof: a false hash could be stored at a position", "in "+p.FuncName(g))
					}
				}
			}
			r.Floor("R09a", "call sites of "+name, n, 2)
		}
	}

	// R09b
	prune := findPrunePrimitive(p)
	if prune == nil {
		r.MissingAnchor("R09b", "prunePosition", "pruning primitive not found")
		return
	}
	n := 0
	for _, g := range p.Funcs {
		for _, sc := range callsIn(p, g) {
			if sc.call.Common().StaticCallee() != prune {
				continue
			}
			n++
			key := fmt.Sprintf("%s->%s#%d", p.FuncName(g), p.FuncName(prune), sc.ord)
			arg := sc.call.Common().Args[1]
			// (1) the argument is a child position
			if c, ok := arg.(*ssa.Call); ok {
				if sc2 := c.Common().StaticCallee(); sc2 != nil && (sc2.Name() == "LeftChild" || sc2.Name() == "RightChild") {
					r.Discharge("R09b", key, posOf(p, sc.call), "argument is a child position, which is never a root", true)
					continue
				}
			}
			// (2) guarded by a false root test on the same value
			ok := false
			for _, gd := range guardsAtInstr(sc.call) {
				c, isCall := gd.Cond.(*ssa.Call)
				if !isCall || gd.Truth {
					continue
				}
				sc2 := c.Common().StaticCallee()
				if sc2 == nil || len(c.Common().Args) == 0 {
					continue
				}
				if (sc2.Name() == "isRootPositionTotalRows" || sc2.Name() == "isRootPosition" || sc2.Name() == "isRootPositionOnRow" || sc2.Name() == "isRootPositionOnRowTotalRows") && c.Common().Args[0] == arg {
					ok = true
				}
			}
			if ok {
				r.Discharge("R09b", key, posOf(p, sc.call), "dominated by the false edge of a root test on the same position value", true)
			} else {
				r.Violate("R09b", key, posOf(p, sc.call), "the pruning primitive is handed a position that is neither a child nor tested not to be a root: a root could be pruned from the partial forest", "in "+p.FuncName(g))
			}
		}
	}
	r.Floor("R09b", "call sites of the pruning primitive", n, 3)
}

// writesNodes: fn calls a mutating method (Put/Delete) of a position-keyed
// store interface of the package directly.
func writesNodes(p *Program, fn *ssa.Function) bool {
	for _, b := range fn.Blocks {
		for _, in := range b.Instrs {
			c, ok := in.(*ssa.Call)
			if !ok || !c.Common().IsInvoke() {
				continue
			}
			if n := namedOf(c.Common().Value.Type()); n != nil && n.Obj().Pkg() == p.Types && c.Common().Method.Name() == "Put" {
				return true
			}
		}
	}
	return false
}

// findPrunePrimitive: the method documented as pruning whatever it is given —
// resolved as the method named prunePosition of the struct that carries the lock.
func findPrunePrimitive(p *Program) *ssa.Function {
	for _, fn := range p.Funcs {
		if fn.Name() == "prunePosition" && fn.Signature.Recv() != nil {
			return fn
		}
	}
	return nil
}

// thinWrapper: g does nothing but take the lock and hand its arguments to st.
func thinWrapper(p *Program, g, st *ssa.Function) bool {
	for _, b := range g.Blocks {
		for _, in := range b.Instrs {
			ci, ok := in.(ssa.CallInstruction)
			if !ok {
				continue
			}
			cc := ci.Common()
			if cc.StaticCallee() == st {
				continue
			}
			if f := calleeFunc(cc); f != nil && f.Pkg() != nil && f.Pkg().Path() == "sync" {
				continue
			}
			return false
		}
	}
	return true
}
