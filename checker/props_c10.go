package main

func init() {
	register(&PropertyDef{
		ID:    "C10",
		Title: "Position and hash look-ups tell the truth",
		Explanation: "Who-may-insert discipline (E5) for the leaf indexes (the hash-keyed cache interface of the map forest and the pointer forest's hash-prefix " +
			"map, both found by type): a key enters an index only if it is traced back to a leaf-hash parameter of the exported API, moves an entry that a dominating " +
			"lookup of the same key found, is the key handed to the index's own ForEach callback, is read back from a serialised stream, or is guarded by a flag set " +
			"only under (position == target position) (R10a) — so internal-node hashes can never be reported as leaves; and on every success path of both Modify " +
			"implementations every deleted hash is removed from the index (R10b).",
		NotDecided: "the positions returned, GetHash on vacated positions, the count identity beyond 'only leaves go in, every deleted leaf goes out', removal on undo of additions.",
		Rules:      []RuleDef{{ID: "R10", Statement: "leaf-index discipline", Run: runC10}},
	})
}
