package main

func init() {
	register(&PropertyDef{
		ID:    "C10",
		Title: "Position and hash look-ups tell the truth",
		Explanation: "Who-may-insert discipline (E5) for the leaf indexes (the hash-keyed cache interface of the map forest and the pointer forest's hash-prefix " +
			"map, both found by type): a key enters an index only if it is traced back to a leaf-hash parameter of the exported API, moves an entry that a dominating " +
			"lookup of the same key found, is the key handed to the index's own ForEach callback, is read back from a serialised stream, or is guarded by a flag set " +
			"only under (position == target position) (R10a) — so internal-node hashes can never be reported as leaves; and on every success path of both Modify " +
			"implementations every deleted hash is removed from the index (R10b).",
		NotDecided: "the positions returned, GetHash on vacated positions, the count identity beyond 'only leaves go in, every deleted leaf goes out', removal on undo of additions.",
		Rules: []RuleDef{{ID: "R10", Statement: "leaf-index discipline", Run: runC10},
			{ID: "R10c", Statement: "coordinate switch last", Run: func(p *Program, r *Report) {
				r.Rule("R10c", "COORD-SWITCH-LAST: a function that switches the map forest's TotalRows finishes every translation from the old TotalRows before the store (afterwards the translation is the identity and indexed positions go stale)")
				checkCoordSwitch(p, r, "R10c")
			}},
			{ID: "R10e", Statement: "a rejected block leaves the index intact", Run: func(p *Program, r *Report) {
				r.Rule("R10e", "REJECT-KEEPS-INDEX: under Modify no removal from a leaf index can be followed, in the same function, by the return of a freshly created (validation) error")
				checkRejectKeepsIndex(p, r, "R10e")
			}},
			{ID: "R10f", Statement: "indexed position is the node's position", Run: func(p *Program, r *Report) {
				r.Rule("R10f", "INDEX-AT-NODE: every position written to the map forest's leaf index is the position expression of a node-store Put in the same function")
				checkIndexAtNode(p, r, "R10f")
			}},
			{ID: "R10k", Statement: "the reviewed existence test compares strictly with the leaf count", Run: func(p *Program, r *Report) {
				r.Rule("R10k", "EXISTENCE-TEST-IS-STRICT: every comparison of a row-0 position with the leaf count inside the reviewed existence test is strict (position < leaf count means exists)")
				checkExistenceTestStrict(p, r, "R10k")
			}},
			{ID: "R10j", Statement: "look-ups translate in the right direction", Run: func(p *Program, r *Report) {
				r.Rule("R10j", "LOOKUP-LAYOUT: in the map forest's look-ups a position taken from the leaf index (TotalRows layout) is translated from that layout, a position given by the caller (tree layout) from the tree layout, and what is returned is in the tree layout")
				or := runOrderEngine(p, r, "R10j", []string{"(*MapPollard).GetLeafPosition", "(*MapPollard).GetLeafHashPositions", "(*MapPollard).GetHash"})
				reportOrderEvents(p, r, or, orderRules{coord: "R10j"})
				checkOutputLayout(p, r, or, "R10j", "(*MapPollard).GetLeafPosition", 0, "")
				checkOutputLayout(p, r, or, "R10j", "(*MapPollard).GetLeafHashPositions", 0, "")
			}},
			{ID: "R10i", Statement: "a hit under a truncated key is confirmed", Run: func(p *Program, r *Report) {
				r.Rule("R10i", "TRUNCATED-KEY-CONFIRMED: in a hash -> position look-up, a node found under the truncated key of the caller's hash is used only behind an equality of its full hash with the hash asked for")
				checkTruncatedLookupConfirmed(p, r, "R10i")
			}},
			{ID: "R10h", Statement: "position reads test existence", Run: func(p *Program, r *Report) {
				r.Rule("R10h", "READ-IN-FOREST: a position read (GetHash) either goes through the keyed node store or gates the walk from a root chosen by arithmetic with an exact existence test of the position against the leaf count")
				checkReadInForest(p, r, "R10h")
			}},
			{ID: "R10g", Statement: "index updates follow every step of a move", Run: func(p *Program, r *Report) {
				r.Rule("R10g", "INDEX-UPDATE-NOT-COUNTER-GATED: a leaf-index update inside a loop of the map forest is never conditioned on a comparison of that loop's counter (the index must follow the node on every step of a multi-step move)")
				checkIndexNotCounterGated(p, r, "R10g")
			}},
			{ID: "R10d", Statement: "undo of an addition un-indexes", Run: func(p *Program, r *Report) {
				r.Rule("R10d", "UNDO-ADD-UNINDEX: in each forest's undo-one-addition function every removal of a node is followed on all paths by the removal of its hash from the leaf index")
				checkUndoAddUnindex(p, r, "R10d")
			}}},
	})
}
