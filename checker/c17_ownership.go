package main

import (
	"fmt"
	"go/types"
	"sort"
	"strings"

	"golang.org/x/tools/go/ssa"
)

// API entry points named by property C17.
var c17Entries = []string{
	"Verify", "(*Stump).Update",
	"(*Pollard).Verify", "(*MapPollard).Verify",
	"(*Pollard).Prove", "(*MapPollard).Prove",
	"(*Pollard).Modify", "(*MapPollard).Modify",
	"(*Pollard).Undo", "(*MapPollard).Undo",
	"(*MapPollard).VerifyPartialProof", "(*MapPollard).GetMissingPositions",
	"(*Proof).Update", "(*Proof).Undo",
	"AddProof", "GetProofSubset",
}

// additional entries for the return-fresh rule only
var c17ReturnOnly = []string{"(*Pollard).GetRoots", "(*MapPollard).GetRoots", "(*MapPollard).GetStump"}

type entrySeed struct {
	fn     *ssa.Function
	args   []*AV
	tokens []*Obj // protected backing arrays
	recv   *Obj   // receiver cell (nil for functions)
}

func isSliceT(t types.Type) bool { _, ok := t.Underlying().(*types.Slice); return ok }

// seedEntry builds the abstract arguments of an API entry: every slice
// parameter and every slice field of a struct parameter is a distinct
// caller-owned backing array; a pointer receiver designates a receiver cell
// whose slice fields are caller-owned for *Proof (an earlier copy of the
// struct shares them) and receiver-owned otherwise.
func seedEntry(it *interp, p *Program, fn *ssa.Function) *entrySeed {
	es := &entrySeed{fn: fn}
	name := p.FuncName(fn)
	for i, par := range fn.Params {
		pname := par.Name()
		t := par.Type()
		av := newAV()
		isRecv := i == 0 && fn.Signature.Recv() != nil
		switch u := t.Underlying().(type) {
		case *types.Slice:
			o := it.obj("tok:"+name+"/"+pname, okParam, pname, par.Pos())
			es.tokens = append(es.tokens, o)
			av.Ptrs = map[Loc]bool{{o, ""}: true}
		case *types.Struct:
			for f := 0; f < u.NumFields(); f++ {
				if isSliceT(u.Field(f).Type()) {
					o := it.obj("tok:"+name+"/"+pname+"."+u.Field(f).Name(), okParam, pname+"."+u.Field(f).Name(), par.Pos())
					es.tokens = append(es.tokens, o)
					av.ensure(fmt.Sprintf(".%d", f)).Ptrs = map[Loc]bool{{o, ""}: true}
				}
			}
		case *types.Pointer:
			st, ok := u.Elem().Underlying().(*types.Struct)
			if !ok {
				break
			}
			cell := it.obj("recv:"+name+"/"+pname, okRecv, "*"+pname, par.Pos())
			if isRecv {
				es.recv = cell
			}
			av.Ptrs = map[Loc]bool{{cell, ""}: true}
			callerOwned := p.localNamed(u.Elem(), "Proof")
			for f := 0; f < st.NumFields(); f++ {
				if !isSliceT(st.Field(f).Type()) {
					continue
				}
				kind := okRecv
				if callerOwned {
					kind = okParam
				}
				o := it.obj("tok:"+name+"/"+pname+"."+st.Field(f).Name(), kind, pname+"."+st.Field(f).Name(), par.Pos())
				if callerOwned {
					es.tokens = append(es.tokens, o)
				}
				it.content(cell).ensure(fmt.Sprintf(".%d", f)).join(&AV{Ptrs: map[Loc]bool{{o, ""}: true}})
			}
		}
		es.args = append(es.args, av)
	}
	return es
}

func runC17(p *Program, r *Report) {
	r.Rule("R17a", "NO-CALLER-MUTATION: no write (element store, copy, in-place sort/shrink-append/delete) can reach a backing array owned by the caller of an API entry")
	r.Rule("R17b", "RETURN-FRESH: slices returned by an API entry are freshly allocated or alias the caller's own arguments, never storage owned by the receiver")
	r.Rule("R17c", "NO-RETAIN: an API entry does not keep a caller-owned slice inside the receiver's state")
	it := newInterp(p)
	var seeds []*entrySeed
	retOnly := map[*ssa.Function]bool{}
	for _, n := range c17Entries {
		fn := p.Func(n)
		if fn == nil {
			r.MissingAnchor("R17a", n, "API entry named by the property not found")
			continue
		}
		seeds = append(seeds, seedEntry(it, p, fn))
	}
	for _, n := range c17ReturnOnly {
		if fn := p.Func(n); fn != nil {
			retOnly[fn] = true
			seeds = append(seeds, seedEntry(it, p, fn))
		}
	}
	results := map[*ssa.Function]*AV{}
	rounds := 0
	for rounds < 12 {
		rounds++
		it.round++
		it.changed = false
		for _, s := range seeds {
			res := it.analyze(s.fn, s.args, nil)
			if results[s.fn] == nil {
				results[s.fn] = newAV()
			}
			results[s.fn].join(res)
		}
		if !it.changed {
			break
		}
	}
	r.Stats["e3.rounds"] = rounds
	r.Stats["e3.functions_interpreted"] = len(it.funcsHit)
	r.Stats["e3.contexts"] = len(it.memo)
	r.Stats["e3.objects"] = len(it.objs)
	r.Stats["e3.events"] = len(it.order)

	// index events by object
	byObj := map[*Obj][]*Event{}
	for _, e := range it.order {
		byObj[e.Obj] = append(byObj[e.Obj], e)
	}
	nTok := 0
	for _, s := range seeds {
		if retOnly[s.fn] {
			continue
		}
		ename := p.FuncName(s.fn)
		for _, tok := range s.tokens {
			nTok++
			key := ename + "/" + tok.Name
			var bad, und []*Event
			for _, e := range byObj[tok] {
				switch e.Kind {
				case evMutate:
					bad = append(bad, e)
				case evUndecided:
					und = append(und, e)
				}
			}
			switch {
			case len(bad) > 0:
				e := bad[0]
				r.Violate("R17a", key, posOf(p, e.In),
					fmt.Sprintf("caller-owned slice %s of %s is written: %s in %s (%d sink(s))", tok.Name, ename, e.What, p.FuncName(e.In.Parent()), len(bad)),
					e.Stack...)
			case len(und) > 0:
				e := und[0]
				r.Undecided("R17a", key, posOf(p, e.In), fmt.Sprintf("caller-owned slice %s of %s is %s", tok.Name, ename, e.What))
			default:
				d := "no mutation sink is reachable with this backing array"
				r.Discharge("R17a", key, p.Pos(s.fn.Pos()), d, true)
			}
		}
	}
	r.Floor("R17a", "caller-owned slices over the API entries", nTok, 40)
	for _, e := range it.order {
		if e.Kind == evUndecided && e.Obj == nil {
			r.Undecided("R17a", "engine/"+p.FuncName(e.In.Parent()), posOf(p, e.In), e.What)
		}
	}

	// R17b / R17c
	nRes := 0
	for _, s := range seeds {
		ename := p.FuncName(s.fn)
		res := results[s.fn]
		sig := s.fn.Signature.Results()
		for i := 0; i < sig.Len(); i++ {
			if !pointerish(sig.At(i).Type()) || isErrorType(sig.At(i).Type()) {
				continue
			}
			nRes++
			key := fmt.Sprintf("%s/result#%d", ename, i)
			objs := map[*Obj]bool{}
			res.field(i).allObjs(objs)
			// one level of content: a returned struct's slices are in its fields already;
			// returned slices of slices would need the heap
			var bad []string
			for o := range objs {
				if o.Kind == okRecv || o.Kind == okGlobal {
					bad = append(bad, o.Name)
				}
			}
			sort.Strings(bad)
			if len(bad) > 0 {
				r.Violate("R17b", key, p.Pos(s.fn.Pos()), "the result may alias storage owned by the receiver or a global ("+strings.Join(bad, ", ")+"): a later call that updates it in place changes a value returned earlier", "in "+ename)
			} else {
				var names []string
				for o := range objs {
					names = append(names, o.Name)
				}
				sort.Strings(names)
				if len(names) > 4 {
					names = append(names[:4], "…")
				}
				r.Discharge("R17b", key, p.Pos(s.fn.Pos()), "result designates only fresh allocations or the caller's own arguments: "+strings.Join(names, ", "), true)
			}
		}
		if s.recv != nil && !retOnly[s.fn] {
			// caller-owned arrays reachable from the receiver cell after the call
			reach := map[*Obj]bool{}
			var walk func(o *Obj)
			walk = func(o *Obj) {
				if reach[o] {
					return
				}
				reach[o] = true
				sub := map[*Obj]bool{}
				it.content(o).allObjs(sub)
				for x := range sub {
					walk(x)
				}
			}
			walk(s.recv)
			var kept []string
			own := strings.TrimPrefix(s.recv.Name, "*") + "."
			for o := range reach {
				if o.Kind == okParam && !strings.HasPrefix(o.Name, own) {
					kept = append(kept, o.Name)
				}
			}
			sort.Strings(kept)
			key := ename + "/retains"
			if len(kept) > 0 {
				r.Violate("R17c", key, p.Pos(s.fn.Pos()), "the receiver keeps a reference to caller-owned slice(s) "+strings.Join(kept, ", ")+": later in-place updates of the receiver would modify the caller's data (or vice versa)", "in "+ename)
			} else {
				r.Discharge("R17c", key, p.Pos(s.fn.Pos()), "no caller-owned backing array is reachable from the receiver after the call", true)
			}
		}
	}
	r.Floor("R17b", "slice-carrying results of API entries", nRes, 12)
}
