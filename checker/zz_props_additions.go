package main

// Explanations of the rules added after the seeding rounds, appended to the
// property definitions (this file's init runs last: files are initialised in
// name order).
func init() {
	add := func(id, more, notDecided string) {
		if d := registry[id]; d != nil {
			d.Explanation += " " + more
			if notDecided != "" {
				d.NotDecided += " " + notDecided
			}
		}
	}
	add("C01", "R01d: where the map forest moves a node (Get, Delete at the old position, Put at the new one) every path from the delete to the next iteration or a success "+
		"return passes the put - a conditional put after an unconditional delete loses the node (an empty root lost on growth shows only many blocks later). R01e: the method that stores TotalRows (the growth step, sized for one more leaf) "+
		"is reached, in the add phase of the map forest's Modify, inside the loop over the added leaves and on each of its iterations.", "")
	add("C03", "R03d: a failing return of the core is guarded by a comparison of a claimed position with a bound computed from the leaf count. R03e (E7 layout analysis): on every "+
		"verification path positions are handed to position arithmetic, translation and the node store only in the coordinate system (tree layout of TreeRows(NumLeaves) vs the "+
		"map forest's TotalRows layout) the accompanying height denotes. R03f: target hashes and proof hashes are compared with the reserved zero hash, with an error return, before "+
		"the core runs (the core moves a sibling up unhashed next to a zero hash). R03g: siblinghood is never concluded from rightSib(a)==b alone. R03h: a root counts as matched "+
		"only where an equality on the position the candidate was computed at holds besides the hash equality. R03a accepts a discarded error only if the callee has no failing "+
		"return of its own.", "")
	add("C04", "R04e also requires a dominating bound for every computed index in the two matching verifiers, including slices derived from the core's results; a bound by "+
		"another slice's length needs a dominating relation between the two lengths.", "")
	add("C07", "R07d: in the add phase no position list computed from the leaf count selects from the update-data nodes (remembered leaves are found by hash). R07e (=R11g): the "+
		"recorded position of an added leaf depends on the call that lifts it over overwritten empty roots. R07f: no call reachable from the cached-proof update/undo returns a "+
		"truncated hash.", "")
	add("C09", "R09c: a function storing TotalRows finishes every translation from the receiver's TotalRows (closures included) before the store. R09d: after Prune un-indexed a "+
		"leaf every continuing path stores its node back with the keep flag cleared. R09e: moved nodes are re-inserted on every path that deletes them. R09f (E7 layout analysis): "+
		"everything stored, fetched, indexed or fed to position arithmetic in Ingest, Verify, VerifyPartialProof, Modify, Undo, Prove, Prune, GetMissingPositions is in the "+
		"coordinate system of the accompanying forest height (Undo's targets are in the layout of the forest before the block until the additions are rolled back).", "")
	add("C10", "R10c = R09c. R10d: in each forest's undo-one-addition function every node removal is followed on all paths by the removal of its hash from the leaf index. R10e: "+
		"under Modify no removal from a leaf index is followed, in the same function, by the return of a freshly created error. R10f: every position written to the map forest's "+
		"index is the position expression of a node-store Put in the same function (one reviewed identity: calcNextPosition(sibling(d), d) = Parent(d)). R10g: an index update "+
		"inside a loop is never conditioned on a comparison of that loop's induction variable. R10h: a position read (GetHash) goes through the keyed node store, or the walk from "+
		"a root selected by arithmetic on the position is gated by a reviewed exact existence test (inForest, maxPositionAtRow) that receives the leaf count itself. R10i: in a "+
		"hash -> position look-up a node found under a truncated-hash map key derived from the caller's hash is used only behind an equality of its full hash with the hash asked for.", "")
	add("C11", "R11f: every success return hands out the UpdateData whose fields were all stored. R11g: the recorded position of the added leaf depends on the lifting call. R11h: "+
		"no call reachable from the update returns a truncated hash.", "")
	add("C12", "R12g: every exported method enters at most one critical section on any path, counting the sections of the functions it calls (transitive lock acquirers over the "+
		"call graph): a query assembled from separately locked getters can mix two block states although it is race-free.", "")
	add("C13", "R13b also refuses deferred (or spawned) fallible calls - their error can never reach the caller. R13e: a restore function starts from the constructor's value or "+
		"stores every field the parameterless constructor stores.", "")
	add("C15", "R15d (E7 order classes): the deletion targets recorded for a block are sorted ascending before they reach deTwin, when the block is recorded and when TTLs are "+
		"generated. R15e: the generator recomputes the TTL table before reading it, or refreshes it under a test of a field that recording a block resets. R15f: every root-info "+
		"state recorded for a block (except the first) is dominated by the call that applies the block's deletions to the previous root infos. R15g: a package function whose "+
		"error result is discarded is applied to an element of a position list only behind an exact existence test of that element against the leaf count, unless the list is "+
		"tabled as holding existing positions only (recorded deletions).", "")
	add("C13", "R13f: a record buffer that outlives one record has every byte the per-record region assigns assigned on every path to the write. R13g: the caller's io.Reader flows only "+
		"into io.ReadFull / io.ReadAtLeast and package stream functions, never into a wrapper that may read ahead of the reported count.", "")
	add("C14", "R14g: the hashes supplied for the missing positions (a subsequence of the canonical proof positions) are read through their own cursor, advanced only where one is "+
		"consumed. R14h: every result of the missing-positions method for a non-empty request is reached through look-ups of the node store.", "")
	add("C02", "R02f: every polNode allocated under (*Pollard).Modify has its remember field stored from the forest's full setting or set to true under a test of it. R02g: (*polNode).prune drops a niece only under a condition on the remember flags of both nieces.", "")
	add("C09", "R09g: the Remember field of a Leaf handed to Nodes.Put inside a loop never derives from a loop-carried variable of an enclosing loop.", "")
	add("C01", "R01g: in every function under (*MapPollard).Modify that calls the growth step, that call dominates every Put into the node store and the leaf index. ", "")
	add("C01", "R01f: under Stump.Update, Pollard.Modify and MapPollard.Modify every store into a NumLeaves field is an increment of the value read from that field.", "")
	add("C11", "R11i = R01f for (*Stump).Update.", "")
	add("C07", "R07g: in the closure of (*Proof).Update every discarded error of a position function is excluded by a dominating guard, by a reviewed lemma that covers every failing return of the callee, or by the reviewed caller->callee table (valid while the callee has the reviewed number of failing returns). R07h: a list parameter walked with a forward-only cursor against a loop counter is sorted on its way from the exported entry.", "")
	add("C10", "R10j (E7 layouts): in GetLeafPosition, GetLeafHashPositions and GetHash a position read from the leaf index is translated from the TotalRows layout, a caller's position from the tree layout, and results are in the tree layout.", "")
	add("C11", "R11j: under (*Stump).Update no narrowing integer conversion takes a value derived from a length.", "")
	add("C12", "R12h: no live instance of the struct that carries the mutex is overwritten as a whole and its lock field is never re-assigned.", "")
	add("C15", "R15h: under GenerateCachingSchedule no write reaches a list recorded by AddBlockSummary or anything that may alias it (sub-slices, phi merges, callee parameters, handed-back results). R15i: no allocation of the generator is sized by its memory-limit parameter.", "")
	add("C03", "R03j: in the hashing core a cursor over a list of hashes advances only where the hash at the cursor was read in that iteration. R03c also requires, in a verifier that compares the hash and target counts, that every success return lies behind that comparison.", "")
	add("C04", "R04e also requires a slice made with a fixed length and filled through a counter of its own to have that counter bounded by the length.", "")
	add("C13", "R13h: no read of the restore code turns io.EOF into success (the formats announce their record counts). R13i: a failing return of a stream function hands out the running total. R13j: the count of a stream operation is added to the total before the error test that follows it, so the bytes a failing operation did transfer are reported.", "")
	add("C03", "R03i: neither hash input of the parent-hash step in the core can be the default value of its variable (no path leaves the sibling unassigned).", "")
	add("C04", "R04e also covers the mirror image: a library-computed slice indexed by a counter whose only bound is the length of a caller-supplied slice needs a dominating test relating the two lengths (verification bounds the caller's lists from below only).", "")
	add("C03", "R03k: the work loop of the hashing core falls through to the success return only on a test that looks at a cursor of the loop or at the result of a call given one; every other exit is an error.", "")
	add("C06", "R06h (disjunctive): a root position the map forest's undo re-creates holds a node again - the add-undo step stores the empty node after the empty-root step on every continuing path, or the entry writes the previous roots back on every success path; the rule fires only when neither holds.", "")
	add("C07", "R07i: the threaded-state rule over the closure of (*Proof).Update.", "")
	add("C09", "R09h: the loop of NewMapPollardFromRoots stores a node on every iteration. R09i: a stored node whose hash was just recomputed with parentHash carries the configuration flag, a constant or the flag already stored at that position.", "")
	add("C14", "R14i: the threaded-state rule over the closure of the C14 entries. R14j: the single-target proof-position helper (found by role) is never accumulated over a loop of targets. R14k (E7): in the stand-alone GetMissingPositions the list subtracted from the request and the held list handed to ProofPositions are in class sorted(P), the sorted copy of the caller's proof targets element for element.", "")
	add("C15", "R15j: the threaded-state rule over the closure of AddBlockSummary and GenerateCachingSchedule.", "")
	add("C16", "R16c: every left shift by a variable amount in the closure is computed in a 64-bit type. R16d: a leaf count converted to a signed integer type is never an operand of arithmetic.", "")
	add("C17", "Memory is flow-insensitive except for private cells (a field of a local variable whose address never leaves the function), which are read through reaching definitions: a write after the field was re-pointed to a fresh slice on every path is a write into the copy.", "")
	add("C15", "R15k (= R11k): the tracker's and the verifier's simulation of the empty roots that additions write over (clones of one loop nest) have the same control structure over their inputs named by role - early exits, loop bounds, the test under which a position is recorded.", "")
	add("C11", "R11k: see R15k - the simulation behind UpdateData.ToDestroy agrees in control structure with its clone in the caching-schedule tracker.", "")
	add("C06", "R06i: in the deletion-undo of the map forest the step that moves a climbed subtree back down runs under the reviewed existence test of the sibling position, never under the result of a node-store look-up.", "")
	add("C09", "R09j = R06i.", "")
	add("C08", "R08h: a slice filled slot by slot from another list is not read again after that list, or the struct holding it, was sorted or handed by address to a method that may insert or delete.", "")
	add("C12", "R12i: a function that acquires the lock and makes any call inside the section releases it with defer.", "")
	add("C13", "R13l: every receiver field the map forest's restore function stores from a value read off the stream is stored on every path that goes on after the read. R13m: a struct field that memoizes a computed value is stored by every exported method that changes the struct.", "")
	add("C14", "R14b also reports a sorted list with another sorted list appended behind it (order class 'concatenation') at a requires-sorted function.", "")
	add("C15", "R15l: in delRootInfo the outermost loop around the step that marks a tracked root as emptied is left only through its own bound.", "")
	add("C05", "R05h: a boolean that a function of the block-application and verification closure returns after a loop is not a flag that every iteration overwrites with what it found.", "")
	add("C10", "R10k: every comparison of a row-0 position with the leaf count inside the reviewed existence test (inForest) is strict.", "")
	add("C06", "R06j = R10k.", "")
	add("C09", "R09k: the keep flag the from-roots constructor stores with a root depends on its full argument, never a constant.", "")
	add("C08", "R08i: in the cached-proof update and undo no return is taken on TreeRows(x) == 0 alone (a forest of one leaf has zero rows and a provable leaf).", "")
	add("C16", "R16e: a row (DetectRow result or loop counter) is compared with a forest height (TreeRows result, TotalRows field, a parameter receiving one at every call site) only inclusively.", "")
	add("C09", "R09l: no exit of the loop that climbs from a pruned leaf to its root depends on a look-up of the node store or the leaf index. R09m: the store of the nodes the hashing core calculated runs on every iteration of ingest's loop.", "")
	add("C13", "R13n: every scalar field of the node record stored by the map forest's restore loop is computed from bytes read off the stream.", "")
	add("C14", "R14l: a subtraction step of AddProof runs on every path or is skipped only on a test of the length of the subtracted list.", "")
	add("C08", "R08j: a callee that describes one forest (one leaf count, one height) is never handed the leaf count n together with TreeRows(n - k).", "")
	add("C06", "R06k: a flag under which the map forest's undo writes the leaf index can become true on both sides of the layout test TreeRows(NumLeaves) != TotalRows.", "")
	add("C14", "R14m: no list AddProof returns receives a concatenation (append(a, b...), AppendMany, copy, slices.Concat, in the function or in a helper, by summaries) of a list derived from one proof only with a list derived from the other only; two proofs that share a target would otherwise return it twice.", "")
	add("C13", "R13o: every store of the receiver that (*MapPollard).Read refills with Put is emptied first (a dominating call whose closure deletes from that store, or a new store assigned to the field) - the stream describes the whole forest (found D25).", "")
	add("C16", "R16f: a value is compared with the result of maxPositionAtRow / maxPossiblePosAtRow (the biggest position of a row, inclusive) only with <= / > (package-wide: remap's move loop, the core's row cursor, pruneEdges, ProofPositions, getNewPositions).", "")
	add("C14", "R14n: in GetProofSubset a call that reaches calculateHashes dominates every success return.", "")
	add("C15", "R15m: a method that stores a fresh make into a [][]T field of its receiver and appends to rows of that field has the store dominate every such append (genTTLs / ttls).", "")
	add("C03", "R03f counts a list as checked only if the compared element is not read under the counter of a loop whose exit test is the length of another list.", "")
	add("C16", "R16g: a value that is a position by role (handed to a package function's position parameter in the same function, or yielded by a leaf-index iteration) is compared with 1<<rows only strictly (package-wide; no instance on the reviewed tree, kept alive by its controls).", "")
}
