package main

import (
	"fmt"
	"go/token"
	"go/types"
	"sort"
	"strings"

	"golang.org/x/tools/go/ssa"
)

// C06 (thin): structural necessary conditions of "Undo is the exact inverse of
// the last block". Equality of the complete observable state before the block
// and after its undo is numerical and NOT decided. What is decided:
//
//	R06a THREADED-STATE          the undo closure never drops the updated list a helper returns while it goes on using the list it passed in
//	R06b UNDO-ADD-UNINDEX        (= R10d) every undone addition leaves the leaf index
//	R06c MOVE-PAIRING            (= R09e) a node moved back is re-inserted on every path that deletes it
//	R06d LAYOUT / PAIRING        (= R05a/d for the Undo entries) positions of the undone block are used in the layout of the forest before the block; hashes are paired in one order class
//	R06e ROLLBACK-PER-ADDITION   each forest's Undo runs its undo-one-addition step (which decrements the leaf count on every path) once per added leaf

var c06Entries = []string{"(*Pollard).Undo", "(*MapPollard).Undo", "(*Proof).Undo"}

func runC06(p *Program, r *Report) {
	var entries []*ssa.Function
	for _, n := range c06Entries {
		if f := p.Func(n); f != nil {
			entries = append(entries, f)
		} else {
			r.MissingAnchor("R06a", n, "undo entry not found")
		}
	}
	if len(entries) == 0 {
		return
	}
	checkThreadedState(p, r, "R06a", entries, 8)
	checkRollbackPerAddition(p, r, "R06e")
	checkMadeProofIsFilled(p, r, "R06f", entries)
	checkEmptyRootRestored(p, r, "R06h")
	checkEmptyRootByGeometry(p, r, "R06i")
	checkBothLayoutsReindex(p, r, "R06k")
	r.Rule("R06j", "EXISTENCE-TEST-IS-STRICT: every comparison of a row-0 position with the leaf count inside the reviewed existence test is strict (the deletion-undo decides with it whether a subtree climbed)")
	checkExistenceTestStrict(p, r, "R06j")
}

// returnsUpdatedParam: result ri of fn has the slice type of parameter pi and
// some return hands back a value derived from that parameter (the callee
// "consumes" or edits the list and returns what is left).
func returnsUpdatedParam(fn *ssa.Function) (pi, ri int, ok bool) {
	if fn.Blocks == nil {
		return 0, 0, false
	}
	res := fn.Signature.Results()
	for ri = 0; ri < res.Len(); ri++ {
		rt, isSlice := res.At(ri).Type().Underlying().(*types.Slice)
		if !isSlice {
			continue
		}
		for pi = range fn.Params {
			if fn.Signature.Recv() != nil && pi == 0 {
				continue
			}
			pt, isSlice := fn.Params[pi].Type().Underlying().(*types.Slice)
			if !isSlice || !types.Identical(pt, rt) {
				continue
			}
			par := fn.Params[pi]
			for _, ret := range returnsOf(fn) {
				ops := retOperands(ret)
				if ri >= len(ops) {
					continue
				}
				if flowsFrom(ops[ri], func(v ssa.Value) bool { return v == par }, 0, map[ssa.Value]bool{}) {
					// it must also be able to differ from the parameter (otherwise nothing is lost by dropping it)
					if ops[ri] != ssa.Value(par) || len(returnsOf(fn)) > 1 {
						return pi, ri, true
					}
				}
			}
		}
	}
	return 0, 0, false
}

func checkThreadedState(p *Program, r *Report, rule string, entries []*ssa.Function, floor int) {
	r.Rule(rule, "THREADED-STATE: in the closure of the entries, when a helper returns the updated version of a list it was given, the caller does not drop that result while it goes on using the list it passed in (each step must see what the previous step left)")
	reach := p.StaticReach(entries...)
	for _, e := range entries {
		reach[e] = true
	}
	n := 0
	for _, g := range sortedFuncs(p, reach) {
		if g.Blocks == nil || !p.owns(g) {
			continue
		}
		for _, sc := range callsIn(p, g) {
			callee := sc.call.Common().StaticCallee()
			if callee == nil || !p.owns(callee) {
				continue
			}
			pi, ri, ok := returnsUpdatedParam(callee)
			if !ok {
				continue
			}
			args := sc.call.Common().Args
			if pi >= len(args) {
				continue
			}
			n++
			key := fmt.Sprintf("%s->%s#%d/updated-list", p.FuncName(g), sc.label, sc.ord)
			used := false
			if callee.Signature.Results().Len() == 1 {
				used = sc.call.Referrers() != nil && len(*sc.call.Referrers()) > 0
			} else if sc.call.Referrers() != nil {
				for _, ref := range *sc.call.Referrers() {
					if ex, ok := ref.(*ssa.Extract); ok && ex.Index == ri && ex.Referrers() != nil && len(*ex.Referrers()) > 0 {
						used = true
					}
				}
			}
			if used {
				r.Discharge(rule, key, posOf(p, sc.call), "the updated list returned by "+sc.label+" is taken over by the caller", true)
				continue
			}
			// dropped: harmless only if the list passed in is not used again after the call
			arg := args[pi]
			reusedAt := laterUse(arg, sc.call)
			if reusedAt == nil {
				r.Discharge(rule, key, posOf(p, sc.call), "the updated list is dropped and the list passed in is not used again", true)
			} else {
				r.Violate(rule, key, posOf(p, sc.call), "the updated list returned by "+sc.label+" is dropped, and the list that was passed in is used again ("+p.Pos(reusedAt.Pos())+"): the next step works on the state before this step", "in "+p.FuncName(g))
			}
		}
	}
	r.Floor(rule, "calls of list-updating helpers in the closure", n, floor)
}

// laterUse: some use of v (other than the call itself) is reachable after the
// call - including the call itself when it sits in a loop.
func laterUse(v ssa.Value, call *ssa.Call) ssa.Instruction {
	if v.Referrers() == nil {
		return nil
	}
	cb := call.Block()
	after := reachableBlocks(cb.Succs)
	ci := instrIndex(call)
	// values merged at a loop header: a use of the phi that v feeds counts as a use of v
	vals := map[ssa.Value]bool{v: true}
	for changed := true; changed; {
		changed = false
		for x := range vals {
			if x.Referrers() == nil {
				continue
			}
			for _, ref := range *x.Referrers() {
				if ph, ok := ref.(*ssa.Phi); ok && !vals[ph] {
					vals[ph] = true
					changed = true
				}
			}
		}
	}
	// v itself may be a phi of the loop the call sits in
	if ph, ok := v.(*ssa.Phi); ok {
		for _, e := range ph.Edges {
			_ = e
		}
	}
	for x := range vals {
		if x.Referrers() == nil {
			continue
		}
		for _, ref := range *x.Referrers() {
			if ref == ssa.Instruction(call) {
				if after[cb] {
					return ref // the call is repeated with the same list
				}
				continue
			}
			if _, ok := ref.(*ssa.DebugRef); ok {
				continue
			}
			if _, ok := ref.(*ssa.Phi); ok {
				continue
			}
			rb := ref.Block()
			if rb == cb && instrIndex(ref) > ci {
				return ref
			}
			if after[rb] {
				return ref
			}
		}
	}
	return nil
}

// checkRollbackPerAddition (R06e).
func checkRollbackPerAddition(p *Program, r *Report, rule string) {
	r.Rule(rule, "ROLLBACK-PER-ADDITION: each forest's Undo runs its undo-one-addition step, which decrements the leaf count on every success path, on every iteration of a loop bounded by the number of additions of the block")
	n := 0
	for _, ename := range []string{"(*Pollard).Undo", "(*MapPollard).Undo"} {
		e := p.Func(ename)
		if e == nil {
			r.MissingAnchor(rule, ename, "undo entry not found")
			continue
		}
		// the number-of-additions parameter: the first integer parameter
		var numAdds ssa.Value
		for _, par := range e.Params[1:] {
			if isIntLike(par.Type()) {
				numAdds = par
				break
			}
		}
		reach := p.StaticReach(e)
		reach[e] = true
		// undo-one functions: store NumLeaves = NumLeaves - 1 into the receiver
		var ones []*ssa.Function
		for _, g := range sortedFuncs(p, reach) {
			if g.Blocks == nil || g.Signature.Recv() == nil {
				continue
			}
			for _, b := range g.Blocks {
				for _, in := range b.Instrs {
					st, ok := receiverFieldStore(g, in, "NumLeaves")
					if !ok {
						continue
					}
					if bo, ok := st.Val.(*ssa.BinOp); ok && bo.Op == token.SUB {
						if c, ok := bo.Y.(*ssa.Const); ok && c.Value != nil && c.Int64() == 1 {
							if _, f, ok := fieldRead(bo.X); ok && f == "NumLeaves" {
								ones = append(ones, g)
							}
						}
					}
				}
			}
		}
		key := ename + "/rollback"
		n++
		if len(ones) == 0 {
			r.Violate(rule, key, p.Pos(e.Pos()), "no function reachable from the undo entry decrements the leaf count: the additions of the block stay counted", "in "+ename)
			continue
		}
		one := ones[0]
		// (1) the decrement lies on every success path of the undo-one function
		var dec ssa.Instruction
		for _, b := range one.Blocks {
			for _, in := range b.Instrs {
				if _, ok := receiverFieldStore(one, in, "NumLeaves"); ok {
					dec = in
				}
			}
		}
		okOne := true
		for _, ret := range returnsOf(one) {
			if !isSuccessReturn(ret) {
				continue
			}
			if !(dec.Block() == ret.Block() || dec.Block().Dominates(ret.Block())) {
				okOne = false
			}
		}
		// (2) the caller: a call of the undo-one function on every iteration of a loop bounded by numAdds
		okLoop, why := false, "no call of "+p.FuncName(one)+" inside a loop bounded by the number of additions"
		for _, g := range sortedFuncs(p, reach) {
			if g.Blocks == nil {
				continue
			}
			// the value of numAdds inside g: the parameter of e, or a parameter of g that receives it
			bound := func(v ssa.Value) bool {
				return flowsFrom(v, func(x ssa.Value) bool {
					if x == numAdds {
						return true
					}
					if par, ok := x.(*ssa.Parameter); ok && g != e && isIntLike(par.Type()) {
						return paramReceives(p, e, g, par, numAdds)
					}
					return false
				}, 0, map[ssa.Value]bool{})
			}
			for _, sc := range callsIn(p, g) {
				if sc.call.Common().StaticCallee() != one {
					continue
				}
				h := innermostLoopHeader(sc.call.Block())
				if h == nil {
					why = "the undo-one step is called outside a loop (" + p.Pos(sc.call.Pos()) + ")"
					continue
				}
				everyIter := true
				for _, l := range latches(h) {
					if !(sc.call.Block() == l || sc.call.Block().Dominates(l)) {
						everyIter = false
					}
				}
				bounded := false
				if iff, ok := h.Instrs[len(h.Instrs)-1].(*ssa.If); ok {
					if bo, ok := iff.Cond.(*ssa.BinOp); ok && (bound(bo.X) || bound(bo.Y)) {
						bounded = true
					}
				}
				switch {
				case !everyIter:
					why = "the undo-one step is skipped on some iterations (" + p.Pos(sc.call.Pos()) + ")"
				case !bounded:
					why = "the loop around the undo-one step is not bounded by the number of additions (" + p.Pos(sc.call.Pos()) + ")"
				default:
					okLoop = true
				}
			}
		}
		switch {
		case !okOne:
			r.Violate(rule, key, posOf(p, dec), "the leaf count is not decremented on every success path of "+p.FuncName(one), "in "+p.FuncName(one))
		case !okLoop:
			r.Violate(rule, key, p.Pos(e.Pos()), why, "in "+ename)
		default:
			r.Discharge(rule, key, posOf(p, dec), p.FuncName(one)+" decrements the leaf count on every success path and runs once per added leaf", true)
		}
	}
	r.Floor(rule, "forest undo entries", n, 2)
}

// paramReceives: along some static call chain from e to g, parameter par of g
// is passed the value src of e (direct pass-through only).
func paramReceives(p *Program, e, g *ssa.Function, par *ssa.Parameter, src ssa.Value) bool {
	idx := -1
	for i, q := range g.Params {
		if q == par {
			idx = i
		}
	}
	if idx < 0 {
		return false
	}
	for _, sc := range callsIn(p, e) {
		if sc.call.Common().StaticCallee() != g {
			continue
		}
		args := sc.call.Common().Args
		if idx < len(args) && flowsFrom(args[idx], func(x ssa.Value) bool { return x == src }, 0, map[ssa.Value]bool{}) {
			return true
		}
	}
	return false
}

func init() {
	register(&PropertyDef{
		ID:    "C06",
		Title: "Undo is the exact inverse of the last block",
		Explanation: "Thin claim. Equality of the complete observable state before a block and after its undo is numerical and is NOT decided. Structural necessary conditions: " +
			"R06a - in the closure of the three Undo entries, when a helper returns the updated version of a list it was given (the remaining empty roots, the moved positions), " +
			"the caller does not drop that result while it goes on using the list it passed in: every undo step must see what the previous step left. R06b - in each forest's " +
			"undo-one-addition function every removal of a node is followed on all paths by the removal of its hash from the leaf index. R06c - where undo moves a node back " +
			"(delete at one position, put at another) the put happens on every path that deletes. R06d (E7) - the targets of the undone block are used in the layout of the " +
			"forest before the block (TreeRows(NumLeaves - numAdds) while the additions are still counted), and hashes are paired with positions in one order class. R06e - each " +
			"forest's Undo runs its undo-one-addition step, which decrements the leaf count on every success path, on every iteration of a loop bounded by the block's number of additions. " +
			"R06f - a list of hashes the undo allocates itself and hands to the hashing core as proof hashes is assigned element-wise in between.",
		NotDecided: "that roots, positions, stored nodes, cached leaves and proofs after Undo equal those before the block; undo depth; redo; the selection of which previously empty " +
			"roots were written over (a numerical intersection of position lists).",
		Rules: []RuleDef{
			{ID: "R06", Statement: "threaded undo state; per-addition roll-back", Run: runC06},
			{ID: "R06b", Statement: "undo of an addition un-indexes", Run: func(p *Program, r *Report) {
				r.Rule("R06b", "UNDO-ADD-UNINDEX: in each forest's undo-one-addition function every removal of a node is followed on all paths by the removal of its hash from the leaf index")
				checkUndoAddUnindex(p, r, "R06b")
			}},
			{ID: "R06c", Statement: "moves keep the node", Run: func(p *Program, r *Report) {
				r.Rule("R06c", "MOVE-PAIRING: where a node read from the node store is deleted at its old position and put at a new one, the put happens on every path that deletes")
				checkMovePairing(p, r, "R06c")
			}},
			{ID: "R06d", Statement: "layouts and pairings of the undo entries", Run: func(p *Program, r *Report) {
				r.Rule("R06d", "LAYOUT/PAIRING: in the undo entries positions are used in the coordinate system the accompanying height denotes (the undone block's targets: the forest before the block) and hashes are paired with positions of the same order class")
				or := runOrderEngine(p, r, "R06d", []string{"(*MapPollard).Undo", "(*Pollard).Undo", "(*Proof).Undo"})
				reportOrderEvents(p, r, or, orderRules{pair: "R06d", sink: "R06d", coord: "R06d"})
			}},
		},
	})
}

// ---------------------------------------------------------------------------
// C08 (thin): undoing a cached proof. Set equalities / canonicity after the
// position arithmetic are NOT decided. Decided:
//
//	R08a PAIRING / ORDER  (E7) in (*Proof).Undo hashes stay paired with positions of the same order class; caller order never reaches a requires-sorted sink
//	R08b THREADED-STATE   the updated lists returned by the undo helpers are taken over (as R06a, for the closure of (*Proof).Undo)
//	R08c INVERSE-ORDER    additions are undone before deletions, and the deletions are undone for the leaf count before the block's additions

func runC08(p *Program, r *Report) {
	e := p.Func("(*Proof).Undo")
	if e == nil {
		r.MissingAnchor("R08b", "(*Proof).Undo", "cached-proof undo not found")
		return
	}
	checkThreadedState(p, r, "R08b", []*ssa.Function{e}, 2)
	checkGeometryConsistent(p, r, "R08d", []*ssa.Function{e})
	checkEmptyForestHasNoPositions(p, r, "R08e", e)
	checkTwinParentInOrder(p, r, "R08f")
	checkZeroRowsIsNotEmpty(p, r, "R08i", []string{"(*Proof).Undo", "(*Proof).Update"})
	r.Rule("R08j", "ROWS-NOT-SMALLER-THAN-THE-COUNT'S: no call passes a leaf count n together with the height of a smaller forest, TreeRows(n - k)")
	checkRowsNotSmallerThanCounts(p, r, "R08j")
	r.Rule("R08h", "SLOT-CACHE-NOT-PERMUTED: a slice filled slot by slot from another list is not read again after that list (or the struct holding it) was sorted or handed to a method that may insert or delete")
	checkSlotCacheNotPermuted(p, r, "R08h", []string{"(*Proof).Undo", "(*Proof).Update"})

	r.Rule("R08c", "INVERSE-ORDER: the cached-proof undo reverts the additions of the block before its deletions, and reverts the deletions for the leaf count the forest had before the additions (numLeaves - numAdds)")
	key := "(*Proof).Undo/inverse-order"
	// parameters by role: the two leading integers (numAdds, numLeaves), the deleted positions ([]uint64 #1), the destroyed roots ([]uint64 #2)
	var ints, lists []ssa.Value
	for _, par := range e.Params[1:] {
		if isUint64(par.Type()) {
			ints = append(ints, par)
		}
		if sl, ok := par.Type().Underlying().(*types.Slice); ok && isUint64(sl.Elem()) {
			lists = append(lists, par)
		}
	}
	if len(ints) < 2 || len(lists) < 2 {
		r.Undecided("R08c", key, p.Pos(e.Pos()), "cannot identify the parameters (numAdds, numLeaves, dels, toDestroy) by type")
		return
	}
	numAdds, numLeaves, dels, toDestroy := ints[0], ints[1], lists[0], lists[1]
	var addUndo, delUndo *ssa.Call
	for _, sc := range callsIn(p, e) {
		for _, a := range sc.call.Common().Args {
			if a == toDestroy && addUndo == nil {
				addUndo = sc.call
			}
			if a == dels && delUndo == nil {
				delUndo = sc.call
			}
		}
	}
	switch {
	case addUndo == nil || delUndo == nil:
		r.Undecided("R08c", key, p.Pos(e.Pos()), "cannot find the step that receives the destroyed roots and the step that receives the deleted positions")
	case !(addUndo.Block() == delUndo.Block() && instrIndex(addUndo) < instrIndex(delUndo)) && !addUndo.Block().Dominates(delUndo.Block()):
		r.Violate("R08c", key, posOf(p, delUndo), "the deletions of the block are reverted before (or without) its additions: a block deletes first and adds afterwards, so its undo has to revert the additions first", "in (*Proof).Undo")
	default:
		// the leaf count handed to the deletion step
		ok := false
		for _, a := range delUndo.Common().Args {
			if bo, isBin := a.(*ssa.BinOp); isBin && bo.Op == token.SUB && bo.X == numLeaves && bo.Y == numAdds {
				ok = true
			}
		}
		if ok {
			r.Discharge("R08c", key, posOf(p, delUndo), "additions are reverted first; the deletion step receives numLeaves - numAdds", true)
		} else {
			r.Violate("R08c", key, posOf(p, delUndo), "the step that reverts the deletions does not receive the leaf count before the block's additions (numLeaves - numAdds): positions would be moved in the geometry of the wrong forest", "in (*Proof).Undo")
		}
	}
}

func init() {
	register(&PropertyDef{
		ID:    "C08",
		Title: "Undoing a cached proof",
		Explanation: "Thin claim. That the undone proof is canonical, verifies and holds exactly the right leaves is a matter of position arithmetic and set equalities and is NOT decided. " +
			"Structural necessary conditions: R08a (E7) - in (*Proof).Undo and everything it reaches, hashes are paired with positions of the same order class at every pairing site and a " +
			"caller-ordered list never reaches a function that requires sorted input; R08b - when an undo helper returns the updated version of a list it was given, the caller takes it " +
			"over instead of going on with the list it passed in; R08c - the additions of the block are reverted before its deletions and the deletion step works with the leaf count " +
			"before the additions (numLeaves - numAdds); R08d - within one function the elements of a position list that the function never writes are handed to leaf-count-dependent " +
			"position functions with one and the same leaf count (a contradiction rule); R08e - outside the hashing core, a call of maxPositionAtRow (inexact for a forest without leaves) is " +
			"dominated by a test that the leaf count it is given is not zero; R08f - the de-twinning functions put the parent of a sibling pair into their sorted list through an ordered insert or merge.",
		NotDecided: "every numerical clause: which positions survive pruneEdges, calcPrevPosition, which leaves are kept or dropped, canonicity of the resulting proof, undo depth and redo.",
		Rules: []RuleDef{
			{ID: "R08", Statement: "threaded undo state; inverse order of the two phases", Run: runC08},
			{ID: "R08a", Statement: "pairing and order classes in the cached-proof undo", Run: func(p *Program, r *Report) {
				r.Rule("R08a", "PAIRING/ORDER: in the cached-proof undo hashes are paired with positions of the same order class and caller order never reaches a requires-sorted sink")
				or := runOrderEngine(p, r, "R08a", []string{"(*Proof).Undo"})
				reportOrderEvents(p, r, or, orderRules{pair: "R08a", sink: "R08a", coord: "R08a"})
			}},
		},
	})
}

// ---------------------------------------------------------------------------
// R08d GEOMETRY-CONSISTENT (a contradiction rule, Engler et al.: if the same
// value is treated in two incompatible ways, one of them is wrong). A position
// means something only relative to a leaf count. When the elements of a list
// that the function never writes (a parameter such as the destroyed roots of
// the block) are handed to a leaf-count-dependent position function together
// with numLeaves at one site and with numLeaves-numAdds at another, the list
// is read in the geometry of two different forests.

func checkGeometryConsistent(p *Program, r *Report, rule string, entries []*ssa.Function) {
	r.Rule(rule, "GEOMETRY-CONSISTENT: within one function of the cached-proof undo, the elements of a position list that the function never writes are handed to leaf-count-dependent position functions with one and the same leaf count")
	reach := p.StaticReach(entries...)
	for _, e := range entries {
		reach[e] = true
	}
	n := 0
	for _, g := range sortedFuncs(p, reach) {
		if g.Blocks == nil || !p.owns(g) {
			continue
		}
		// lists of g that are never written through
		written := map[ssa.Value]bool{}
		for _, b := range g.Blocks {
			for _, in := range b.Instrs {
				if st, ok := in.(*ssa.Store); ok {
					if ia, ok := st.Addr.(*ssa.IndexAddr); ok {
						written[ia.X] = true
					}
				}
			}
		}
		type use struct {
			cls  string
			call *ssa.Call
		}
		uses := map[*ssa.Parameter][]use{}
		for _, sc := range callsIn(p, g) {
			callee := sc.call.Common().StaticCallee()
			if callee == nil || !p.owns(callee) || callee.Blocks == nil {
				continue
			}
			// the callee's leaf-count parameter
			li := -1
			for i, par := range callee.Params {
				if isUint64(par.Type()) && strings.EqualFold(par.Name(), "numLeaves") {
					li = i
				}
			}
			args := sc.call.Common().Args
			if li < 0 || li >= len(args) {
				continue
			}
			cls := leafCountClass(args[li])
			if cls == "" {
				continue
			}
			for i, a := range args {
				if i == li || !isUint64(a.Type()) {
					continue
				}
				u, ok := a.(*ssa.UnOp)
				if !ok {
					continue
				}
				ia, ok := u.X.(*ssa.IndexAddr)
				if !ok {
					continue
				}
				par, ok := ia.X.(*ssa.Parameter)
				if !ok || written[par] {
					continue
				}
				uses[par] = append(uses[par], use{cls, sc.call})
			}
		}
		var pars []*ssa.Parameter
		for par := range uses {
			pars = append(pars, par)
		}
		sort.Slice(pars, func(i, j int) bool { return pars[i].Name() < pars[j].Name() })
		for _, par := range pars {
			us := uses[par]
			n++
			key := fmt.Sprintf("%s/%s/geometry", p.FuncName(g), par.Name())
			first := us[0]
			var other *use
			for i := range us {
				if us[i].cls != first.cls {
					other = &us[i]
					break
				}
			}
			if other == nil {
				r.Discharge(rule, key, posOf(p, first.call), fmt.Sprintf("the elements of %s are read with the leaf count %s at all %d sites", par.Name(), first.cls, len(us)), len(us) > 1)
			} else {
				r.Violate(rule, key, posOf(p, other.call), fmt.Sprintf("the elements of %s, which the function never writes, are read with the leaf count %s at %s and with %s here: the same positions are interpreted in the geometry of two different forests, so one of the two sites is wrong", par.Name(), first.cls, p.Pos(first.call.Pos()), other.cls), "in "+p.FuncName(g))
			}
		}
	}
	r.Floor(rule, "position lists read with a leaf count", n, 1)
}

// leafCountClass: a canonical name for a leaf-count argument: a parameter, or
// the difference of two parameters.
func leafCountClass(v ssa.Value) string {
	switch x := v.(type) {
	case *ssa.Parameter:
		return x.Name()
	case *ssa.BinOp:
		if x.Op == token.SUB || x.Op == token.ADD {
			a, b := leafCountClass(x.X), leafCountClass(x.Y)
			if a != "" && b != "" {
				return a + x.Op.String() + b
			}
		}
	case *ssa.Convert:
		return leafCountClass(x.X)
	}
	return ""
}

// ---------------------------------------------------------------------------
// R08e EMPTY-FOREST-HAS-NO-POSITIONS. maxPositionAtRow answers "the last
// populated position of a row" - and answers 0 for an empty forest, so that
// position 0 "exists" with no leaves (reviewed; witness: undoing the first
// block keeps the leaf the block added). Where the cached-proof undo decides
// with it whether an entry existed before the block, the decision has to be
// dominated by a test that the pre-block leaf count is not zero (or be made
// with the exact test inForest instead).

var inexactForEmptyForest = map[string]string{
	"maxPositionAtRow": "returns 0 for a forest without leaves, which reads as 'position 0 is populated'",
}

func checkEmptyForestHasNoPositions(p *Program, r *Report, rule string, e *ssa.Function) {
	r.Rule(rule, "EMPTY-FOREST-HAS-NO-POSITIONS: where the cached-proof undo decides with maxPositionAtRow (inexact for a forest without leaves) whether an entry existed before the block, the decision is dominated by a test that the pre-block leaf count is not zero")
	reach := p.StaticReach(e)
	reach[e] = true
	core := resolveVerifyAnchors(p).core
	// the core and the helpers only the core (or such a helper) calls
	coreOnly := map[*ssa.Function]bool{core: true}
	for changed := true; changed; {
		changed = false
		for _, g := range p.Funcs {
			if coreOnly[g] || g.Blocks == nil || g.Parent() != nil {
				continue
			}
			callers, all := 0, true
			for _, h := range p.Funcs {
				for _, sc := range callsIn(p, h) {
					if sc.call.Common().StaticCallee() == g {
						callers++
						if !coreOnly[h] {
							all = false
						}
					}
				}
			}
			if callers > 0 && all && g.Object() != nil && !g.Object().Exported() {
				coreOnly[g] = true
				changed = true
			}
		}
	}
	n := 0
	for _, g := range sortedFuncs(p, reach) {
		if g.Blocks == nil || !p.owns(g) || coreOnly[g] {
			// in the hashing core the bound only limits a claimed position; a position wrongly let
			// through is refused by the root match, nothing is kept on its strength
			continue
		}
		for _, sc := range callsIn(p, g) {
			callee := sc.call.Common().StaticCallee()
			if callee == nil || !p.owns(callee) {
				continue
			}
			why, inexact := inexactForEmptyForest[callee.Name()]
			if !inexact {
				continue
			}
			// the leaf-count argument
			var count ssa.Value
			for i, par := range callee.Params {
				if isUint64(par.Type()) && strings.EqualFold(par.Name(), "numLeaves") && i < len(sc.call.Common().Args) {
					count = sc.call.Common().Args[i]
				}
			}
			if count == nil {
				continue
			}
			n++
			key := fmt.Sprintf("%s->%s#%d/empty-forest", p.FuncName(g), sc.label, sc.ord)
			// a dominating guard: count != 0, count > 0, or (for count = a - b) a != b / a > b
			guarded := false
			for _, gd := range guardsAt(sc.call.Block()) {
				rel, ok := relOf(gd)
				if !ok {
					continue
				}
				isZero := func(v ssa.Value) bool {
					c, ok := v.(*ssa.Const)
					return ok && c.Value != nil && c.Uint64() == 0
				}
				same := func(a, b ssa.Value) bool { return a == b || sameValue(a, b) }
				switch rel.Op {
				case token.NEQ, token.GTR, token.LSS:
					if (same(rel.X, count) && isZero(rel.Y)) || (same(rel.Y, count) && isZero(rel.X)) {
						guarded = true
					}
					if bo, ok := count.(*ssa.BinOp); ok && bo.Op == token.SUB {
						if (same(rel.X, bo.X) && same(rel.Y, bo.Y)) || (same(rel.X, bo.Y) && same(rel.Y, bo.X)) {
							guarded = true
						}
					}
				}
			}
			if guarded {
				r.Discharge(rule, key, posOf(p, sc.call), "the call is dominated by a test that the leaf count it is given is not zero", true)
			} else {
				r.Violate(rule, key, posOf(p, sc.call), callee.Name()+" "+why+", and nothing here excludes a pre-block forest without leaves: undoing the very first block keeps position 0 - a leaf the undone block added", "in "+p.FuncName(g))
			}
		}
	}
	r.Floor(rule, "existence decisions with an inexact test in the cached-proof undo", n, 1)
}

// ---------------------------------------------------------------------------
// R06f MADE-PROOF-IS-FILLED. A full forest that is undone with a targets-only
// proof builds the proof hashes itself: it allocates a zeroed list and fills it
// from the node store. The hashing core treats a zero hash as "subtree gone",
// so a freshly made []Hash that reaches the core's proof argument has to be
// written element-wise on the way; otherwise every ancestor of the restored
// targets is recomputed from empty siblings.

func checkMadeProofIsFilled(p *Program, r *Report, rule string, entries []*ssa.Function) {
	r.Rule(rule, "MADE-PROOF-IS-FILLED: in the undo closure a list of hashes allocated with make and handed to the hashing core as proof hashes is assigned element-wise in between (a zeroed proof makes the core treat every sibling as deleted)")
	core := resolveVerifyAnchors(p).core
	reach := p.StaticReach(entries...)
	for _, e := range entries {
		reach[e] = true
	}
	n := 0
	for _, g := range sortedFuncs(p, reach) {
		if g.Blocks == nil || !p.owns(g) {
			continue
		}
		for _, b := range g.Blocks {
			for _, in := range b.Instrs {
				st, ok := in.(*ssa.Store)
				if !ok {
					continue
				}
				mk, ok := st.Val.(*ssa.MakeSlice)
				if !ok || !isHashSlice(mk.Type()) {
					continue
				}
				fa, ok := st.Addr.(*ssa.FieldAddr)
				if !ok || !p.localNamed(deref(fa.X.Type()), "Proof") {
					continue
				}
				// does that Proof value reach the core?
				toCore := false
				for _, sc := range callsIn(p, g) {
					if sc.call.Common().StaticCallee() != core {
						continue
					}
					for _, a := range sc.call.Common().Args {
						if u, ok := a.(*ssa.UnOp); ok && u.X == fa.X {
							toCore = true
						}
					}
				}
				if !toCore {
					continue
				}
				n++
				key := fmt.Sprintf("%s/made-proof#%d", p.FuncName(g), n)
				filled := false
				for _, bb := range g.Blocks {
					for _, in2 := range bb.Instrs {
						es, ok := in2.(*ssa.Store)
						if !ok {
							continue
						}
						ia, ok := es.Addr.(*ssa.IndexAddr)
						if !ok {
							continue
						}
						if u, ok := ia.X.(*ssa.UnOp); ok {
							if fa2, ok := u.X.(*ssa.FieldAddr); ok && fa2.X == fa.X && fa2.Field == fa.Field {
								filled = true
							}
						}
					}
				}
				if filled {
					r.Discharge(rule, key, posOf(p, st), "the made list is assigned element-wise before it reaches the hashing core", true)
				} else {
					r.Violate(rule, key, posOf(p, st), "a list of hashes made with make (all zero) is handed to the hashing core as proof hashes and never assigned in between: the core takes a zero sibling as a deleted subtree, so the ancestors of the restored targets are recomputed from nothing", "in "+p.FuncName(g))
				}
			}
		}
	}
	r.Floor(rule, "made proof-hash lists that reach the core", n, 1)
}

// ---------------------------------------------------------------------------
// R08f TWIN-PARENT-INSERTED-IN-ORDER. De-twinning replaces two sibling entries
// of a position-sorted list by their parent. Everything downstream (the next
// twin test, merges, descending walks) relies on the list staying sorted, so
// the parent has to go in through an ordered insert / merge. "The parent is on
// a higher row, so it goes to the end" holds only when every entry is on row 0.
// In the de-twinning functions (the functions of the package whose name starts
// with deTwin - a naming convention of the code base, used like a table) the
// list never grows through append / (*hashAndPos).Append.

func checkTwinParentInOrder(p *Program, r *Report, rule string) {
	r.Rule(rule, "TWIN-PARENT-INSERTED-IN-ORDER: a de-twinning function puts the parent of a sibling pair into its position-sorted list through an ordered insert or merge, never by appending it at the end")
	n := 0
	for _, fn := range p.Funcs {
		if fn.Parent() != nil || fn.Blocks == nil || !p.owns(fn) || !strings.HasPrefix(fn.Name(), "deTwin") {
			continue
		}
		n++
		key := p.FuncName(fn) + "/ordered-insert"
		var bad ssa.Instruction
		ordered := 0
		for _, sc := range callsIn(p, fn) {
			cc := sc.call.Common()
			if builtinName(cc) == "append" {
				// append used to cut two entries out (append(xs[:i], xs[i+2:]...)) is a deletion: both operands slice the same list
				if len(cc.Args) == 2 {
					_, s1 := cc.Args[0].(*ssa.Slice)
					_, s2 := cc.Args[1].(*ssa.Slice)
					if s1 && s2 {
						continue
					}
				}
				if bad == nil {
					bad = sc.call
				}
				continue
			}
			callee := cc.StaticCallee()
			if callee == nil || !p.owns(callee) {
				continue
			}
			switch {
			case callee.Name() == "Append" || callee.Name() == "AppendMany":
				if bad == nil {
					bad = sc.call
				}
			case strings.HasPrefix(callee.Name(), "insertInOrder"), strings.HasPrefix(callee.Name(), "insertSort"), strings.HasPrefix(callee.Name(), "mergeSorted"):
				ordered++
			}
		}
		switch {
		case bad != nil:
			r.Violate(rule, key, posOf(p, bad), "the parent of a sibling pair is appended at the end of the position-sorted list: with entries above row 0 the list is no longer sorted, later twins are not found and the positions that follow are remapped wrongly", "in "+p.FuncName(fn))
		case ordered == 0:
			r.Undecided(rule, key, p.Pos(fn.Pos()), "cannot see how the parent of a sibling pair enters the list")
		default:
			r.Discharge(rule, key, p.Pos(fn.Pos()), "the parent enters the list through an ordered insert / merge", true)
		}
	}
	r.Floor(rule, "de-twinning functions", n, 3)
}

// ---------------------------------------------------------------------------
// R06h EMPTY-ROOT-RESTORED. When the map forest undoes additions that were
// written over an empty root, the root position has to hold a node again (the
// addition code requires a node at every root position it merges over, the
// empty ones included). The code has two places that can provide it, each
// redundant while the other is there:
//   A  the step that re-creates the empty root stores the empty node right
//      after it has moved the descendants down, on every continuing path;
//   B  the undo entry ends, on every success path, with the loop that writes
//      the previous roots (a parameter) back to the root positions.
// The rule is the disjunction: removing one of them changes nothing, removing
// both (or making both conditional) leaves a re-created root without a node.

func checkEmptyRootRestored(p *Program, r *Report, rule string) {
	r.Rule(rule, "EMPTY-ROOT-RESTORED: an empty root that the map forest's undo re-creates gets its node back - either the step that re-creates it stores the empty node on every continuing path, or the undo entry writes the previous roots back on every success path")
	undo := p.Func("(*MapPollard).Undo")
	place := p.Func("(*MapPollard).placeEmptyRoot")
	if undo == nil || place == nil {
		r.MissingAnchor(rule, "(*MapPollard).Undo / (*MapPollard).placeEmptyRoot", "undo entry or the empty-root step not found")
		return
	}
	// --- A: callers of the empty-root step in the add-undo closure
	aHolds, aSites := true, 0
	aWhy := ""
	reach := p.StaticReach(undo)
	reach[undo] = true
	for _, g := range sortedFuncs(p, reach) {
		if g == place {
			continue
		}
		h0 := func(b *ssa.BasicBlock) *ssa.BasicBlock { return innermostLoopHeader(b) }
		for _, sc := range callsIn(p, g) {
			if sc.call.Common().StaticCallee() != place {
				continue
			}
			// only the add-undo use: the caller hands the position of a previous empty root (an element of a list)
			if _, fromList := stripValue(sc.call.Common().Args[len(sc.call.Common().Args)-1]).(*ssa.UnOp); !fromList {
				if _, isPhi := sc.call.Common().Args[len(sc.call.Common().Args)-1].(*ssa.Phi); !isPhi {
					continue
				}
			}
			if !strings.Contains(strings.ToLower(p.FuncName(g)), "add") {
				continue
			}
			aSites++
			posArg := sc.call.Common().Args[len(sc.call.Common().Args)-1]
			// the empty-node store for that position
			var put ssa.Instruction
			for _, b := range g.Blocks {
				for _, in := range b.Instrs {
					k, m, cc := storeCall(p, in)
					if k != "nodes" || m != "Put" || len(cc.Args) < 2 || !sameValue(cc.Args[0], posArg) {
						continue
					}
					isEmpty := false
					for _, o := range structFieldOrigins(cc.Args[1], "Hash") {
						if !o.whole && isEmptyGlobal(o.val) {
							isEmpty = true
						}
					}
					if isEmpty && sc.call.Block().Dominates(b) {
						put = in
					}
				}
			}
			if put == nil {
				aHolds, aWhy = false, "no store of the empty node at the re-created position follows "+p.Pos(sc.call.Pos())
				continue
			}
			// every continuing path from the call passes the store: search from the call's block, not through
			// the store's block, for a success return or the header of the enclosing loop
			hdr := h0(sc.call.Block())
			seen := map[*ssa.BasicBlock]bool{put.Block(): true}
			work := append([]*ssa.BasicBlock{}, sc.call.Block().Succs...)
			around := false
			for len(work) > 0 && !around {
				b := work[len(work)-1]
				work = work[:len(work)-1]
				if seen[b] {
					continue
				}
				seen[b] = true
				if b == hdr {
					around = true
					break
				}
				if ret, ok := b.Instrs[len(b.Instrs)-1].(*ssa.Return); ok {
					ops := retOperands(ret)
					if ei := errorResultIndex(g.Signature); ei < 0 || (ei < len(ops) && isNilConst(ops[ei])) {
						around = true
					}
					continue
				}
				work = append(work, b.Succs...)
			}
			if put.Block() == sc.call.Block() {
				around = false
			}
			if around {
				aHolds, aWhy = false, "a continuing path from "+p.Pos(sc.call.Pos())+" goes around the store of the empty node"
			}
		}
	}
	if aSites == 0 {
		aHolds, aWhy = false, "the add-undo step does not call the empty-root step"
	}
	// --- B: the closing write-back of the previous roots in the entry
	bHolds, bWhy := false, "the undo entry has no loop that stores the previous roots"
	var rootsPar ssa.Value
	for _, par := range undo.Params {
		if sl, ok := par.Type().Underlying().(*types.Slice); ok && isHashType(sl.Elem()) {
			rootsPar = par // the last []Hash parameter: the previous roots
		}
	}
	if rootsPar != nil {
		for _, b := range undo.Blocks {
			for _, in := range b.Instrs {
				k, m, cc := storeCall(p, in)
				if k != "nodes" || m != "Put" || len(cc.Args) < 2 {
					continue
				}
				hdr := innermostLoopHeader(b)
				if hdr == nil {
					continue
				}
				fromRoots := false
				for _, o := range structFieldOrigins(cc.Args[1], "Hash") {
					if flowsFrom(o.val, func(v ssa.Value) bool { return v == rootsPar }, 0, map[ssa.Value]bool{}) {
						fromRoots = true
					}
				}
				if !fromRoots {
					continue
				}
				all := true
				for _, ret := range returnsOf(undo) {
					ops := retOperands(ret)
					if ei := errorResultIndex(undo.Signature); ei >= 0 && ei < len(ops) && isNilConst(ops[ei]) && !hdr.Dominates(ret.Block()) {
						all = false
					}
				}
				// the store itself runs on every iteration
				for _, l := range latches(hdr) {
					if !(b == l || b.Dominates(l)) {
						all = false
					}
				}
				if all {
					bHolds = true
				} else {
					bWhy = "the loop that stores the previous roots does not lie on every success path of the undo entry (or skips iterations)"
				}
			}
		}
	}
	key := "(*MapPollard).Undo/empty-root-restored"
	switch {
	case aHolds && bHolds:
		r.Discharge(rule, key, p.Pos(undo.Pos()), fmt.Sprintf("both hold: the add-undo step stores the empty node after re-creating the root (%d site(s)) and the entry writes the previous roots back on every success path", aSites), true)
	case aHolds:
		r.Discharge(rule, key, p.Pos(undo.Pos()), "the add-undo step stores the empty node after re-creating the root on every continuing path (the closing write-back: "+bWhy+")", true)
	case bHolds:
		r.Discharge(rule, key, p.Pos(undo.Pos()), "the entry writes the previous roots back on every success path (the add-undo step: "+aWhy+")", true)
	default:
		r.Violate(rule, key, p.Pos(undo.Pos()), "a re-created empty root is left without a node: "+aWhy+"; and "+bWhy+" - the forest answers queries as before (a missing node reads as the empty hash) and then refuses the next addition that reaches that row", "in (*MapPollard).Undo")
	}
}

// ---------------------------------------------------------------------------
// R06i EMPTY-ROOT-PLACED-BY-GEOMETRY. When the map forest undoes a deletion
// it has to move the subtree that climbed over the deleted position back
// down (placeEmptyRoot). Whether there is such a subtree is a question about
// the forest's geometry - does the sibling position exist for this leaf count
// - and is answered with the reviewed existence test. A partial forest prunes
// what no remembered leaf needs, so "is a node stored at the parent" says
// nothing about it: remembered leaves deeper down would stay at their
// moved-up positions. In the deletion-undo every call of the step is under a
// true edge of the existence test on (a function of) the same position and
// is not control-dependent on a look-up of the node store.

func checkEmptyRootByGeometry(p *Program, r *Report, rule string) {
	r.Rule(rule, "EMPTY-ROOT-PLACED-BY-GEOMETRY: in the deletion-undo of the map forest the step that moves a climbed subtree back down runs under the reviewed existence test of the sibling position, never under the result of a node-store look-up (a partial forest prunes nodes whose subtrees still hold remembered leaves)")
	place := p.Func("(*MapPollard).placeEmptyRoot")
	undo := p.Func("(*MapPollard).Undo")
	if place == nil || undo == nil {
		r.MissingAnchor(rule, "(*MapPollard).placeEmptyRoot / (*MapPollard).Undo", "undo entry or the empty-root step not found")
		return
	}
	reach := p.StaticReach(undo)
	n := 0
	for _, g := range sortedFuncs(p, reach) {
		if g == place || strings.Contains(strings.ToLower(p.FuncName(g)), "add") {
			continue // the addition-undo takes the positions from the list of overwritten roots (R06h)
		}
		idx := 0
		for _, sc := range callsIn(p, g) {
			if sc.call.Common().StaticCallee() != place {
				continue
			}
			idx++
			n++
			key := fmt.Sprintf("%s->placeEmptyRoot#%d/by-geometry", p.FuncName(g), idx)
			args := sc.call.Common().Args
			pos := args[len(args)-1]
			_, byTest := existenceGuardFor(p, sc.call.Block(), func(v ssa.Value) bool { return v == pos || sameValue(v, pos) })
			byLookup := false
			for _, gd := range guardsAt(sc.call.Block()) {
				if dependsOn(gd.Cond, func(v ssa.Value) bool {
					ex, ok := v.(*ssa.Extract)
					if !ok {
						return false
					}
					c, ok := ex.Tuple.(*ssa.Call)
					if !ok {
						return false
					}
					k, m, _ := storeCall(p, c)
					return k == "nodes" && m == "Get"
				}) {
					byLookup = true
				}
			}
			switch {
			case byLookup:
				r.Violate(rule, key, posOf(p, sc.call), "the step that moves a climbed subtree back down runs only when a node-store look-up found something: a partial forest has pruned that node while remembered leaves below it are still stored at their moved-up positions, and they stay there after the undo", "in "+p.FuncName(g))
			case !byTest:
				r.Violate(rule, key, posOf(p, sc.call), "the step that moves a climbed subtree back down is not under the reviewed existence test of the sibling position for the current leaf count", "in "+p.FuncName(g))
			default:
				r.Discharge(rule, key, posOf(p, sc.call), "the call is under the existence test of the sibling position and not under a node-store look-up", true)
			}
		}
	}
	r.Floor(rule, "calls of the empty-root step in the deletion-undo", n, 1)
}

// ---------------------------------------------------------------------------
// R08i ZERO-ROWS-IS-NOT-EMPTY. TreeRows(n) is 0 for an empty forest and for a
// forest of one leaf. A return of the cached-proof update/undo that is taken
// because "the forest had no rows" treats a one-leaf forest - whose leaf can
// be cached and proven, with an empty proof - like an empty one. In the
// closure of the two entries no return is guarded by TreeRows(x) == 0 (or the
// false edge of != 0) unless a guard on x itself is also in force.

func checkZeroRowsIsNotEmpty(p *Program, r *Report, rule string, entries []string) {
	r.Rule(rule, "ZERO-ROWS-IS-NOT-EMPTY: in the cached-proof update and undo no return is taken on TreeRows(x) == 0 alone (a forest of one leaf has zero rows and a provable leaf)")
	rowsFn := p.Func("TreeRows")
	var es []*ssa.Function
	for _, e := range entries {
		if f := p.Func(e); f != nil {
			es = append(es, f)
		} else {
			r.MissingAnchor(rule, e, e+" not found")
		}
	}
	if rowsFn == nil {
		r.MissingAnchor(rule, "TreeRows", "row function not found")
		return
	}
	reach := p.StaticReach(es...)
	for _, e := range es {
		reach[e] = true
	}
	rowsOf := func(v ssa.Value) (ssa.Value, bool) {
		c, ok := v.(*ssa.Call)
		if !ok || c.Common().StaticCallee() != rowsFn || len(c.Common().Args) != 1 {
			return nil, false
		}
		return c.Common().Args[0], true
	}
	isZeroConst := func(v ssa.Value) bool {
		c, ok := v.(*ssa.Const)
		return ok && c.Value != nil && c.Value.String() == "0"
	}
	n, bad := 0, 0
	for _, fn := range sortedFuncs(p, reach) {
		if fn.Blocks == nil || !p.owns(fn) {
			continue
		}
		idx := 0
		for _, ret := range returnsOf(fn) {
			gs := guardsAt(ret.Block())
			for _, g := range gs {
				rel, ok := relOf(g)
				if !ok || rel.Op != token.EQL {
					continue
				}
				var arg ssa.Value
				if a, isRows := rowsOf(rel.X); isRows && isZeroConst(rel.Y) {
					arg = a
				} else if a, isRows := rowsOf(rel.Y); isRows && isZeroConst(rel.X) {
					arg = a
				} else {
					continue
				}
				n++
				idx++
				key := fmt.Sprintf("%s/return-on-zero-rows#%d", p.FuncName(fn), idx)
				// another guard that looks at the leaf count itself
				exact := false
				for _, g2 := range gs {
					rel2, ok := relOf(g2)
					if !ok || g2.If == g.If {
						continue
					}
					if sameValue(rel2.X, arg) || sameValue(rel2.Y, arg) || sameArith(rel2.X, arg) || sameArith(rel2.Y, arg) {
						exact = true
					}
				}
				if exact {
					r.Discharge(rule, key, posOf(p, ret), "the return is also under a test of the leaf count itself", true)
				} else {
					bad++
					r.Violate(rule, key, posOf(p, ret), "this return is taken because TreeRows(x) == 0, which holds for a forest of one leaf as well as for an empty one: a cached leaf of a one-leaf forest (provable with an empty proof) is treated as if nothing could have been proven", "in "+p.FuncName(fn))
				}
			}
		}
	}
	if n == 0 {
		r.Discharge(rule, "closure/no-return-on-zero-rows", "-", "no return of the closure is guarded by TreeRows(x) == 0", false)
	}
}

// sameArith: a and b are the same value or the same arithmetic expression over the same values.
func sameArith(a, b ssa.Value) bool {
	if a == b {
		return true
	}
	x, ok1 := a.(*ssa.BinOp)
	y, ok2 := b.(*ssa.BinOp)
	if ok1 && ok2 && x.Op == y.Op {
		return sameArith(x.X, y.X) && sameArith(x.Y, y.Y)
	}
	cx, ok1 := a.(*ssa.Convert)
	cy, ok2 := b.(*ssa.Convert)
	if ok1 && ok2 && types.Identical(cx.Type(), cy.Type()) {
		return sameArith(cx.X, cy.X)
	}
	return false
}

// ---------------------------------------------------------------------------
// R06k BOTH-LAYOUTS-RE-INDEX. The map forest works in one of two layouts,
// decided by the test TreeRows(NumLeaves) != TotalRows, and the undo code
// branches on it to translate positions. The leaf index is written for the
// re-instated targets under a flag; the flag must be settable whichever way
// the layout test goes. If every assignment of true to the flag lies under
// the "layouts differ" edge (the other branch was dropped in a tidy-up), a
// forest that allocates exactly the rows it needs never re-indexes an
// undeleted leaf.

func checkBothLayoutsReindex(p *Program, r *Report, rule string) {
	r.Rule(rule, "BOTH-LAYOUTS-RE-INDEX: a flag under which the map forest's undo writes the leaf index can become true on both sides of the layout test TreeRows(NumLeaves) != TotalRows")
	undo := p.Func("(*MapPollard).Undo")
	rowsFn := p.Func("TreeRows")
	if undo == nil || rowsFn == nil {
		r.MissingAnchor(rule, "(*MapPollard).Undo / TreeRows", "undo entry or row function not found")
		return
	}
	isLayoutTest := func(v ssa.Value) bool {
		bo, ok := v.(*ssa.BinOp)
		if !ok || (bo.Op != token.NEQ && bo.Op != token.EQL) {
			return false
		}
		isRows := func(x ssa.Value) bool {
			c, ok := x.(*ssa.Call)
			return ok && c.Common().StaticCallee() == rowsFn
		}
		isTotal := func(x ssa.Value) bool {
			_, f, ok := fieldRead(x)
			return ok && f == "TotalRows"
		}
		return (isRows(bo.X) && isTotal(bo.Y)) || (isRows(bo.Y) && isTotal(bo.X))
	}
	reach := p.StaticReach(undo)
	reach[undo] = true
	n := 0
	for _, g := range sortedFuncs(p, reach) {
		if g.Blocks == nil {
			continue
		}
		idx := 0
		for _, b := range g.Blocks {
			for _, in := range b.Instrs {
				k, m, _ := storeCall(p, in)
				if k != "index" || m != "Put" {
					continue
				}
				// the flag guarding the write: a phi among the guards, or the result of a helper that computes one
				for _, gd := range guardsAt(b) {
					if !gd.Truth {
						continue
					}
					type flagAt struct {
						fn *ssa.Function
						ph *ssa.Phi
					}
					var flags []flagAt
					switch x := gd.Cond.(type) {
					case *ssa.Phi:
						flags = append(flags, flagAt{g, x})
					case *ssa.Call:
						if h := x.Common().StaticCallee(); h != nil && p.owns(h) && h.Blocks != nil {
							for _, ret := range returnsOf(h) {
								for _, rv := range ret.Results {
									if ph, ok := rv.(*ssa.Phi); ok && types.Identical(ph.Type(), types.Typ[types.Bool]) {
										flags = append(flags, flagAt{h, ph})
									}
								}
							}
						}
					}
					for _, fl := range flags {
						bad, nsrc := layoutOneSided(p, fl.fn, fl.ph, isLayoutTest)
						if nsrc == 0 {
							continue
						}
						idx++
						n++
						key := fmt.Sprintf("%s/index-put#%d/both-layouts", p.FuncName(g), idx)
						if bad != "" {
							r.Violate(rule, key, posOf(p, in), bad+": on the other layout the flag is never set, so the leaves this undo re-instates are not written back to the leaf index (they are in the forest, and look-ups and Prove do not find them)", "in "+p.FuncName(g))
						} else {
							r.Discharge(rule, key, posOf(p, in), "the flag guarding this index write can become true on both sides of every layout test", true)
						}
					}
				}
			}
		}
	}
	r.Floor(rule, "flag-guarded leaf-index writes in the map forest's undo", n, 1)
}

// layoutOneSided: the blocks from which the constant true flows into the flag
// ph of fn all lie under one edge of a layout test of fn. Returns the
// description of that edge ("" when there is none) and the number of sources.
func layoutOneSided(p *Program, fn *ssa.Function, ph *ssa.Phi, isLayoutTest func(ssa.Value) bool) (string, int) {
	var sources []*ssa.BasicBlock
	seen := map[*ssa.Phi]bool{}
	var collect func(q *ssa.Phi)
	collect = func(q *ssa.Phi) {
		if seen[q] {
			return
		}
		seen[q] = true
		for i, e := range q.Edges {
			switch x := e.(type) {
			case *ssa.Const:
				if x.Value != nil && x.Value.String() == "true" && i < len(q.Block().Preds) {
					sources = append(sources, q.Block().Preds[i])
				}
			case *ssa.Phi:
				collect(x)
			}
		}
	}
	collect(ph)
	if len(sources) == 0 {
		return "", 0
	}
	for _, tb := range fn.Blocks {
		iff, ok := tb.Instrs[len(tb.Instrs)-1].(*ssa.If)
		if !ok || !isLayoutTest(iff.Cond) {
			continue
		}
		for si, succ := range tb.Succs {
			if len(succ.Preds) != 1 {
				continue
			}
			all := true
			for _, sb := range sources {
				if !(succ == sb || succ.Dominates(sb)) {
					all = false
				}
			}
			if all {
				return fmt.Sprintf("every assignment of true to the flag lies under the %s edge of the layout test at %s", map[int]string{0: "true", 1: "false"}[si], posOf(p, iff)), len(sources)
			}
		}
	}
	return "", len(sources)
}
