package main

import (
	"fmt"
	"go/ast"
	"go/token"
	"go/types"
	"sort"
	"strings"

	"golang.org/x/tools/go/ssa"
)

func runC04(p *Program, r *Report) {
	r.Rule("R04a", "REJECT-ATOMIC: no write to the verifier state (roots, leaf count) can be followed by a failing return of the verifier-state update")
	r.Rule("R04b", "DISCARD-GUARD: every discarded error in the verification closure is justified by a guard that makes the callee's error condition impossible at that call")
	r.Rule("R04c", "LOOP-INVENTORY: every loop in the verification closure matches a terminating idiom or a reviewed entry; the reviewed merge loop consumes an element on every path to its latch")
	r.Rule("R04d", "LENGUARD: the verification core only sees caller-supplied hashes behind a length-equality test with the targets")
	r.Rule("R04e", "INDEX-GUARD: a caller-supplied slice is indexed by a counter only behind an upper-bound test against a length")
	a := resolveVerifyAnchors(p)
	for _, m := range a.missing {
		r.MissingAnchor("R04a", m, "exported verification entry point not found")
	}
	if a.core == nil {
		r.MissingAnchor("R04b", "core", "cannot identify the verification core")
	}
	if a.stumpUpdate != nil {
		runRejectAtomic(p, r, a.stumpUpdate)
	}
	runDiscardGuard(p, r, a)
	runLoopInventory(p, r, a)
	if a.core != nil {
		runLenGuard(p, r, a, "R04d")
	}
	runIndexGuard(p, r, a)
}

// ---------------------------------------------------------------------------
// R04a REJECT-ATOMIC.

type writeSite struct {
	in     ssa.Instruction
	what   string
	callee *ssa.Function
	always bool // for calls: writes on every path (no error result / not atomic)
}

type atomicAnalysis struct {
	p    *Program
	memo map[string][]writeSite
	busy map[string]bool
}

// derivedFromParam: v designates the state reachable from parameter idx of fn:
// the parameter itself, a copy loaded from it, or a local spill of it.
func derivedFromParam(fn *ssa.Function, v ssa.Value, idx int) bool {
	return derivedFromParamSeen(fn, v, idx, map[ssa.Value]bool{})
}

func derivedFromParamSeen(fn *ssa.Function, v ssa.Value, idx int, seen map[ssa.Value]bool) bool {
	if idx >= len(fn.Params) || v == nil || seen[v] {
		return false
	}
	seen[v] = true
	par := fn.Params[idx]
	switch x := v.(type) {
	case *ssa.Parameter:
		return x == par
	case *ssa.UnOp:
		if x.Op == token.MUL {
			return derivedFromParamSeen(fn, x.X, idx, seen)
		}
	case *ssa.Alloc:
		i, ok := spillOfParam(fn, x)
		return ok && i == idx
	case *ssa.FieldAddr:
		return derivedFromParamSeen(fn, x.X, idx, seen)
	case *ssa.Field:
		return derivedFromParamSeen(fn, x.X, idx, seen)
	case *ssa.IndexAddr:
		return derivedFromParamSeen(fn, x.X, idx, seen)
	case *ssa.Slice:
		return derivedFromParamSeen(fn, x.X, idx, seen)
	case *ssa.Phi:
		for _, e := range x.Edges {
			if derivedFromParamSeen(fn, e, idx, seen) {
				return true
			}
		}
	}
	return false
}

// stateWrites lists the instructions of fn that write memory reachable from
// parameter idx (field stores through a pointer parameter, element stores
// into a slice found there, calls that hand the state to a callee that
// writes it). Stores into fn's own local copy of a by-value struct are not
// writes of the caller's state, but element stores through its slices are.
func (aa *atomicAnalysis) stateWrites(fn *ssa.Function, idx int) []writeSite {
	key := fmt.Sprintf("%p/%d", fn, idx)
	if w, ok := aa.memo[key]; ok {
		return w
	}
	if aa.busy[key] {
		return nil
	}
	aa.busy[key] = true
	defer func() { aa.busy[key] = false }()
	var out []writeSite
	isPtrParam := false
	if idx < len(fn.Params) {
		_, isPtrParam = fn.Params[idx].Type().Underlying().(*types.Pointer)
	}
	for _, b := range fn.Blocks {
		for _, in := range b.Instrs {
			switch x := in.(type) {
			case *ssa.Store:
				switch addr := x.Addr.(type) {
				case *ssa.FieldAddr:
					if isPtrParam && derivedFromParam(fn, addr.X, idx) {
						if _, isAlloc := addr.X.(*ssa.Alloc); !isAlloc {
							out = append(out, writeSite{in: x, what: "store to field " + fieldName(addr.X.Type(), addr.Field)})
						}
					}
				case *ssa.IndexAddr:
					if derivedFromParam(fn, addr.X, idx) {
						if _, isSlice := addr.X.Type().Underlying().(*types.Slice); isSlice {
							out = append(out, writeSite{in: x, what: "store to an element of a slice of the state"})
						}
					}
				case *ssa.Parameter:
					if addr == fn.Params[idx] {
						out = append(out, writeSite{in: x, what: "store through the state pointer"})
					}
				}
			case *ssa.Call:
				cc := x.Common()
				if b := builtinName(cc); b == "copy" && len(cc.Args) == 2 && derivedFromParam(fn, cc.Args[0], idx) {
					out = append(out, writeSite{in: x, what: "copy into a slice of the state"})
					continue
				}
				callee := cc.StaticCallee()
				if callee == nil || !aa.p.owns(callee) || callee.Blocks == nil {
					continue
				}
				for j, arg := range cc.Args {
					if !derivedFromParam(fn, arg, idx) {
						continue
					}
					sub := aa.stateWrites(callee, j)
					if len(sub) == 0 {
						continue
					}
					ws := writeSite{in: x, callee: callee, what: "call of " + aa.p.FuncName(callee) + ", which writes the state"}
					ws.always = errorResultIndex(callee.Signature) < 0 || !aa.atomic(callee, j)
					out = append(out, ws)
				}
			}
		}
	}
	aa.memo[key] = out
	return out
}

// failingReturnAfter reports a failing return reachable from instruction in
// (exclusive), or from the start of block b when in is nil.
func failingReturnAfter(in ssa.Instruction, from *ssa.BasicBlock) *ssa.Return {
	fn := from.Parent()
	idx := errorResultIndex(fn.Signature)
	if idx < 0 {
		return nil
	}
	isFailing := func(b *ssa.BasicBlock) *ssa.Return {
		if ret, ok := b.Instrs[len(b.Instrs)-1].(*ssa.Return); ok && !isNilConst(retOperands(ret)[idx]) {
			return ret
		}
		return nil
	}
	var start []*ssa.BasicBlock
	if in != nil {
		if ret := isFailing(in.Block()); ret != nil {
			return ret
		}
		start = in.Block().Succs
	} else {
		start = []*ssa.BasicBlock{from}
	}
	for b := range reachableBlocks(start) {
		if ret := isFailing(b); ret != nil {
			return ret
		}
	}
	return nil
}

// atomic: no write of fn's state parameter idx can be followed by a failing return of fn.
func (aa *atomicAnalysis) atomic(fn *ssa.Function, idx int) bool {
	for _, w := range aa.stateWrites(fn, idx) {
		if aa.violation(w) != nil {
			return false
		}
	}
	return true
}

func (aa *atomicAnalysis) violation(w writeSite) *ssa.Return {
	if w.callee == nil || w.always {
		return failingReturnAfter(w.in, w.in.Block())
	}
	// success-only writer: only the paths after the nil edge of its error test count
	call := w.in.(*ssa.Call)
	ev, _, bound := errValue(call)
	if !bound {
		return failingReturnAfter(w.in, w.in.Block())
	}
	tests := nilTestsOf(aliasesOf(ev))
	if len(tests) == 0 {
		return failingReturnAfter(w.in, w.in.Block())
	}
	for _, t := range tests {
		if ret := failingReturnAfter(nil, t.Nil); ret != nil {
			return ret
		}
	}
	return nil
}

func runRejectAtomic(p *Program, r *Report, update *ssa.Function) {
	aa := &atomicAnalysis{p: p, memo: map[string][]writeSite{}, busy: map[string]bool{}}
	seen := map[*ssa.Function]bool{}
	total := 0
	var visit func(fn *ssa.Function, idx int)
	visit = func(fn *ssa.Function, idx int) {
		if seen[fn] {
			return
		}
		seen[fn] = true
		name := p.FuncName(fn)
		ws := aa.stateWrites(fn, idx)
		sort.SliceStable(ws, func(i, j int) bool { return ws[i].in.Pos() < ws[j].in.Pos() })
		for i, w := range ws {
			total++
			key := fmt.Sprintf("%s/write#%d", name, i+1)
			if w.callee != nil {
				key = fmt.Sprintf("%s->%s", name, p.FuncName(w.callee))
			}
			if errorResultIndex(fn.Signature) < 0 {
				r.Discharge("R04a", key, posOf(p, w.in), w.what+"; the function has no failing return (its callers are checked)", true)
			} else if ret := aa.violation(w); ret != nil {
				r.Violate("R04a", key, posOf(p, w.in), fmt.Sprintf("%s and a failing return at %s is reachable afterwards: a rejected update leaves the verifier state modified", w.what, p.Pos(ret.Pos())), "in "+name)
			} else {
				d := w.what + "; no failing return is reachable afterwards"
				if w.callee != nil && !w.always {
					d = w.what + " only on its success path; no failing return is reachable from the success edge of its error test"
				}
				r.Discharge("R04a", key, posOf(p, w.in), d, true)
			}
			if w.callee != nil {
				for j, arg := range w.in.(*ssa.Call).Common().Args {
					if derivedFromParam(fn, arg, idx) && len(aa.stateWrites(w.callee, j)) > 0 {
						visit(w.callee, j)
					}
				}
			}
		}
	}
	visit(update, 0)
	r.Floor("R04a", "state write sites on the update path", total, 5)
}

// ---------------------------------------------------------------------------
// R04b DISCARD-GUARD.

// paramRel is a comparison between two parameters of a function under which
// the function returns a non-nil error.
type paramRel struct {
	Op   token.Token
	X, Y int
}

// errorConds extracts, for function g, conditions over its parameters that are
// necessary for g to return a non-nil error: every failing return of g is
// guarded by (at least) one of the returned relations. One level of error
// propagation from callees is followed. Returns ok=false when some failing
// return has no such guard.
func errorConds(p *Program, g *ssa.Function, depth int) ([]paramRel, bool) {
	if g == nil || g.Blocks == nil || depth > 3 {
		return nil, false
	}
	var out []paramRel
	for _, ret := range errorReturns(g) {
		found := false
		// (a) guarded directly by a comparison of two parameters
		for _, gd := range guardsAt(ret.Block()) {
			rel, ok := relOf(gd)
			if !ok {
				continue
			}
			xi, okx := paramOf(g, stripConvert(rel.X))
			yi, oky := paramOf(g, stripConvert(rel.Y))
			if okx && oky {
				out = append(out, paramRel{rel.Op, xi, yi})
				found = true
			}
		}
		// (b) the returned error is the error of a callee: map its conditions
		if !found {
			idx := errorResultIndex(g.Signature)
			ev := retOperands(ret)[idx]
			if ex, ok := ev.(*ssa.Extract); ok {
				if c, ok := ex.Tuple.(*ssa.Call); ok {
					if sub, ok := errorConds(p, c.Common().StaticCallee(), depth+1); ok {
						mappedAll := true
						var mapped []paramRel
						for _, sr := range sub {
							xi, okx := paramOf(g, stripConvert(c.Common().Args[sr.X]))
							yi, oky := paramOf(g, stripConvert(c.Common().Args[sr.Y]))
							if okx && oky {
								mapped = append(mapped, paramRel{sr.Op, xi, yi})
							} else {
								mappedAll = false
							}
						}
						if mappedAll && len(mapped) > 0 {
							out = append(out, mapped...)
							found = true
						}
					}
				}
			}
		}
		if !found {
			return nil, false
		}
	}
	return out, len(out) > 0
}

// impossibleAt: at the call, for every error condition rel(argX, argY) of the
// callee some guard establishes its negation.
func impossibleAt(call *ssa.Call, conds []paramRel) (bool, string) {
	gs := guardsAtInstr(call)
	args := call.Common().Args
	var why []string
	for _, c := range conds {
		neg := negateOp(c.Op)
		ax, ay := stripConvert(args[c.X]), stripConvert(args[c.Y])
		isX := func(v ssa.Value) bool { return stripConvert(v) == ax }
		isY := func(v ssa.Value) bool { return stripConvert(v) == ay }
		ops := []token.Token{neg}
		switch neg { // a stronger relation also does
		case token.LEQ:
			ops = append(ops, token.LSS, token.EQL)
		case token.GEQ:
			ops = append(ops, token.GTR, token.EQL)
		case token.NEQ:
			ops = append(ops, token.LSS, token.GTR)
		}
		g, ok := holdsRel(gs, ops, isX, isY)
		if !ok {
			return false, ""
		}
		why = append(why, fmt.Sprintf("arg%d %s arg%d holds on the dominating branch edge of the test at line %d", c.X, neg, c.Y, call.Parent().Prog.Fset.Position(g.If.Cond.Pos()).Line))
	}
	return len(conds) > 0, strings.Join(why, "; ")
}

// impossibleAtCallers: every argument of the condition is a parameter of fn passed through
// unchanged, and at every static call site of fn in the scope the condition is excluded.
func impossibleAtCallers(p *Program, fn *ssa.Function, call *ssa.Call, conds []paramRel, scope map[*ssa.Function]bool) (bool, string) {
	args := call.Common().Args
	var mapped []paramRel
	for _, c := range conds {
		xi, okx := paramOf(fn, stripConvert(args[c.X]))
		yi, oky := paramOf(fn, stripConvert(args[c.Y]))
		if !okx || !oky {
			return false, ""
		}
		mapped = append(mapped, paramRel{c.Op, xi, yi})
	}
	sites := 0
	var whys []string
	for _, g := range sortedFuncs(p, scope) {
		for _, sc := range callsIn(p, g) {
			if sc.call.Common().StaticCallee() != fn {
				continue
			}
			sites++
			ok, why := impossibleAt(sc.call, mapped)
			if !ok {
				return false, ""
			}
			whys = append(whys, "at the call in "+p.FuncName(g)+": "+why)
		}
	}
	if sites == 0 {
		return false, ""
	}
	return true, "the arguments are this function's parameters, and " + strings.Join(whys, "; ")
}

func runDiscardGuard(p *Program, r *Report, a *verifyAnchors) {
	runDiscardGuardIn(p, r, a, "R04b", a.vc, "the verification closure", 4)
}

// runDiscardGuardIn applies the discarded-error rule to a closure of functions.
func runDiscardGuardIn(p *Program, r *Report, a *verifyAnchors, rule string, scope map[*ssa.Function]bool, what string, floor int) {
	n := 0
	for _, fn := range sortedFuncs(p, scope) {
		for _, sc := range callsIn(p, fn) {
			cc := sc.call.Common()
			if errorResultIndex(cc.Signature()) < 0 {
				continue
			}
			if _, _, bound := errValue(sc.call); bound {
				continue
			}
			if f := calleeFunc(cc); f != nil && f.Pkg() != nil && f.Pkg() != p.Types {
				continue // stdlib writers such as hash.Hash.Write never fail by contract
			}
			n++
			key := fmt.Sprintf("%s->%s#%d", p.FuncName(fn), sc.label, sc.ord)
			callee := cc.StaticCallee()
			// 1. generic: the callee's error condition over its parameters is excluded by a guard
			if conds, ok := errorConds(p, callee, 0); ok {
				if imp, why := impossibleAt(sc.call, conds); imp {
					r.Discharge(rule, key, posOf(p, sc.call), "discarded error cannot be non-nil here: "+why, true)
					continue
				}
			}
			// 1b. the same, one level up: the arguments are parameters of this function handed through unchanged,
			// and at every call site of this function (inside the scope) a guard excludes the condition
			// (a row-advance loop extracted into a helper "because the caller already checks")
			if conds, ok := errorConds(p, callee, 0); ok {
				if imp, why := impossibleAtCallers(p, fn, sc.call, conds, scope); imp {
					r.Discharge(rule, key, posOf(p, sc.call), "discarded error cannot be non-nil here: "+why, true)
					continue
				}
			}
			// 2. lemma: behind a successful verification of the same values
			if callee != nil && a.spine[callee] {
				if j, why := discardJustified(p, sc.call, a); j {
					r.Discharge(rule, key, posOf(p, sc.call), "discarded error cannot be non-nil here: "+why, true)
					continue
				}
			}
			// 3. lemma: calcNextPosition(x, d, rows) cannot fail under isAncestor(Parent(d, rows), x, rows)
			if callee != nil && ancestorLemma(p, sc.call) {
				r.Discharge(rule, key, posOf(p, sc.call),
					"discarded error cannot be non-nil here: the call is control-dependent on isAncestor(Parent(d), x), which implies row(d) >= row(x) (reviewed lemma)", true)
				continue
			}
			// 4. reviewed beliefs, one per (caller, callee): valid as long as the callee has the
			// number of failing returns that was reviewed.
			if callee != nil {
				if rb, ok := reviewedDiscards[p.FuncName(fn)+"->"+p.FuncName(callee)]; ok {
					if n := len(errorReturns(callee)); n == rb.errReturns {
						r.Discharge(rule, key, posOf(p, sc.call), "discarded error cannot be non-nil here (reviewed): "+rb.why, true)
						continue
					} else {
						r.Violate(rule, key, posOf(p, sc.call), fmt.Sprintf("the error of %s is discarded on the reviewed belief that it cannot fail here, but the callee now has %d failing returns instead of the %d reviewed: the new failure would be silently ignored and a zero result used", p.FuncName(callee), n, rb.errReturns), "in "+p.FuncName(fn))
						continue
					}
				}
			}
			r.Violate(rule, key, posOf(p, sc.call),
				"an error is discarded inside "+what+" and no dominating guard excludes the callee's error condition (a failure would be silently ignored, e.g. a loop bound that is never reached)", "in "+p.FuncName(fn))
		}
	}
	r.Floor(rule, "discarded errors in "+what, n, floor)
}

// reviewedDiscards: discarded errors that no guard excludes but that were
// reviewed, keyed by caller->callee, with the number of failing returns the
// callee had when reviewed.
type reviewedDiscard struct {
	errReturns int
	why        string
}

var reviewedDiscards = map[string]reviewedDiscard{
	"getNewPositions->DetectOffset": {1, "both arguments are positions of the forest with numLeaves leaves - the block's targets and the positions of the cached proof, which verifies against that state (precondition of Update); a position moved by calcNextPosition stays inside its tree"},
}

// ancestorLemma: call f(x, d, rows) whose error condition is row(d) < row(x)
// (two DetectRow results compared) is guarded by a true isAncestor(Parent(d, rows), x, rows).
func ancestorLemma(p *Program, call *ssa.Call) bool {
	callee := call.Common().StaticCallee()
	if callee == nil || len(call.Common().Args) != 3 {
		return false
	}
	// callee shape: its failing return is guarded by a comparison of two results of
	// the same row-detecting function applied to param1 and param0.
	// EVERY failing return has to have that shape: a further error path (say a bound on
	// the target row) is not excluded by the ancestor test.
	ers := errorReturns(callee)
	if len(ers) == 0 {
		return false
	}
	for _, ret := range ers {
		shape := false
		// the innermost guard decides this return: it has to be the row comparison
		gs := guardsAt(ret.Block())
		if len(gs) > 0 {
			gd := innermostGuard(gs)
			if bo, ok := gd.Cond.(*ssa.BinOp); ok && gd.Truth {
				cx, okx := bo.X.(*ssa.Call)
				cy, oky := bo.Y.(*ssa.Call)
				if okx && oky && cx.Common().StaticCallee() != nil && cx.Common().StaticCallee() == cy.Common().StaticCallee() {
					shape = true
				}
			}
		}
		if !shape {
			return false
		}
	}
	x, d, rows := call.Common().Args[0], call.Common().Args[1], call.Common().Args[2]
	same := func(a, b ssa.Value) bool { return a == b || sameValue(a, b) }
	for _, gd := range guardsAtInstr(call) {
		cond, truth := gd.Cond, gd.Truth
		for {
			u, ok := cond.(*ssa.UnOp)
			if !ok || u.Op != token.NOT {
				break
			}
			cond, truth = u.X, !truth
		}
		c, ok := cond.(*ssa.Call)
		if !ok || !truth {
			continue
		}
		sc := c.Common().StaticCallee()
		if sc == nil || sc.Name() != "isAncestor" || len(c.Common().Args) != 3 {
			continue
		}
		par, ok := c.Common().Args[0].(*ssa.Call)
		if !ok || par.Common().StaticCallee() == nil || par.Common().StaticCallee().Name() != "Parent" {
			continue
		}
		if same(par.Common().Args[0], d) && same(c.Common().Args[1], x) && same(c.Common().Args[2], rows) {
			return true
		}
	}
	return false
}

// ---------------------------------------------------------------------------
// R04c LOOP INVENTORY (typed AST + SSA for the consume check).

// reviewedLoops: functions that contain ONE loop no idiom matches, reviewed by
// hand, with the termination argument. Keyed by function, not by the text of
// the condition: rewriting the loop (`for c {}` as `for { if !c { break } }`,
// naming the condition) must not raise an alarm; a SECOND non-idiomatic loop in
// the same function does.
var reviewedLoops = map[string]string{
	"calculateHashes": "the loop over the rows: every iteration consumes one element of toProve/nextProves (checked: CONSUME) and appends at most one parent one row higher",
	"inForest":        "the walk to the rightmost leaf: pos < mask has a zero bit below the marker; each iteration shifts it one place towards the marker",
}

type loopCls struct {
	kind, detail string
}

func identsAssignedIn(info *types.Info, body ast.Node) map[types.Object]int {
	out := map[types.Object]int{}
	ast.Inspect(body, func(n ast.Node) bool {
		switch x := n.(type) {
		case *ast.FuncLit:
			return false
		case *ast.AssignStmt:
			for _, l := range x.Lhs {
				if id, ok := l.(*ast.Ident); ok {
					if o := info.Uses[id]; o != nil {
						out[o]++
					} else if o := info.Defs[id]; o != nil && x.Tok != token.DEFINE {
						out[o]++
					}
				}
			}
		case *ast.IncDecStmt:
			if id, ok := x.X.(*ast.Ident); ok {
				if o := info.Uses[id]; o != nil {
					out[o]++
				}
			}
		case *ast.RangeStmt:
			for _, e := range []ast.Expr{x.Key, x.Value} {
				if id, ok := e.(*ast.Ident); ok && x.Tok == token.ASSIGN {
					if o := info.Uses[id]; o != nil {
						out[o]++
					}
				}
			}
		}
		return true
	})
	return out
}

func objOf(info *types.Info, e ast.Expr) types.Object {
	for {
		if pe, ok := e.(*ast.ParenExpr); ok {
			e = pe.X
			continue
		}
		break
	}
	if id, ok := e.(*ast.Ident); ok {
		if o := info.Uses[id]; o != nil {
			return o
		}
		return info.Defs[id]
	}
	return nil
}

func identsIn(info *types.Info, e ast.Node) []types.Object {
	var out []types.Object
	ast.Inspect(e, func(n ast.Node) bool {
		if id, ok := n.(*ast.Ident); ok {
			if o, ok := info.Uses[id].(*types.Var); ok {
				out = append(out, o)
			}
		}
		return true
	})
	return out
}

// stepOf returns the direction (+1/-1) of a statement that moves variable o monotonically, or 0.
func stepOf(info *types.Info, s ast.Stmt, o types.Object) int {
	switch x := s.(type) {
	case *ast.IncDecStmt:
		if objOf(info, x.X) == o {
			if x.Tok == token.INC {
				return 1
			}
			return -1
		}
	case *ast.AssignStmt:
		if len(x.Lhs) == 1 && objOf(info, x.Lhs[0]) == o {
			switch x.Tok {
			case token.ADD_ASSIGN:
				return 1
			case token.SUB_ASSIGN:
				return -1
			}
		}
	}
	return 0
}

// bodyMoves classifies all in-body modifications of o: returns (sameDir, other).
func bodyMoves(info *types.Info, body *ast.BlockStmt, o types.Object, dir int) (same, other int) {
	ast.Inspect(body, func(n ast.Node) bool {
		if _, ok := n.(*ast.FuncLit); ok {
			return false
		}
		s, ok := n.(ast.Stmt)
		if !ok {
			return true
		}
		if d := stepOf(info, s, o); d != 0 {
			if d == dir {
				same++
			} else {
				other++
			}
			return true
		}
		if as, ok := s.(*ast.AssignStmt); ok {
			for _, l := range as.Lhs {
				if objOf(info, l) == o && as.Tok != token.DEFINE {
					other++
				}
			}
		}
		return true
	})
	return
}

func boundInvariant(info *types.Info, bound ast.Expr, body *ast.BlockStmt) bool {
	assigned := identsAssignedIn(info, body)
	ok := true
	ast.Inspect(bound, func(n ast.Node) bool {
		switch x := n.(type) {
		case *ast.CallExpr:
			// len(s) / s.Len(): s may be re-sliced in the body but not grown
			if isLenCall(x) {
				if !onlyResliced(info, x, body) {
					ok = false
				}
				return false
			}
		case *ast.Ident:
			if o, isVar := info.Uses[x].(*types.Var); isVar && assigned[o] > 0 {
				ok = false
			}
		}
		return true
	})
	return ok
}

func isLenCall(c *ast.CallExpr) bool {
	if id, ok := c.Fun.(*ast.Ident); ok && id.Name == "len" {
		return true
	}
	if sel, ok := c.Fun.(*ast.SelectorExpr); ok && sel.Sel.Name == "Len" && len(c.Args) == 0 {
		return true
	}
	return false
}

// onlyResliced: every assignment in body to the variable measured by the
// len/Len call (or to its fields) has a slice expression or a call of a
// non-growing helper on the right-hand side — never append.
func onlyResliced(info *types.Info, lenCall *ast.CallExpr, body *ast.BlockStmt) bool {
	var subject ast.Expr
	if id, ok := lenCall.Fun.(*ast.Ident); ok && id.Name == "len" {
		subject = lenCall.Args[0]
	} else {
		subject = lenCall.Fun.(*ast.SelectorExpr).X
	}
	root := rootIdent(info, subject)
	if root == nil {
		return false
	}
	ok := true
	ast.Inspect(body, func(n ast.Node) bool {
		as, isAs := n.(*ast.AssignStmt)
		if !isAs {
			return true
		}
		for i, l := range as.Lhs {
			if rootIdent(info, l) != root || as.Tok == token.DEFINE {
				continue
			}
			if _, isElem := unparen(l).(*ast.IndexExpr); isElem {
				continue // element store: the length does not change
			}
			if i >= len(as.Rhs) {
				ok = false
				continue
			}
			switch rhs := as.Rhs[i].(type) {
			case *ast.SliceExpr:
			case *ast.CallExpr:
				if id, isId := rhs.Fun.(*ast.Ident); isId && id.Name == "append" {
					// append(s[:i], s[i+k:]...) removes; anything else may grow
					if len(rhs.Args) == 2 && rhs.Ellipsis.IsValid() {
						if _, a0 := rhs.Args[0].(*ast.SliceExpr); a0 {
							if _, a1 := rhs.Args[1].(*ast.SliceExpr); a1 {
								continue
							}
						}
					}
					ok = false
				} else {
					ok = false
				}
			default:
				ok = false
			}
		}
		return true
	})
	return ok
}

func rootIdent(info *types.Info, e ast.Expr) types.Object {
	for {
		switch x := e.(type) {
		case *ast.ParenExpr:
			e = x.X
		case *ast.SelectorExpr:
			e = x.X
		case *ast.IndexExpr:
			e = x.X
		case *ast.SliceExpr:
			e = x.X
		case *ast.StarExpr:
			e = x.X
		case *ast.Ident:
			if o := info.Uses[x]; o != nil {
				return o
			}
			return info.Defs[x]
		default:
			return nil
		}
	}
}

func conjuncts(e ast.Expr) []ast.Expr {
	if pe, ok := e.(*ast.ParenExpr); ok {
		return conjuncts(pe.X)
	}
	if be, ok := e.(*ast.BinaryExpr); ok && be.Op == token.LAND {
		return append(conjuncts(be.X), conjuncts(be.Y)...)
	}
	return []ast.Expr{e}
}

func classifyFor(p *Program, fname string, fs *ast.ForStmt) loopCls {
	info := p.Info
	if fs.Cond == nil {
		// `for { if C { return / break }; rest }` is `for !C { rest }` (the exit test comes first)
		if nfs := exitFirstAsCondition(fs); nfs != nil {
			if cls := classifyFor(p, fname, nfs); cls.kind != "" {
				return cls
			}
		}
		if why, ok := reviewedLoops[fname]; ok {
			return loopCls{"reviewed", why}
		}
		return loopCls{"", "loop without a condition"}
	}
	condStr := types.ExprString(fs.Cond)
	// 1. counter compared with a loop-invariant bound, moved monotonically towards it
	for _, c := range conjuncts(fs.Cond) {
		be, ok := c.(*ast.BinaryExpr)
		if !ok {
			continue
		}
		for _, side := range []struct {
			v, bound ast.Expr
			op       token.Token
		}{{be.X, be.Y, be.Op}, {be.Y, be.X, flipOp(be.Op)}} {
			o := objOf(info, side.v)
			if o == nil {
				continue
			}
			dir := 0
			switch side.op {
			case token.LSS, token.LEQ:
				dir = 1
			case token.GTR, token.GEQ:
				dir = -1
			default:
				continue
			}
			progress := 0
			if fs.Post != nil && stepOf(info, fs.Post, o) == dir {
				progress++
			}
			same, other := bodyMoves(info, fs.Body, o, dir)
			if fs.Post == nil || stepOf(info, fs.Post, o) == 0 {
				// no post statement: the body must move the counter unconditionally at top level
				for _, s := range fs.Body.List {
					if stepOf(info, s, o) == dir {
						progress++
					}
				}
				same = 0
			}
			_ = same
			if progress == 0 || other > 0 {
				continue
			}
			if !boundInvariant(info, side.bound, fs.Body) {
				continue
			}
			return loopCls{"counter", fmt.Sprintf("counter %s moves monotonically towards the loop-invariant bound %s", o.Name(), types.ExprString(side.bound))}
		}
	}
	// 2. bit test of a shifted word with an increasing shift: (A >> h) & 1 == 1 ; h++
	if be, ok := fs.Cond.(*ast.BinaryExpr); ok && (be.Op == token.EQL || be.Op == token.NEQ) {
		if and, ok := unparen(be.X).(*ast.BinaryExpr); ok && and.Op == token.AND {
			if sh, ok := unparen(and.X).(*ast.BinaryExpr); ok && sh.Op == token.SHR {
				h := objOf(info, sh.Y)
				if h != nil && fs.Post != nil && stepOf(info, fs.Post, h) == 1 {
					_, other := bodyMoves(info, fs.Body, h, 1)
					if other == 0 && boundInvariant(info, sh.X, fs.Body) {
						return loopCls{"bit-test", fmt.Sprintf("tests bit %s of the loop-invariant word %s with an increasing %s (the shifted word becomes 0)", h.Name(), types.ExprString(sh.X), h.Name())}
					}
				}
			}
			// 3. shift-to-zero: X & m != 0 with m >>= k in the body
			m := objOf(info, and.Y)
			if m != nil && be.Op == token.NEQ {
				for _, s := range fs.Body.List {
					if as, ok := s.(*ast.AssignStmt); ok && as.Tok == token.SHR_ASSIGN && len(as.Lhs) == 1 && objOf(info, as.Lhs[0]) == m {
						if boundInvariant(info, and.X, fs.Body) {
							return loopCls{"shift-to-zero", fmt.Sprintf("mask %s is shifted right on every iteration until it is 0", m.Name())}
						}
					}
				}
			}
		}
	}
	// 4. guarded counter: body increments c at top level and exits when c passes a loop-invariant bound
	for i, s := range fs.Body.List {
		inc, ok := s.(*ast.IncDecStmt)
		if !ok || inc.Tok != token.INC {
			continue
		}
		c := objOf(info, inc.X)
		if c == nil {
			continue
		}
		for _, s2 := range fs.Body.List[i+1:] {
			ifs, ok := s2.(*ast.IfStmt)
			if !ok || ifs.Init != nil {
				continue
			}
			be, ok := ifs.Cond.(*ast.BinaryExpr)
			if !ok || (be.Op != token.GTR && be.Op != token.GEQ) || objOf(info, be.X) != c {
				continue
			}
			if len(ifs.Body.List) == 0 {
				continue
			}
			last := ifs.Body.List[len(ifs.Body.List)-1]
			exits := false
			switch l := last.(type) {
			case *ast.ReturnStmt:
				exits = true
			case *ast.BranchStmt:
				exits = l.Tok == token.BREAK
			}
			_, other := bodyMoves(info, fs.Body, c, 1)
			if exits && other == 0 && boundInvariant(info, be.Y, fs.Body) {
				return loopCls{"guarded-counter", fmt.Sprintf("%s is incremented on every iteration and the body exits once it exceeds the loop-invariant bound %s", c.Name(), types.ExprString(be.Y))}
			}
		}
	}
	// 5. reviewed table
	if why, ok := reviewedLoops[fname]; ok {
		return loopCls{"reviewed", why}
	}
	return loopCls{"", "condition " + condStr + " matches no terminating idiom"}
}

func unparen(e ast.Expr) ast.Expr {
	for {
		pe, ok := e.(*ast.ParenExpr)
		if !ok {
			return e
		}
		e = pe.X
	}
}

func runLoopInventory(p *Program, r *Report, a *verifyAnchors) {
	nLoops := 0
	kinds := map[string]int{}
	reviewedIn := map[string]int{}
	for _, fn := range sortedFuncs(p, a.vc) {
		syn := p.funcSyntax(fn)
		if syn == nil {
			continue
		}
		var body *ast.BlockStmt
		switch x := syn.(type) {
		case *ast.FuncDecl:
			body = x.Body
		case *ast.FuncLit:
			body = x.Body
		}
		if body == nil {
			continue
		}
		name := p.FuncName(fn)
		base := name
		if i := strings.IndexByte(base, '['); i >= 0 { // instantiation of a generic function
			base = base[:i]
		}
		ord := 0
		ast.Inspect(body, func(n ast.Node) bool {
			switch x := n.(type) {
			case *ast.FuncLit:
				return false
			case *ast.RangeStmt:
				ord++
				nLoops++
				kinds["range"]++
				r.Discharge("R04c", fmt.Sprintf("%s/loop#%d", name, ord), p.Pos(x.Pos()), "range loop: iterates once over a value fixed at loop entry", false)
			case *ast.ForStmt:
				ord++
				nLoops++
				key := fmt.Sprintf("%s/loop#%d", name, ord)
				cls := classifyFor(p, base, x)
				if cls.kind == "" {
					r.Violate("R04c", key, p.Pos(x.Pos()), "unclassified loop in the verification closure: "+cls.detail+" (termination on arbitrary input is not evident)", "in "+name)
					return true
				}
				kinds[cls.kind]++
				if cls.kind == "reviewed" {
					reviewedIn[base]++
					if reviewedIn[base] > 1 {
						r.Violate("R04c", key, p.Pos(x.Pos()), "a second loop that matches no terminating idiom in "+base+", where one such loop was reviewed: termination on arbitrary input is not evident", "in "+name)
						return true
					}
				}
				r.Discharge("R04c", key, p.Pos(x.Pos()), cls.kind+": "+cls.detail, true)
				if cls.kind == "reviewed" && strings.HasPrefix(base, "calculateHashes") {
					checkConsume(p, r, fn, x, key+"/consume")
				}
			}
			return true
		})
		// recursion inside the closure is not a classified idiom
		if p.StaticReach(fn)[fn] && callsSelf(p, fn) {
			r.Violate("R04c", name+"/recursion", p.Pos(fn.Pos()), "recursive function in the verification closure", "in "+name)
		}
	}
	r.Stats["loops.total"] = nLoops
	for k, v := range kinds {
		r.Stats["loops."+k] = v
	}
	r.Floor("R04c", "loops in the verification closure", nLoops, 20)
	r.Floor("R04c", "reviewed loops still present", kinds["reviewed"], 2)
}

func callsSelf(p *Program, fn *ssa.Function) bool {
	for _, b := range fn.Blocks {
		for _, in := range b.Instrs {
			if c, ok := in.(ssa.CallInstruction); ok {
				if sc := c.Common().StaticCallee(); sc != nil && p.StaticReach(sc)[fn] {
					return true
				}
			}
		}
	}
	return false
}

// checkConsume: in the SSA loop of the reviewed merge loop, every path from
// the header back to the header passes an increment of an int counter that is
// carried around the loop (the consumption indexes).
func checkConsume(p *Program, r *Report, fn *ssa.Function, fs *ast.ForStmt, key string) {
	var header *ssa.BasicBlock
	for _, b := range fn.Blocks {
		for _, in := range b.Instrs {
			if bo, ok := in.(*ssa.BinOp); ok && bo.Pos() >= fs.Cond.Pos() && bo.Pos() < fs.Cond.End() {
				if _, isIf := b.Instrs[len(b.Instrs)-1].(*ssa.If); isIf {
					header = b
				}
			}
		}
	}
	if header == nil {
		r.Undecided("R04c", key, p.Pos(fs.Pos()), "cannot locate the loop header in SSA")
		return
	}
	// counter phis of the header: int-typed, every back-edge value derives from the phi by additions
	counters := map[ssa.Value]bool{}
	for _, in := range header.Instrs {
		phi, ok := in.(*ssa.Phi)
		if !ok {
			break
		}
		if b, ok := phi.Type().Underlying().(*types.Basic); !ok || b.Kind() != types.Int {
			continue
		}
		counters[phi] = true
	}
	// increments: BinOp ADD with a positive constant whose X derives from a counter phi
	incBlocks := map[*ssa.BasicBlock]bool{}
	var derives func(v ssa.Value, d int) bool
	derives = func(v ssa.Value, d int) bool {
		if d > 6 {
			return false
		}
		if counters[v] {
			return true
		}
		switch x := v.(type) {
		case *ssa.BinOp:
			if x.Op == token.ADD {
				return derives(x.X, d+1)
			}
		case *ssa.Phi:
			for _, e := range x.Edges {
				if derives(e, d+1) {
					return true
				}
			}
		}
		return false
	}
	for _, b := range fn.Blocks {
		if !header.Dominates(b) {
			continue
		}
		for _, in := range b.Instrs {
			if bo, ok := in.(*ssa.BinOp); ok && bo.Op == token.ADD {
				if c, ok := bo.Y.(*ssa.Const); ok && c.Int64() > 0 && derives(bo.X, 0) && feedsHeaderPhi(bo, header) {
					incBlocks[b] = true
				}
			}
		}
	}
	// walk from the header without passing increment blocks; reaching a latch is a violation
	seen := map[*ssa.BasicBlock]bool{}
	work := append([]*ssa.BasicBlock{}, header.Succs...)
	for len(work) > 0 {
		b := work[len(work)-1]
		work = work[:len(work)-1]
		if seen[b] || !header.Dominates(b) || b == header {
			continue
		}
		seen[b] = true
		if incBlocks[b] {
			continue
		}
		for _, s := range b.Succs {
			if s == header {
				r.Violate("R04c", key, posOf(p, b.Instrs[len(b.Instrs)-1]),
					"a path through the body of the reviewed merge loop returns to the loop header without consuming an element (no consumption index is incremented): the loop can spin forever", "in "+p.FuncName(fn))
				return
			}
			work = append(work, s)
		}
	}
	r.Discharge("R04c", key, p.Pos(fs.Pos()), fmt.Sprintf("every path from the loop header back to it passes an increment of a loop-carried index (%d incrementing blocks)", len(incBlocks)), true)
}

func feedsHeaderPhi(v ssa.Value, header *ssa.BasicBlock) bool {
	seen := map[ssa.Value]bool{}
	var walk func(v ssa.Value, d int) bool
	walk = func(v ssa.Value, d int) bool {
		if seen[v] || d > 6 || v.Referrers() == nil {
			return false
		}
		seen[v] = true
		for _, ref := range *v.Referrers() {
			if phi, ok := ref.(*ssa.Phi); ok {
				if phi.Block() == header {
					return true
				}
				if walk(phi, d+1) {
					return true
				}
			}
		}
		return false
	}
	return walk(v, 0)
}

// ---------------------------------------------------------------------------
// R04e INDEX-GUARD.

func runIndexGuard(p *Program, r *Report, a *verifyAnchors) {
	n := 0
	supplied := suppliedParams(p, a)
	for _, fn := range sortedFuncs(p, a.vc) {
		name := p.FuncName(fn)
		ord := map[string]int{}
		for _, b := range fn.Blocks {
			for _, in := range b.Instrs {
				ia, ok := in.(*ssa.IndexAddr)
				if !ok {
					continue
				}
				if _, isSlice := ia.X.Type().Underlying().(*types.Slice); !isSlice {
					continue
				}
				src := callerSuppliedSlice(fn, ia.X, supplied[fn])
				if src == "" {
					continue
				}
				if _, isConst := ia.Index.(*ssa.Const); isConst {
					continue
				}
				// index computed from the slice's own length (len(s)-k) is in range by construction of the loop it sits in
				if derivesFrom(ia.Index, func(v ssa.Value) bool { s, ok := lenArg(v); return ok && sameValue(s, ia.X) }, 6) {
					continue
				}
				n++
				ord[src]++
				key := fmt.Sprintf("%s/%s[%d]", name, src, ord[src])
				gs := guardsAtInstr(ia)
				isIdx := func(v ssa.Value) bool { return v == ia.Index }
				isLenSame := func(v ssa.Value) bool { s, ok := lenArg(v); return ok && sameValue(s, ia.X) }
				isLenAny := func(v ssa.Value) bool { _, ok := lenArg(v); return ok }
				if _, ok := holdsRel(gs, []token.Token{token.LSS}, isIdx, isLenSame); ok {
					r.Discharge("R04e", key, posOf(p, ia), "index < len("+src+") holds on a dominating branch edge", true)
				} else if g, ok := holdsRel(gs, []token.Token{token.LSS}, isIdx, isLenAny); ok {
					// bounded by the length of another slice Y: accepted only if the two
					// lengths are related by a guard, or the function only runs on values
					// that a successful verification has accepted
					rel, _ := relOf(g)
					other := rel.Y
					if isLenAny(rel.X) && !isIdx(rel.X) {
						other = rel.X
					}
					isOther := func(v ssa.Value) bool {
						a1, ok1 := lenArg(v)
						a2, ok2 := lenArg(other)
						return ok1 && ok2 && sameValue(a1, a2)
					}
					if _, ok := holdsRel(gs, []token.Token{token.GEQ, token.EQL, token.GTR}, isLenSame, isOther); ok {
						r.Discharge("R04e", key, posOf(p, ia), "index is bounded by the length of a parallel slice and a dominating test relates the two lengths", true)
					} else if j, why := onlyBehindVerify(p, fn, a); j {
						r.Discharge("R04e", key, posOf(p, ia), "index is bounded by the length of a parallel slice; "+why, true)
					} else {
						r.Violate("R04e", key, posOf(p, ia), "caller-supplied slice "+src+" is indexed by a counter that is only bounded by the length of another slice, and nothing relates the two lengths: a short input panics instead of being rejected", "in "+name)
					}
				} else if boundedByLoopLen(ia.Index) {
					r.Discharge("R04e", key, posOf(p, ia), "index is a loop counter bounded by a length", true)
				} else {
					r.Violate("R04e", key, posOf(p, ia), "caller-supplied slice "+src+" is indexed by a value that no dominating test bounds by a length: a short input panics instead of being rejected", "in "+name)
				}
			}
		}
	}
	r.Stats["index.sites"] = n
	r.Floor("R04e", "counter-indexed reads of caller-supplied slices", n, 2)

	// In the two matching verifiers every computed index is examined, also on
	// slices derived from the core's results: these functions run on whatever the
	// core produced from untrusted input.
	m := 0
	for _, fn := range []*ssa.Function{a.verify, a.pollardVerify} {
		if fn == nil {
			continue
		}
		name := p.FuncName(fn)
		ord := map[string]int{}
		for _, b := range fn.Blocks {
			for _, in := range b.Instrs {
				ia, ok := in.(*ssa.IndexAddr)
				if !ok {
					continue
				}
				if _, isSlice := ia.X.Type().Underlying().(*types.Slice); !isSlice {
					continue
				}
				if _, isConst := ia.Index.(*ssa.Const); isConst {
					continue
				}
				if callerSuppliedSlice(fn, ia.X, supplied[fn]) != "" {
					continue // handled above
				}
				if al, ok := ia.X.(*ssa.Slice); ok {
					if _, isAlloc := al.X.(*ssa.Alloc); isAlloc {
						continue // varargs / literal backing array
					}
				}
				src := exprName(ia.X)
				m++
				ord[src]++
				key := fmt.Sprintf("%s/local:%s[%d]", name, src, ord[src])
				if derivesFrom(ia.Index, func(v ssa.Value) bool { s, ok := lenArg(v); return ok && sameValue(s, ia.X) }, 6) {
					r.Discharge("R04e", key, posOf(p, ia), "index is computed from the slice's own length", true)
					continue
				}
				gs := guardsAtInstr(ia)
				isIdx := func(v ssa.Value) bool {
					if v == ia.Index || sameValue(v, ia.Index) {
						return true
					}
					// the same length taken twice: len(x) ... len(x), x not reassigned in between (SSA value)
					a1, ok1 := lenArg(v)
					a2, ok2 := lenArg(ia.Index)
					return ok1 && ok2 && (a1 == a2 || sameValue(a1, a2))
				}
				isLenSame := func(v ssa.Value) bool { s, ok := lenArg(v); return ok && sameValue(s, ia.X) }
				isLenAny := func(v ssa.Value) bool { _, ok := lenArg(v); return ok }
				if _, ok := holdsRel(gs, []token.Token{token.LSS}, isIdx, isLenSame); ok {
					r.Discharge("R04e", key, posOf(p, ia), "index < len("+src+") holds on a dominating branch edge", true)
				} else if boundedByLoopLen(ia.Index) {
					r.Discharge("R04e", key, posOf(p, ia), "index is a loop counter bounded by a length", true)
				} else if g, ok := holdsRel(gs, []token.Token{token.LSS}, isIdx, isLenAny); ok {
					rel, _ := relOf(g)
					other := rel.Y
					if isLenAny(rel.X) && !isIdx(rel.X) {
						other = rel.X
					}
					isOther := func(v ssa.Value) bool {
						a1, ok1 := lenArg(v)
						a2, ok2 := lenArg(other)
						return ok1 && ok2 && sameValue(a1, a2)
					}
					if _, ok := holdsRel(gs, []token.Token{token.GEQ, token.EQL, token.GTR}, isLenSame, isOther); ok {
						r.Discharge("R04e", key, posOf(p, ia), "index is bounded by the length of a parallel slice and a dominating test relates the two lengths", true)
					} else {
						r.Violate("R04e", key, posOf(p, ia), src+" is indexed by a value only bounded by the length of another slice, and no dominating test relates the two lengths: on an adversarial proof the core can produce lists of different lengths and the verifier panics", "in "+name)
					}
				} else {
					r.Violate("R04e", key, posOf(p, ia), src+" is indexed by a value that no dominating test bounds by its length: the verifier can panic on an untrusted proof", "in "+name)
				}
			}
		}
	}
	r.Floor("R04e", "computed indexes in the matching verifiers", m, 4)

	// The mirror image of the first part: a slice the library computed, indexed
	// by a counter whose only bound is the length of a caller-supplied slice.
	// Verification tolerates surplus elements in the caller's lists (it bounds
	// them from below only), so even behind a successful verification nothing
	// bounds that length from above.
	k := 0
	for _, fn := range sortedFuncs(p, a.vc) {
		name := p.FuncName(fn)
		ord := map[string]int{}
		for _, b := range fn.Blocks {
			for _, in := range b.Instrs {
				ia, ok := in.(*ssa.IndexAddr)
				if !ok {
					continue
				}
				if _, isSlice := ia.X.Type().Underlying().(*types.Slice); !isSlice {
					continue
				}
				if _, isConst := ia.Index.(*ssa.Const); isConst {
					continue
				}
				if callerSuppliedSlice(fn, ia.X, supplied[fn]) != "" {
					continue
				}
				// the lengths that bound the index: loop tests and dominating guards idx < len(Y)
				var bounds []ssa.Value
				if ia.Index.Referrers() != nil {
					for _, ref := range *ia.Index.Referrers() {
						if bo, ok := ref.(*ssa.BinOp); ok && bo.Op == token.LSS && bo.X == ia.Index {
							if y, ok := lenArg(bo.Y); ok {
								bounds = append(bounds, y)
							}
						}
					}
				}
				gs := guardsAtInstr(ia)
				isIdx := func(v ssa.Value) bool { return v == ia.Index }
				isLenSame := func(v ssa.Value) bool { s, ok := lenArg(v); return ok && sameValue(s, ia.X) }
				if _, ok := holdsRel(gs, []token.Token{token.LSS}, isIdx, isLenSame); ok {
					continue
				}
				ownBound := false
				var foreign ssa.Value
				fsrc := ""
				for _, y := range bounds {
					if sameValue(y, ia.X) {
						ownBound = true
					} else if s := callerSuppliedSlice(fn, y, supplied[fn]); s != "" {
						foreign, fsrc = y, s
					}
				}
				if ownBound || foreign == nil {
					continue
				}
				k++
				src := exprName(ia.X)
				ord[src]++
				key := fmt.Sprintf("%s/computed:%s[%d]", name, src, ord[src])
				isOther := func(v ssa.Value) bool { a1, ok := lenArg(v); return ok && sameValue(a1, foreign) }
				if _, ok := holdsRel(gs, []token.Token{token.GEQ, token.EQL, token.GTR}, isLenSame, isOther); ok {
					r.Discharge("R04e", key, posOf(p, ia), "index is bounded by the length of the caller's "+fsrc+" and a dominating test relates the two lengths", true)
				} else {
					r.Violate("R04e", key, posOf(p, ia), "the computed slice "+src+" is indexed by a counter whose only bound is the length of the caller-supplied "+fsrc+": verification tolerates surplus elements there, so a longer input overruns "+src+" and panics", "in "+name)
				}
			}
		}
	}
	r.Stats["index.computed_by_caller_length"] = k

	// A slice the closure allocates with a fixed length (make([]T, n)) and fills through a counter
	// of its own: the counter has to be bounded by that length - by a guard, by the loop test, or by
	// being the counter of a loop over a slice of the same length. "At most one entry per root" is
	// an assumption about honest input; duplicated targets yield more.
	m2 := 0
	for _, fn := range sortedFuncs(p, a.vc) {
		name := p.FuncName(fn)
		ord := 0
		for _, b := range fn.Blocks {
			for _, in := range b.Instrs {
				ia, ok := in.(*ssa.IndexAddr)
				if !ok {
					continue
				}
				mk, ok := ia.X.(*ssa.MakeSlice)
				if !ok {
					continue
				}
				if _, isConst := ia.Index.(*ssa.Const); isConst {
					continue
				}
				// only element writes matter here (reads of a fresh slice are covered elsewhere)
				written := false
				if ia.Referrers() != nil {
					for _, ref := range *ia.Referrers() {
						if st, ok := ref.(*ssa.Store); ok && st.Addr == ia {
							written = true
						}
					}
				}
				if !written {
					continue
				}
				ord++
				m2++
				key := fmt.Sprintf("%s/made:%s[%d]", name, exprName(ia.X), ord)
				gs := guardsAtInstr(ia)
				isIdx := func(v ssa.Value) bool { return v == ia.Index }
				isBound := func(v ssa.Value) bool {
					if s, ok := lenArg(v); ok && (s == ssa.Value(mk) || sameValue(s, mk)) {
						return true
					}
					return v == mk.Len || sameValue(v, mk.Len)
				}
				okBound := false
				if _, ok := holdsRel(gs, []token.Token{token.LSS}, isIdx, isBound); ok {
					okBound = true
				}
				// counter of a loop whose test compares it with the make length or with len of a slice the make length was taken from
				if !okBound && ia.Index.Referrers() != nil {
					for _, ref := range *ia.Index.Referrers() {
						bo, ok := ref.(*ssa.BinOp)
						if !ok || bo.Op != token.LSS || bo.X != ia.Index {
							continue
						}
						if isBound(bo.Y) {
							okBound = true
						}
						if s, isLen := lenArg(bo.Y); isLen {
							if ml, isLen2 := lenArg(mk.Len); isLen2 && sameValue(s, ml) {
								okBound = true
							}
						}
					}
				}
				if okBound {
					r.Discharge("R04e", key, posOf(p, ia), "the index into the slice made with a fixed length is bounded by that length", true)
				} else {
					r.Violate("R04e", key, posOf(p, ia), "a slice made with a fixed length is filled through a counter that nothing bounds by that length: the length rests on an assumption about honest input (for instance one entry per root), and an adversarial proof with repeated targets writes past it", "in "+name)
				}
			}
		}
	}
	r.Stats["index.made_fixed_length_writes"] = m2
}

// suppliedParams computes the (function, parameter) pairs that carry values
// supplied by the caller of a verification entry point: the non-receiver
// slice/struct parameters of the entries, propagated through calls that pass
// them (or something read from them) on.
func suppliedParams(p *Program, a *verifyAnchors) map[*ssa.Function]map[int]bool {
	out := map[*ssa.Function]map[int]bool{}
	type item struct {
		fn  *ssa.Function
		idx int
	}
	var work []item
	add := func(fn *ssa.Function, idx int) {
		if fn == nil || fn.Blocks == nil || idx >= len(fn.Params) {
			return
		}
		switch fn.Params[idx].Type().Underlying().(type) {
		case *types.Slice, *types.Struct:
		default:
			return
		}
		if out[fn] == nil {
			out[fn] = map[int]bool{}
		}
		if !out[fn][idx] {
			out[fn][idx] = true
			work = append(work, item{fn, idx})
		}
	}
	for _, e := range a.entries {
		first := 0
		if e.Signature.Recv() != nil {
			first = 1
		}
		for i := first; i < len(e.Params); i++ {
			add(e, i)
		}
	}
	for len(work) > 0 {
		it := work[len(work)-1]
		work = work[:len(work)-1]
		for _, b := range it.fn.Blocks {
			for _, in := range b.Instrs {
				c, ok := in.(*ssa.Call)
				if !ok {
					continue
				}
				callee := c.Common().StaticCallee()
				if callee == nil || !p.owns(callee) || !a.vc[callee] {
					continue
				}
				for j, arg := range c.Common().Args {
					if derivedFromParam(it.fn, arg, it.idx) {
						add(callee, j)
					}
				}
			}
		}
	}
	return out
}

// callerSuppliedSlice names the supplied parameter (or parameter field) a
// slice value is read from, "" if none.
func callerSuppliedSlice(fn *ssa.Function, v ssa.Value, supplied map[int]bool) string {
	if fn.Parent() != nil || supplied == nil {
		return ""
	}
	if i, ok := paramOf(fn, v); ok && supplied[i] {
		return fn.Params[i].Name()
	}
	if base, f, ok := fieldRead(v); ok {
		if i, ok := paramOf(fn, base); ok && supplied[i] {
			return fn.Params[i].Name() + "." + f
		}
		if al, ok := base.(*ssa.Alloc); ok {
			if i, ok := spillOfParam(fn, al); ok && supplied[i] {
				return fn.Params[i].Name() + "." + f
			}
		}
	}
	return ""
}

// boundedByLoopLen: the index is a range-style counter phi(−1|0, i+1) whose
// loop test compares it with a length.
func boundedByLoopLen(idx ssa.Value) bool {
	if idx.Referrers() == nil {
		return false
	}
	for _, ref := range *idx.Referrers() {
		bo, ok := ref.(*ssa.BinOp)
		if !ok || bo.Op != token.LSS || bo.X != idx {
			continue
		}
		if _, ok := lenArg(bo.Y); ok {
			return true
		}
	}
	return false
}

// onlyBehindVerify: inside the verification closure fn is called only on
// values that a dominating successful call of the package verifier accepted.
func onlyBehindVerify(p *Program, fn *ssa.Function, a *verifyAnchors) (bool, string) {
	callers := 0
	for _, g := range sortedFuncs(p, a.vc) {
		for _, sc := range callsIn(p, g) {
			if sc.call.Common().StaticCallee() != fn {
				continue
			}
			callers++
			if j, _ := discardJustified(p, sc.call, a); !j {
				return false, ""
			}
		}
	}
	if callers == 0 {
		return false, ""
	}
	return true, fmt.Sprintf("%s runs inside the verification closure only behind a successful %s on the same values", p.FuncName(fn), p.FuncName(a.verify))
}

// innermostGuard: the guard whose branch is dominated by all the others.
func innermostGuard(gs []guard) guard {
	best := gs[0]
	for _, g := range gs[1:] {
		if best.If.Block().Dominates(g.If.Block()) {
			best = g
		}
	}
	return best
}

// exitFirstAsCondition rewrites a condition-less loop whose first statement is
// an exit test (`if C { ...; return }` or `if C { break }`, no init, no else)
// into the equivalent conditional loop `for !C { rest }`; nil if the loop has
// another shape. The negation is structural (comparison operators flipped) so
// that the idioms, which match comparison shapes, apply.
func exitFirstAsCondition(fs *ast.ForStmt) *ast.ForStmt {
	if fs.Cond != nil || fs.Init != nil || fs.Post != nil || fs.Body == nil || len(fs.Body.List) < 2 {
		return nil
	}
	ifs, ok := fs.Body.List[0].(*ast.IfStmt)
	if !ok || ifs.Init != nil || ifs.Else != nil || len(ifs.Body.List) == 0 {
		return nil
	}
	switch l := ifs.Body.List[len(ifs.Body.List)-1].(type) {
	case *ast.ReturnStmt:
	case *ast.BranchStmt:
		if l.Tok != token.BREAK || l.Label != nil {
			return nil
		}
	default:
		return nil
	}
	var neg ast.Expr
	switch c := unparen(ifs.Cond).(type) {
	case *ast.BinaryExpr:
		flip := map[token.Token]token.Token{token.EQL: token.NEQ, token.NEQ: token.EQL, token.LSS: token.GEQ, token.GEQ: token.LSS, token.GTR: token.LEQ, token.LEQ: token.GTR}
		op, ok := flip[c.Op]
		if !ok {
			return nil
		}
		neg = &ast.BinaryExpr{X: c.X, OpPos: c.OpPos, Op: op, Y: c.Y}
	case *ast.UnaryExpr:
		if c.Op != token.NOT {
			return nil
		}
		neg = c.X
	default:
		return nil
	}
	return &ast.ForStmt{For: fs.For, Cond: neg, Body: &ast.BlockStmt{Lbrace: fs.Body.Lbrace, List: fs.Body.List[1:], Rbrace: fs.Body.Rbrace}}
}
