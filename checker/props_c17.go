package main

func init() {
	register(&PropertyDef{
		ID:    "C17",
		Title: "Library calls never modify the caller's slices",
		Explanation: "Slice-ownership abstract interpretation (E3) of the 16 API entries the property names: every slice parameter, every slice field of a struct " +
			"parameter and of a *Proof receiver is a caller-owned backing array; values are followed through re-slicing, struct fields, local variables, pointer " +
			"receivers, interfaces, closures and calls (callees re-analysed per abstract-argument context, to a fixed point). R17a: no mutation sink — element " +
			"store, copy, append to a shortened slice, sort.Slice/Sort/Stable, slices.Sort*/Delete/Insert/Reverse/Compact, binary.Put*, io.ReadFull — is reachable " +
			"with a caller-owned array, and none is handed to an unsummarised callee. R17b: returned slices are fresh or the caller's own. R17c: no caller-owned " +
			"array is retained in the receiver. A may-analysis: 'no sink reachable' is a sound argument for non-mutation under the stated assumptions.",
		NotDecided: "that the contents written elsewhere are right; mutation through NodesInterface/CachedLeavesInterface implementations supplied by the user; the " +
			"stand-alone GetMissingPositions (excluded by the property).",
		Assumptions: []string{"memory is modelled flow-insensitively (weak updates) except for fields of local variables whose address never leaves the function (reaching definitions): elsewhere a write that only happens after a cell was re-pointed to a fresh array is still reported"},
		Rules:       []RuleDef{{ID: "R17", Statement: "slice ownership over the API entries", Run: runC17}},
	})
}
