package main

import (
	"fmt"
	"go/token"
	"go/types"

	"golang.org/x/tools/go/ssa"
)

// E2: path rules over the SSA control-flow graph (dominance + reachability).

// errValue returns the SSA value holding the error result of a call, the
// index of that result, and whether the result is bound at all (false when it
// is discarded with _ or the call is an expression statement).
func errValue(call *ssa.Call) (ssa.Value, int, bool) {
	sig := call.Common().Signature()
	idx := errorResultIndex(sig)
	if idx < 0 {
		return nil, -1, false
	}
	if sig.Results().Len() == 1 {
		if call.Referrers() == nil || len(nonDebugRefs(call)) == 0 {
			return nil, idx, false
		}
		return call, idx, true
	}
	for _, ref := range *call.Referrers() {
		if ex, ok := ref.(*ssa.Extract); ok && ex.Index == idx {
			if len(nonDebugRefs(ex)) == 0 {
				return nil, idx, false
			}
			return ex, idx, true
		}
	}
	return nil, idx, false
}

func nonDebugRefs(v ssa.Value) []ssa.Instruction {
	var out []ssa.Instruction
	if v.Referrers() == nil {
		return nil
	}
	for _, r := range *v.Referrers() {
		if _, ok := r.(*ssa.DebugRef); ok {
			continue
		}
		out = append(out, r)
	}
	return out
}

// resultValue returns the value of result idx of a call (Extract or the call
// itself for single-result calls); nil if unused.
func resultValue(call *ssa.Call, idx int) ssa.Value {
	sig := call.Common().Signature()
	if sig.Results().Len() == 1 {
		if idx == 0 {
			return call
		}
		return nil
	}
	for _, ref := range *call.Referrers() {
		if ex, ok := ref.(*ssa.Extract); ok && ex.Index == idx {
			return ex
		}
	}
	return nil
}

// aliasesOf computes the values that carry v onward unchanged: phis,
// interface changes, and loads of local variables v is stored into
// (flow-insensitive on those variables).
func aliasesOf(v ssa.Value) map[ssa.Value]bool {
	seen := map[ssa.Value]bool{}
	work := []ssa.Value{v}
	for len(work) > 0 {
		x := work[len(work)-1]
		work = work[:len(work)-1]
		if seen[x] {
			continue
		}
		seen[x] = true
		if x.Referrers() == nil {
			continue
		}
		for _, ref := range *x.Referrers() {
			switch r := ref.(type) {
			case *ssa.Phi:
				work = append(work, r)
			case *ssa.ChangeInterface:
				work = append(work, r)
			case *ssa.ChangeType:
				work = append(work, r)
			case *ssa.Store:
				if r.Val == x {
					if a, ok := r.Addr.(*ssa.Alloc); ok && !isSpillAlloc(a) {
						for _, ar := range *a.Referrers() {
							if u, ok := ar.(*ssa.UnOp); ok && u.Op == token.MUL {
								work = append(work, u)
							}
						}
					}
				}
			}
		}
	}
	return seen
}

// nilTest describes an If on (v != nil) / (v == nil).
type nilTest struct {
	If      *ssa.If
	NonNil  *ssa.BasicBlock
	Nil     *ssa.BasicBlock
	OnAlias ssa.Value
}

func nilTestsOf(aliases map[ssa.Value]bool) []nilTest {
	var out []nilTest
	for a := range aliases {
		if a.Referrers() == nil {
			continue
		}
		for _, ref := range *a.Referrers() {
			bo, ok := ref.(*ssa.BinOp)
			if !ok || (bo.Op != token.NEQ && bo.Op != token.EQL) {
				continue
			}
			other := bo.Y
			if bo.Y == a {
				other = bo.X
			}
			if !isNilConst(other) {
				continue
			}
			for _, br := range *bo.Referrers() {
				iff, ok := br.(*ssa.If)
				if !ok {
					continue
				}
				t := nilTest{If: iff, OnAlias: a}
				if bo.Op == token.NEQ {
					t.NonNil, t.Nil = iff.Block().Succs[0], iff.Block().Succs[1]
				} else {
					t.NonNil, t.Nil = iff.Block().Succs[1], iff.Block().Succs[0]
				}
				out = append(out, t)
			}
		}
	}
	return out
}

// dominatedRegion returns the blocks dominated by b (b included).
func dominatedRegion(b *ssa.BasicBlock) map[*ssa.BasicBlock]bool {
	out := map[*ssa.BasicBlock]bool{}
	var walk func(x *ssa.BasicBlock)
	walk = func(x *ssa.BasicBlock) {
		out[x] = true
		for _, d := range x.Dominees() {
			walk(d)
		}
	}
	walk(b)
	return out
}

// ErrChainOpts tunes the ERR-CHAIN rule.
type ErrChainOpts struct {
	// Sentinel, when set, names a package-level variable (e.g. io.EOF): a
	// non-nil error may be converted into success only on the true edge of a
	// comparison with it.
	SentinelPkg, SentinelName string
}

type chainVerdict struct {
	OK      bool
	Undecid bool
	Detail  string
	Pos     token.Pos
	// SentinelUsed reports that an io.EOF-style conversion was seen.
	SentinelUsed bool
}

// errChain decides ERR-CHAIN(call, f): the error result of call is examined
// on every path, and on every path on which it is non-nil the enclosing
// function returns a non-nil error (never the nil constant, never falling
// back into the normal flow).
func errChain(call *ssa.Call, opts ErrChainOpts) chainVerdict {
	fn := call.Parent()
	ev, _, bound := errValue(call)
	if !bound {
		return chainVerdict{Detail: "the error result is discarded", Pos: call.Pos()}
	}
	aliases := aliasesOf(ev)
	tests := nilTestsOf(aliases)
	fnErrIdx := errorResultIndex(fn.Signature)

	// direct returns of the error value
	directRet := map[*ssa.Return]bool{}
	if fnErrIdx >= 0 {
		for _, ret := range returnsOf(fn) {
			if ops := retOperands(ret); fnErrIdx < len(ops) && aliases[ops[fnErrIdx]] {
				directRet[ret] = true
			}
		}
	}
	if len(tests) == 0 && len(directRet) == 0 {
		return chainVerdict{Detail: "the error result is never tested against nil nor returned", Pos: call.Pos()}
	}
	sentinelUsed := false
	for _, t := range tests {
		if len(t.NonNil.Preds) != 1 {
			return chainVerdict{Undecid: true, Detail: "the non-nil branch of the error test is shared with other control flow", Pos: t.If.Pos()}
		}
		region := dominatedRegion(t.NonNil)
		for b := range region {
			last := b.Instrs[len(b.Instrs)-1]
			switch x := last.(type) {
			case *ssa.Return:
				if fnErrIdx < 0 {
					return chainVerdict{Detail: fmt.Sprintf("the enclosing function %s has no error result to report the failure with", fn.Name()), Pos: x.Pos()}
				}
				if isNilConst(retOperands(x)[fnErrIdx]) {
					if opts.SentinelName != "" && dominatedBySentinelEq(b, aliases, opts) {
						sentinelUsed = true
						continue
					}
					return chainVerdict{Detail: "a return on the error branch reports success (nil error)", Pos: x.Pos()}
				}
			case *ssa.Panic:
			default:
				for _, s := range b.Succs {
					if !region[s] {
						return chainVerdict{Detail: "the error branch falls back into the normal flow (error swallowed)", Pos: InstrPos(last)}
					}
				}
			}
		}
	}
	// Coverage: every path from the call to an exit passes a test or a direct return.
	gate := map[*ssa.BasicBlock]bool{}
	for _, t := range tests {
		gate[t.If.Block()] = true
	}
	for r := range directRet {
		gate[r.Block()] = true
	}
	start := call.Block()
	// a test "err == <sentinel>" placed BEFORE the nil test examines the error for its true branch:
	// that branch may report success (the sentinel at a record boundary) and is not followed further
	sentinelSuccs := func(b *ssa.BasicBlock) ([]*ssa.BasicBlock, bool) {
		if opts.SentinelName == "" || len(b.Instrs) == 0 {
			return nil, false
		}
		iff, ok := b.Instrs[len(b.Instrs)-1].(*ssa.If)
		if !ok {
			return nil, false
		}
		bo, ok := iff.Cond.(*ssa.BinOp)
		if !ok || (bo.Op != token.EQL && bo.Op != token.NEQ) {
			return nil, false
		}
		var other ssa.Value
		switch {
		case aliases[bo.X]:
			other = bo.Y
		case aliases[bo.Y]:
			other = bo.X
		default:
			return nil, false
		}
		if !isGlobalLoad(other, opts.SentinelPkg, opts.SentinelName) {
			return nil, false
		}
		eqSucc, neSucc := b.Succs[0], b.Succs[1]
		if bo.Op == token.NEQ {
			eqSucc, neSucc = neSucc, eqSucc
		}
		if len(eqSucc.Preds) != 1 {
			return nil, false
		}
		// the sentinel branch must leave the function (with or without an error)
		usesAsSuccess := false
		for rb := range dominatedRegion(eqSucc) {
			last := rb.Instrs[len(rb.Instrs)-1]
			switch x := last.(type) {
			case *ssa.Return:
				if fnErrIdx >= 0 && isNilConst(retOperands(x)[fnErrIdx]) {
					usesAsSuccess = true
				}
			case *ssa.Panic:
			default:
				for _, s := range rb.Succs {
					if !dominatedRegion(eqSucc)[s] {
						return nil, false
					}
				}
			}
		}
		if usesAsSuccess {
			sentinelUsed = true
		}
		return []*ssa.BasicBlock{neSucc}, true
	}
	if !gate[start] {
		seen := map[*ssa.BasicBlock]bool{}
		work := append([]*ssa.BasicBlock{}, start.Succs...)
		if ss, ok := sentinelSuccs(start); ok {
			work = append([]*ssa.BasicBlock{}, ss...)
		}
		if len(start.Succs) == 0 {
			return chainVerdict{Detail: "the function returns without examining the error", Pos: call.Pos()}
		}
		for len(work) > 0 {
			b := work[len(work)-1]
			work = work[:len(work)-1]
			if seen[b] {
				continue
			}
			seen[b] = true
			if gate[b] {
				continue
			}
			if b == start {
				return chainVerdict{Detail: "the error is overwritten by the next loop iteration without having been examined", Pos: call.Pos()}
			}
			if len(b.Succs) == 0 {
				if _, isPanic := b.Instrs[len(b.Instrs)-1].(*ssa.Panic); isPanic {
					continue
				}
				return chainVerdict{Detail: "a path from the call reaches a return without examining the error", Pos: InstrPos(b.Instrs[len(b.Instrs)-1])}
			}
			if ss, ok := sentinelSuccs(b); ok {
				work = append(work, ss...)
			} else {
				work = append(work, b.Succs...)
			}
		}
	}
	return chainVerdict{OK: true, SentinelUsed: sentinelUsed,
		Detail: fmt.Sprintf("error tested on every path (%d nil-test(s), %d direct return(s)); every non-nil branch ends in a non-nil error return", len(tests), len(directRet))}
}

// dominatedBySentinelEq reports whether block b is dominated by the true edge
// of a comparison (alias == sentinel).
func dominatedBySentinelEq(b *ssa.BasicBlock, aliases map[ssa.Value]bool, opts ErrChainOpts) bool {
	for a := range aliases {
		if a.Referrers() == nil {
			continue
		}
		for _, ref := range *a.Referrers() {
			bo, ok := ref.(*ssa.BinOp)
			if !ok || bo.Op != token.EQL {
				continue
			}
			other := bo.Y
			if bo.Y == a {
				other = bo.X
			}
			if !isGlobalLoad(other, opts.SentinelPkg, opts.SentinelName) {
				continue
			}
			for _, br := range *bo.Referrers() {
				if iff, ok := br.(*ssa.If); ok {
					t := iff.Block().Succs[0]
					if len(t.Preds) == 1 && t.Dominates(b) {
						return true
					}
				}
			}
		}
	}
	return false
}

func isGlobalLoad(v ssa.Value, pkg, name string) bool {
	if mi, ok := v.(*ssa.MakeInterface); ok {
		v = mi.X
	}
	u, ok := v.(*ssa.UnOp)
	if !ok || u.Op != token.MUL {
		return false
	}
	g, ok := u.X.(*ssa.Global)
	if !ok {
		return false
	}
	return g.Name() == name && g.Pkg != nil && g.Pkg.Pkg.Path() == pkg
}

// edgeDominates reports whether every path to block b passes the edge
// from -> to (to must have from as its only predecessor).
func edgeDominates(from, to, b *ssa.BasicBlock) bool {
	if len(to.Preds) != 1 || to.Preds[0] != from {
		return false
	}
	return to.Dominates(b)
}

// successReturns lists the returns of fn whose error operand is the nil
// constant (success returns). Functions without an error result: all returns.
func successReturns(fn *ssa.Function) []*ssa.Return {
	idx := errorResultIndex(fn.Signature)
	var out []*ssa.Return
	for _, r := range returnsOf(fn) {
		if idx < 0 || isNilConst(retOperands(r)[idx]) {
			out = append(out, r)
		}
	}
	return out
}

// errorReturns lists returns whose error operand is not the nil constant.
func errorReturns(fn *ssa.Function) []*ssa.Return {
	idx := errorResultIndex(fn.Signature)
	var out []*ssa.Return
	if idx < 0 {
		return nil
	}
	for _, r := range returnsOf(fn) {
		if !isNilConst(retOperands(r)[idx]) {
			out = append(out, r)
		}
	}
	return out
}

// blockReturnsNonNilError reports whether every path from b ends in a return
// with a non-nil error operand (or a panic) without leaving the region
// dominated by b.
func blockReturnsNonNilError(b *ssa.BasicBlock) bool {
	fn := b.Parent()
	idx := errorResultIndex(fn.Signature)
	if idx < 0 || len(b.Preds) != 1 {
		return false
	}
	region := dominatedRegion(b)
	for x := range region {
		last := x.Instrs[len(x.Instrs)-1]
		switch r := last.(type) {
		case *ssa.Return:
			if isNilConst(retOperands(r)[idx]) {
				return false
			}
		case *ssa.Panic:
		default:
			for _, s := range x.Succs {
				if !region[s] {
					return false
				}
			}
		}
	}
	return true
}

var _ = types.Typ
