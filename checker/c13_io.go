package main

import (
	"fmt"
	"go/ast"
	"go/token"
	"go/types"
	"sort"
	"strings"

	"golang.org/x/tools/go/ssa"
)

// E6: io.Reader / io.Writer discipline for the serialization code.

func isIOInterface(t types.Type, name string) bool {
	// the named interface io.<name>, or any interface whose method set
	// contains io.<name>'s method
	if typeIs(t, "io", name) {
		return true
	}
	it, ok := t.Underlying().(*types.Interface)
	if !ok {
		return false
	}
	m := map[string]string{"Reader": "Read", "Writer": "Write"}[name]
	for i := 0; i < it.NumMethods(); i++ {
		if it.Method(i).Name() == m && isByteSliceIntErrSig(it.Method(i).Type().(*types.Signature)) {
			return true
		}
	}
	return false
}

func isByteSliceIntErrSig(sig *types.Signature) bool {
	if sig.Params().Len() != 1 || sig.Results().Len() != 2 {
		return false
	}
	sl, ok := sig.Params().At(0).Type().Underlying().(*types.Slice)
	if !ok {
		return false
	}
	b, ok := sl.Elem().Underlying().(*types.Basic)
	if !ok || b.Kind() != types.Byte {
		return false
	}
	r0, ok := sig.Results().At(0).Type().Underlying().(*types.Basic)
	return ok && r0.Kind() == types.Int && isErrorType(sig.Results().At(1).Type())
}

func hasStreamParam(sig *types.Signature) (reader, writer bool) {
	for i := 0; i < sig.Params().Len(); i++ {
		t := sig.Params().At(i).Type()
		if isIOInterface(t, "Reader") {
			reader = true
		}
		if isIOInterface(t, "Writer") {
			writer = true
		}
	}
	return
}

func isIntLike(t types.Type) bool {
	b, ok := t.Underlying().(*types.Basic)
	return ok && b.Info()&types.IsInteger != 0
}

// ioCallKind classifies a call as a stream operation.
//
//	"write"    io.Writer.Write (method Write with the io signature)
//	"rawread"  a method Read with the io.Reader signature
//	"fullread" io.ReadFull / io.ReadAtLeast
//	"stream"   a package function with an io.Reader/io.Writer parameter returning (count, ..., error)
func ioCallKind(p *Program, c *ssa.CallCommon) string {
	f := calleeFunc(c)
	if f == nil {
		return ""
	}
	sig := f.Type().(*types.Signature)
	if sig.Recv() != nil && isByteSliceIntErrSig(sig) {
		switch f.Name() {
		case "Write":
			return "write"
		case "Read":
			return "rawread"
		}
	}
	if f.Pkg() != nil && f.Pkg().Path() == "io" && sig.Recv() == nil {
		switch f.Name() {
		case "ReadFull", "ReadAtLeast":
			return "fullread"
		}
	}
	if f.Pkg() == p.Types {
		rd, wr := hasStreamParam(sig)
		if (rd || wr) && sig.Results().Len() >= 2 && isIntLike(sig.Results().At(0).Type()) && errorResultIndex(sig) >= 0 {
			return "stream"
		}
	}
	return ""
}

func calleeLabel(p *Program, c *ssa.CallCommon) string {
	if c.IsInvoke() {
		return types.TypeString(c.Value.Type(), func(pk *types.Package) string {
			if pk == p.Types {
				return ""
			}
			return pk.Name()
		}) + "." + c.Method.Name()
	}
	if sc := c.StaticCallee(); sc != nil {
		if p.owns(sc) {
			return p.FuncName(sc)
		}
		if sc.Pkg != nil && sc.Signature.Recv() == nil {
			return sc.Pkg.Pkg.Name() + "." + sc.Name()
		}
		if o := sc.Origin(); o != nil && o.Pkg != nil && o.Signature.Recv() == nil {
			return o.Pkg.Pkg.Name() + "." + o.Name()
		}
		return sc.String()
	}
	if b := builtinName(c); b != "" {
		return b
	}
	return "<func value>"
}

// ioEntries: exported functions/methods with an io.Reader / io.Writer parameter.
func ioEntries(p *Program) []*ssa.Function {
	var out []*ssa.Function
	for _, fn := range p.Funcs {
		if fn.Parent() != nil || fn.Object() == nil || !fn.Object().Exported() {
			continue
		}
		if rd, wr := hasStreamParam(fn.Signature); rd || wr {
			out = append(out, fn)
		}
	}
	return out
}

func sortedFuncs(p *Program, m map[*ssa.Function]bool) []*ssa.Function {
	var out []*ssa.Function
	for f := range m {
		out = append(out, f)
	}
	sort.Slice(out, func(i, j int) bool {
		if out[i].Pos() != out[j].Pos() {
			return out[i].Pos() < out[j].Pos()
		}
		return p.FuncName(out[i]) < p.FuncName(out[j])
	})
	return out
}

// callsIn lists the Call instructions of fn in source order with a stable
// per-callee ordinal.
type siteCall struct {
	call  *ssa.Call
	label string
	ord   int
}

func callsIn(p *Program, fn *ssa.Function) []siteCall {
	var calls []*ssa.Call
	for _, b := range fn.Blocks {
		for _, in := range b.Instrs {
			if c, ok := in.(*ssa.Call); ok {
				calls = append(calls, c)
			}
		}
	}
	sort.SliceStable(calls, func(i, j int) bool { return calls[i].Pos() < calls[j].Pos() })
	cnt := map[string]int{}
	var out []siteCall
	for _, c := range calls {
		l := calleeLabel(p, c.Common())
		cnt[l]++
		out = append(out, siteCall{c, l, cnt[l]})
	}
	return out
}

func runIODiscipline(p *Program, r *Report) {
	r.Rule("R13a", "NO-RAW-READ: streams are consumed only through io.ReadFull/io.ReadAtLeast; no call of a Read([]byte)(int,error) method, whose short reads are legal")
	r.Rule("R13b", "IO-ERR-CHAIN: the error of every fallible call in the (de)serialization code is examined on every path and, when non-nil, returned as a non-nil error (only io.EOF at a record boundary may become success)")
	r.Rule("R13c", "COUNT-ACC: the count of every stream operation is added to the running total that the function returns, before the count variable is reassigned")
	r.Rule("R13d", "RESTORE-GATE: a restore function returns success only after a consistency check of the restored state that can still fail")
	r.Rule("R13h", "EOF-IS-TRUNCATION: the stream formats announce how many records follow, so no read of the restore code turns io.EOF into success")
	r.Rule("R13j", "COUNTED-BEFORE-ERROR-TEST: the count of a stream operation is added to the running total before any return that follows the operation, so that the bytes a failing operation did transfer are part of the count reported with the error")
	r.Rule("R13i", "FAILING-RETURNS-REPORT-TOTAL: a failing return of a stream function hands out the running total (what was consumed or produced before the failure), not the count of the last operation")

	entries := ioEntries(p)
	r.Floor("R13b", "exported stream entry points", len(entries), 4)
	if len(entries) == 0 {
		return
	}
	reach := p.StaticReach(entries...)

	// R13a over the whole package.
	nFull, nRaw, nWrite, nStream := 0, 0, 0, 0
	for _, fn := range p.Funcs {
		for _, sc := range callsIn(p, fn) {
			kind := ioCallKind(p, sc.call.Common())
			key := fmt.Sprintf("%s->%s#%d", p.FuncName(fn), sc.label, sc.ord)
			switch kind {
			case "rawread":
				nRaw++
				r.Violate("R13a", key, posOf(p, sc.call),
					"raw Read on a stream: io.Reader may return fewer bytes than asked with a nil error; use io.ReadFull", "in "+p.FuncName(fn))
			case "fullread":
				nFull++
				r.Discharge("R13a", key, posOf(p, sc.call), "stream consumed through "+sc.label, true)
			case "write":
				nWrite++
			case "stream":
				nStream++
			}
		}
	}
	r.Stats["io.fullreads"], r.Stats["io.rawreads"], r.Stats["io.writes"], r.Stats["io.streamcalls"] = nFull, nRaw, nWrite, nStream
	r.Floor("R13a", "reader-consuming call sites (full + raw)", nFull+nRaw, 13)
	r.Floor("R13b", "io.Writer.Write call sites", nWrite, 15)
	r.Floor("R13b", "recursive/nested stream function calls", nStream, 4)

	// R13b over the serialization closure.
	nChain := 0
	nSentinel := 0
	for _, fn := range sortedFuncs(p, reach) {
		for _, sc := range callsIn(p, fn) {
			cc := sc.call.Common()
			if errorResultIndex(cc.Signature()) < 0 {
				continue
			}
			if f := calleeFunc(cc); f != nil && f.Pkg() != nil {
				switch f.Pkg().Path() {
				case "fmt", "errors":
					continue // constructors of the error being reported
				}
			}
			nChain++
			key := fmt.Sprintf("%s->%s#%d", p.FuncName(fn), sc.label, sc.ord)
			v := errChain(sc.call, ErrChainOpts{SentinelPkg: "io", SentinelName: "EOF"})
			pos := p.Pos(v.Pos)
			if !v.Pos.IsValid() {
				pos = posOf(p, sc.call)
			}
			switch {
			case v.Undecid:
				r.Undecided("R13b", key, pos, v.Detail)
			case !v.OK:
				r.Violate("R13b", key, pos, v.Detail, "in "+p.FuncName(fn))
			default:
				d := v.Detail
				if v.SentinelUsed {
					d += "; io.EOF at the record boundary is turned into success (see R13h)"
					nSentinel++
					// R13h: both stream formats announce how many records follow (leaf count -> number of roots,
					// niece flags, element counts), so the end of the stream is never a legitimate end of data
					r.Violate("R13h", key+"/eof-as-success", posOf(p, sc.call), "io.EOF from this read is turned into success, but the stream announces how many records follow (leaf count, niece flags, element counts): the end of the stream at a record boundary is a truncated stream, which is then accepted - with whatever the missing records described left empty", "in "+p.FuncName(fn))
				}
				r.Discharge("R13b", key, posOf(p, sc.call), d, true)
			}
		}
	}
	r.Floor("R13b", "fallible calls in the serialization closure", nChain, 36)
	if nSentinel == 0 {
		r.Discharge("R13h", "serialization-closure/eof-as-success", "-", fmt.Sprintf("none of the %d fallible calls of the (de)serialization code turns io.EOF into success", nChain), true)
	}
	// deferred (or spawned) fallible calls: their error result is discarded by construction
	for _, fn := range sortedFuncs(p, reach) {
		nd := 0
		for _, b := range fn.Blocks {
			for _, in := range b.Instrs {
				var cc *ssa.CallCommon
				switch x := in.(type) {
				case *ssa.Defer:
					cc = x.Common()
				case *ssa.Go:
					cc = x.Common()
				default:
					continue
				}
				if errorResultIndex(cc.Signature()) < 0 {
					continue
				}
				nd++
				key := fmt.Sprintf("%s->defer %s#%d", p.FuncName(fn), calleeLabel(p, cc), nd)
				r.Violate("R13b", key, posOf(p, in), "a fallible call is deferred in the (de)serialization code: its error (for instance a failed flush of buffered bytes) can never reach the caller", "in "+p.FuncName(fn))
			}
		}
	}

	// R13c (typed AST).
	runCountAcc(p, r, reach)

	// R13d.
	runRestoreGate(p, r, entries)

	// R13f.
	checkRecordBufferRewritten(p, r, reach)

	// R13g.
	checkNoReadAhead(p, r, reach)
}

// ---------------------------------------------------------------------------
// R13c COUNT-ACC on the typed AST.

type countAcc struct {
	p       *Program
	r       *Report
	fname   string
	total   types.Object // running total of the outermost function
	n       int
	nAcc    int       // sites whose count is bound to a variable (R13j instances)
	firstOp token.Pos // position of the first stream operation seen
	early   token.Pos // set by consumed: a return that precedes the accumulation of the count
}

func (ca *countAcc) sawOp(pos token.Pos) {
	if ca.firstOp == token.NoPos || pos < ca.firstOp {
		ca.firstOp = pos
	}
}

func stripConv(e ast.Expr) ast.Expr {
	for {
		switch x := e.(type) {
		case *ast.ParenExpr:
			e = x.X
		case *ast.CallExpr:
			// conversion T(x) with one argument
			if len(x.Args) == 1 {
				if id, ok := x.Fun.(*ast.Ident); ok && (id.Name == "int64" || id.Name == "int" || id.Name == "uint64") {
					e = x.Args[0]
					continue
				}
			}
			return e
		default:
			return e
		}
	}
}

func (ca *countAcc) astIOKind(call *ast.CallExpr) string {
	info := ca.p.Info
	var f *types.Func
	switch fun := call.Fun.(type) {
	case *ast.SelectorExpr:
		if sel, ok := info.Selections[fun]; ok {
			f, _ = sel.Obj().(*types.Func)
		} else if o, ok := info.Uses[fun.Sel].(*types.Func); ok {
			f = o
		}
	case *ast.Ident:
		f, _ = info.Uses[fun].(*types.Func)
	}
	if f == nil {
		return ""
	}
	sig := f.Type().(*types.Signature)
	if sig.Recv() != nil && isByteSliceIntErrSig(sig) {
		switch f.Name() {
		case "Write":
			return "write"
		case "Read":
			return "rawread"
		}
	}
	if f.Pkg() != nil && f.Pkg().Path() == "io" && sig.Recv() == nil && (f.Name() == "ReadFull" || f.Name() == "ReadAtLeast") {
		return "fullread"
	}
	if f.Pkg() == ca.p.Types {
		rd, wr := hasStreamParam(sig)
		if (rd || wr) && sig.Results().Len() >= 2 && isIntLike(sig.Results().At(0).Type()) && errorResultIndex(sig) >= 0 {
			return "stream"
		}
	}
	return ""
}

func (ca *countAcc) obj(e ast.Expr) types.Object {
	id, ok := stripConv(e).(*ast.Ident)
	if !ok {
		return nil
	}
	if o := ca.p.Info.Defs[id]; o != nil {
		return o
	}
	return ca.p.Info.Uses[id]
}

func mentions(info *types.Info, e ast.Node, o types.Object) bool {
	found := false
	ast.Inspect(e, func(n ast.Node) bool {
		if id, ok := n.(*ast.Ident); ok && (info.Uses[id] == o || info.Defs[id] == o) {
			found = true
		}
		return !found
	})
	return found
}

// consumed scans the statements after index i of list for the accumulation of
// count variable v into the running total.
func (ca *countAcc) consumed(list []ast.Stmt, i int, v types.Object) (bool, string) {
	ca.early = token.NoPos
	for _, s := range list[i+1:] {
		switch st := s.(type) {
		case *ast.IfStmt:
			// R13j: a return inside a conditional that comes before the accumulation leaves the
			// count of this operation out of what it reports, unless it mentions the count itself
			if ca.early == token.NoPos {
				ast.Inspect(st, func(n ast.Node) bool {
					if _, isLit := n.(*ast.FuncLit); isLit {
						return false
					}
					if ret, ok := n.(*ast.ReturnStmt); ok && ca.early == token.NoPos {
						for _, e := range ret.Results {
							if mentions(ca.p.Info, e, v) {
								return true
							}
						}
						ca.early = ret.Pos()
					}
					return true
				})
			}
		case *ast.AssignStmt:
			if st.Tok == token.ADD_ASSIGN && len(st.Lhs) == 1 && ca.obj(st.Lhs[0]) == ca.total && mentions(ca.p.Info, st.Rhs[0], v) {
				return true, ""
			}
			// the running total is declared from the first count: nothing can have been counted before
			if st.Tok == token.DEFINE && len(st.Lhs) == 1 && len(st.Rhs) == 1 && ca.obj(st.Lhs[0]) == ca.total && mentions(ca.p.Info, st.Rhs[0], v) {
				if id, ok := st.Lhs[0].(*ast.Ident); ok && ca.p.Info.Defs[id] == ca.total {
					return true, ""
				}
			}
			if st.Tok == token.ASSIGN && len(st.Lhs) == 1 && len(st.Rhs) == 1 && ca.obj(st.Lhs[0]) == ca.total {
				if be, ok := st.Rhs[0].(*ast.BinaryExpr); ok && be.Op == token.ADD && mentions(ca.p.Info, be, v) && mentions(ca.p.Info, be, ca.total) {
					return true, ""
				}
			}
			for _, l := range st.Lhs {
				if ca.obj(l) == v {
					return false, "the count variable is reassigned at " + ca.p.Pos(st.Pos()) + " before it was added to the total"
				}
			}
		case *ast.ReturnStmt:
			if len(st.Results) > 0 && ca.obj(st.Results[0]) == v {
				return true, ""
			}
			return false, "the function returns at " + ca.p.Pos(st.Pos()) + " without the count having been added to the total"
		}
	}
	return false, "the enclosing block ends without the count having been added to the total"
}

func (ca *countAcc) stmts(list []ast.Stmt) {
	for i, s := range list {
		switch st := s.(type) {
		case *ast.AssignStmt:
			if len(st.Rhs) == 1 {
				if call, ok := st.Rhs[0].(*ast.CallExpr); ok {
					if k := ca.astIOKind(call); k != "" {
						ca.site(list, i, st, call, k)
					}
				}
			}
			ca.exprs(st.Rhs...)
		case *ast.ExprStmt:
			if call, ok := st.X.(*ast.CallExpr); ok {
				if k := ca.astIOKind(call); k != "" {
					ca.n++
					ca.sawOp(call.Pos())
					ca.r.Violate("R13c", fmt.Sprintf("%s/%s#%d", ca.fname, k, ca.n), ca.p.Pos(call.Pos()), "the results of the stream operation (count and error) are dropped", "in "+ca.fname)
				}
			}
			ca.exprs(st.X)
		case *ast.ReturnStmt:
			for _, e := range st.Results {
				if call, ok := e.(*ast.CallExpr); ok {
					if k := ca.astIOKind(call); k != "" {
						ca.n++
						ca.sawOp(call.Pos())
						ca.r.Discharge("R13c", fmt.Sprintf("%s/%s#%d", ca.fname, k, ca.n), ca.p.Pos(call.Pos()), "count and error are returned directly", true)
					}
				}
			}
			ca.exprs(st.Results...)
		case *ast.IfStmt:
			if st.Init != nil {
				ca.stmts([]ast.Stmt{st.Init})
			}
			ca.exprs(st.Cond)
			ca.stmts(st.Body.List)
			if st.Else != nil {
				ca.stmts([]ast.Stmt{st.Else})
			}
		case *ast.BlockStmt:
			ca.stmts(st.List)
		case *ast.ForStmt:
			ca.stmts(st.Body.List)
		case *ast.RangeStmt:
			ca.stmts(st.Body.List)
		case *ast.SwitchStmt:
			for _, c := range st.Body.List {
				ca.stmts(c.(*ast.CaseClause).Body)
			}
		case *ast.TypeSwitchStmt:
			for _, c := range st.Body.List {
				ca.stmts(c.(*ast.CaseClause).Body)
			}
		case *ast.DeclStmt, *ast.IncDecStmt, *ast.BranchStmt, *ast.EmptyStmt:
		case *ast.DeferStmt:
			ca.exprs(st.Call)
		case *ast.LabeledStmt:
			ca.stmts([]ast.Stmt{st.Stmt})
		}
	}
}

// exprs descends into function literals found in expressions.
func (ca *countAcc) exprs(es ...ast.Expr) {
	for _, e := range es {
		if e == nil {
			continue
		}
		ast.Inspect(e, func(n ast.Node) bool {
			if fl, ok := n.(*ast.FuncLit); ok {
				ca.stmts(fl.Body.List)
				return false
			}
			return true
		})
	}
}

func (ca *countAcc) site(list []ast.Stmt, i int, st *ast.AssignStmt, call *ast.CallExpr, kind string) {
	ca.n++
	ca.sawOp(call.Pos())
	key := fmt.Sprintf("%s/%s#%d", ca.fname, kind, ca.n)
	pos := ca.p.Pos(call.Pos())
	if ca.total == nil {
		ca.r.Undecided("R13c", key, pos, "cannot identify the running total returned by "+ca.fname)
		return
	}
	if len(st.Lhs) < 2 {
		ca.r.Undecided("R13c", key, pos, "stream operation not bound as (count, err)")
		return
	}
	v := ca.obj(st.Lhs[0])
	if v == nil {
		ca.r.Violate("R13c", key, pos, "the count of the stream operation is discarded", "in "+ca.fname)
		return
	}
	ca.nAcc++
	if v == ca.total {
		ca.r.Discharge("R13c", key, pos, "count assigned straight into the running total", true)
		ca.r.Discharge("R13j", key+"/counted-before-error-test", pos, "count assigned straight into the running total", true)
		return
	}
	ok, why := ca.consumed(list, i, v)
	if ok {
		if ca.early != token.NoPos {
			ca.r.Violate("R13j", key+"/counted-before-error-test", ca.p.Pos(ca.early), fmt.Sprintf("the return here comes between the stream operation at %s and the accumulation of its count %s into %s: when the operation fails part-way (a sink that took some of the bytes, a stream that ends inside the field, a nested record that failed) the bytes it did transfer are missing from the count reported with the error", pos, v.Name(), ca.total.Name()), "in "+ca.fname)
		} else {
			ca.r.Discharge("R13j", key+"/counted-before-error-test", pos, fmt.Sprintf("count %s is added to %s before any return that follows the operation", v.Name(), ca.total.Name()), true)
		}
		ca.r.Discharge("R13c", key, pos, fmt.Sprintf("count %s is added to the running total %s before being reassigned", v.Name(), ca.total.Name()), true)
	} else {
		ca.r.Violate("R13c", key, pos, fmt.Sprintf("count %s never reaches the running total %s: %s", v.Name(), ca.total.Name(), why), "in "+ca.fname)
	}
}

func runCountAcc(p *Program, r *Report, reach map[*ssa.Function]bool) {
	total := 0
	nErrFuncs := 0
	nAcc := 0
	for _, fn := range sortedFuncs(p, reach) {
		if fn.Parent() != nil {
			continue // closures are visited with their parent
		}
		decl, ok := p.funcSyntax(fn).(*ast.FuncDecl)
		if !ok || decl.Body == nil {
			continue
		}
		sig := fn.Signature
		if sig.Results().Len() < 2 || !isIntLike(sig.Results().At(0).Type()) || errorResultIndex(sig) < 0 {
			continue
		}
		rd, wr := hasStreamParam(sig)
		if !rd && !wr {
			continue
		}
		ca := &countAcc{p: p, r: r, fname: p.FuncName(fn)}
		// running total: the count operand of the last return statement of the body
		if n := len(decl.Body.List); n > 0 {
			if ret, ok := decl.Body.List[n-1].(*ast.ReturnStmt); ok && len(ret.Results) >= 2 {
				ca.total = ca.obj(ret.Results[0])
			}
		}
		ca.stmts(decl.Body.List)
		total += ca.n
		nAcc += ca.nAcc
		// every success return hands out the running total (or a count it just read)
		if ca.total != nil {
			okAll := true
			var bad token.Pos
			ast.Inspect(decl.Body, func(n ast.Node) bool {
				if _, isLit := n.(*ast.FuncLit); isLit {
					return false
				}
				if ret, ok := n.(*ast.ReturnStmt); ok && len(ret.Results) >= 2 {
					last := ret.Results[len(ret.Results)-1]
					if id, ok := last.(*ast.Ident); ok && id.Name == "nil" {
						o := ca.obj(ret.Results[0])
						if o == nil {
							// the literal 0 is the right count where no stream operation can have run yet:
							// accepted when the return precedes the first stream operation of the body
							if lit, isLit := ret.Results[0].(*ast.BasicLit); isLit && lit.Value == "0" && (ca.firstOp == token.NoPos || ret.Pos() < ca.firstOp) {
								return true
							}
							okAll, bad = false, ret.Pos()
						}
					}
				}
				return true
			})
			// R13i: a failing return reports the running total too (what was consumed / produced before the failure),
			// not the count of the last operation
			var badErr token.Pos
			nErr := 0
			ast.Inspect(decl.Body, func(n ast.Node) bool {
				if _, isLit := n.(*ast.FuncLit); isLit {
					return false
				}
				ret, ok := n.(*ast.ReturnStmt)
				if !ok || len(ret.Results) < 2 {
					return true
				}
				last := ret.Results[len(ret.Results)-1]
				if id, ok := last.(*ast.Ident); ok && id.Name == "nil" {
					return true
				}
				nErr++
				if o := ca.obj(ret.Results[0]); o == ca.total {
					return true
				}
				// the total plus the count of the operation that just failed
				if be, isSum := stripConv(ret.Results[0]).(*ast.BinaryExpr); isSum && be.Op == token.ADD && mentions(ca.p.Info, be, ca.total) {
					return true
				}
				if lit, isLit := ret.Results[0].(*ast.BasicLit); isLit && lit.Value == "0" && (ca.firstOp == token.NoPos || ret.Pos() < ca.firstOp) {
					return true
				}
				if badErr == token.NoPos {
					badErr = ret.Pos()
				}
				return true
			})
			if nErr > 0 {
				nErrFuncs++
				if badErr == token.NoPos {
					r.Discharge("R13i", ca.fname+"/error-returns-total", p.Pos(decl.Pos()), fmt.Sprintf("all %d failing returns hand out the running total %s", nErr, ca.total.Name()), true)
				} else {
					r.Violate("R13i", ca.fname+"/error-returns-total", p.Pos(badErr), "a failing return hands out something else than the running total "+ca.total.Name()+" (for instance the count of the last operation): the reported byte count is not what was consumed or produced", "in "+ca.fname)
				}
			}
			// the final return must be the total itself
			if okAll {
				r.Discharge("R13c", ca.fname+"/returns-total", p.Pos(decl.Pos()), "every success return hands out a count variable; the final one is the running total "+ca.total.Name(), true)
			} else {
				r.Violate("R13c", ca.fname+"/returns-total", p.Pos(bad), "a success return does not hand out a count variable", "in "+ca.fname)
			}
		}
	}
	r.Stats["io.count_sites"] = total
	r.Floor("R13c", "stream operations whose count is tracked", total, 32)
	r.Floor("R13i", "stream functions with failing returns", nErrFuncs, 4)
	r.Floor("R13j", "stream operations whose count is bound to a variable", nAcc, 32)
}

// ---------------------------------------------------------------------------
// R13d RESTORE-GATE.

func runRestoreGate(p *Program, r *Report, entries []*ssa.Function) {
	n := 0
	for _, fn := range entries {
		rd, _ := hasStreamParam(fn.Signature)
		if !rd {
			continue
		}
		n++
		name := p.FuncName(fn)
		succ := successReturns(fn)
		// stream reads of this function (direct or through stream functions)
		var reads []ssa.Instruction
		for _, b := range fn.Blocks {
			for _, in := range b.Instrs {
				if c, ok := in.(*ssa.Call); ok {
					switch ioCallKind(p, c.Common()) {
					case "fullread", "rawread", "stream":
						reads = append(reads, c)
					}
				}
			}
		}
		if len(succ) == 0 {
			// "return total, err" where err is the outcome of the consistency test itself: the
			// function succeeds exactly when the test does
			passes := false
			if ei := errorResultIndex(fn.Signature); ei >= 0 {
				for _, ret := range returnsOf(fn) {
					v := retOperands(ret)[ei]
					var call *ssa.Call
					switch x := v.(type) {
					case *ssa.Call:
						call = x
					case *ssa.Extract:
						call, _ = x.Tuple.(*ssa.Call)
					}
					if call == nil {
						continue
					}
					after := true
					for _, rd := range reads {
						if rd == ssa.Instruction(call) || (rd.Block() == call.Block() && instrIndex(rd) > instrIndex(call)) || (rd.Block() != call.Block() && reachableBlocks(call.Block().Succs)[rd.Block()]) {
							after = false
						}
					}
					cond := &ssa.BinOp{Op: token.NEQ, X: v}
					if after && !condIsErrTestOfRead(p, cond) && condDependsOnRestoredState(p, fn, cond) && callbackCanFail(cond) {
						passes = true
					}
				}
			}
			if passes {
				r.Discharge("R13d", name+"/gate", p.Pos(fn.Pos()), "the function returns the outcome of a post-read consistency test of the restored state as its error: it succeeds exactly when the test does", true)
			} else {
				r.Undecided("R13d", name+"/gate", p.Pos(fn.Pos()), "restore function without a success return")
			}
			continue
		}
		// candidate gates: Ifs whose failing edge returns a non-nil error, that
		// lie after all reads, and whose condition is not the error test of a read.
		var gates []*ssa.If
		for _, b := range fn.Blocks {
			iff, ok := b.Instrs[len(b.Instrs)-1].(*ssa.If)
			if !ok {
				continue
			}
			failIdx := -1
			for i, s := range b.Succs {
				if blockReturnsNonNilError(s) {
					failIdx = i
				}
			}
			if failIdx < 0 {
				continue
			}
			after := true
			for _, rd := range reads {
				if rd.Block() == b || reachableBlocks(b.Succs)[rd.Block()] {
					after = false
				}
			}
			if !after {
				continue
			}
			if condIsErrTestOfRead(p, iff.Cond) {
				continue
			}
			if !condDependsOnRestoredState(p, fn, iff.Cond) {
				continue
			}
			if !callbackCanFail(iff.Cond) {
				continue // the test is on the error of an iterator whose callback never fails
			}
			okSucc := b.Succs[1-failIdx]
			all := true
			for _, s := range succ {
				if !edgeDominates(b, okSucc, s.Block()) && !(okSucc == s.Block() && len(okSucc.Preds) == 1) {
					all = false
				}
			}
			if all {
				gates = append(gates, iff)
			}
		}
		if len(gates) > 0 {
			r.Discharge("R13d", name+"/gate", posOf(p, gates[0]),
				fmt.Sprintf("every success return is dominated by the passing edge of %d post-read consistency test(s) on the restored state whose failing edge returns an error", len(gates)), true)
		} else {
			r.Violate("R13d", name+"/gate", p.Pos(fn.Pos()),
				"no consistency test of the restored state (after the last read, failing edge returning an error) dominates the success return: a truncated or inconsistent stream is accepted silently", "in "+name)
		}
	}
	r.Floor("R13d", "restore functions", n, 2)
}

// condIsErrTestOfRead: cond is (err != nil) where err is the error of a stream read.
func condIsErrTestOfRead(p *Program, cond ssa.Value) bool {
	bo, ok := cond.(*ssa.BinOp)
	if !ok {
		return false
	}
	for _, op := range []ssa.Value{bo.X, bo.Y} {
		if ex, ok := op.(*ssa.Extract); ok {
			if c, ok := ex.Tuple.(*ssa.Call); ok {
				switch ioCallKind(p, c.Common()) {
				case "fullread", "rawread", "stream":
					return true
				}
			}
		}
	}
	return false
}

// condDependsOnRestoredState: the condition's backward slice (through
// arithmetic, conversions, builtin len, calls' results and phis) contains a
// load of a field or a method call on a package struct — i.e. it looks at the
// object that was just restored rather than only at the stream.
func condDependsOnRestoredState(p *Program, fn *ssa.Function, cond ssa.Value) bool {
	seen := map[ssa.Value]bool{}
	var walk func(v ssa.Value, depth int) bool
	walk = func(v ssa.Value, depth int) bool {
		if v == nil || seen[v] || depth > 12 {
			return false
		}
		seen[v] = true
		switch x := v.(type) {
		case *ssa.FieldAddr:
			if n := namedOf(x.X.Type()); n != nil && n.Obj().Pkg() == p.Types {
				return true
			}
		case *ssa.Field:
			if n := namedOf(x.X.Type()); n != nil && n.Obj().Pkg() == p.Types {
				return true
			}
		case *ssa.Call:
			cc := x.Common()
			if cc.IsInvoke() {
				if n := namedOf(cc.Value.Type()); n != nil && n.Obj().Pkg() == p.Types {
					return true // e.g. CachedLeaves.ForEach / Nodes.Get on the restored object
				}
			}
			if cc.IsInvoke() && walk(cc.Value, depth+1) {
				return true
			}
			// a helper of the package that receives the restored object and can
			// fail: the consistency test extracted into a function
			if sc := cc.StaticCallee(); sc != nil && p.owns(sc) && len(errorReturns(sc)) > 0 {
				if rd, wr := hasStreamParam(sc.Signature); !rd && !wr {
					for _, a := range cc.Args {
						if n := namedOf(a.Type()); n != nil && n.Obj().Pkg() == p.Types {
							if _, isStruct := n.Underlying().(*types.Struct); isStruct {
								return true
							}
						}
					}
				}
			}
			for _, a := range cc.Args {
				if walk(a, depth+1) {
					return true
				}
			}
			return false
		}
		if in, ok := v.(ssa.Instruction); ok {
			for _, op := range in.Operands(nil) {
				if op != nil && *op != nil && walk(*op, depth+1) {
					return true
				}
			}
		}
		return false
	}
	return walk(cond, 0)
}

var _ = strings.Contains

// callbackCanFail: when cond tests the error of a call that is given closures,
// at least one of those closures must be able to return a non-nil error;
// otherwise the test can never fail and is no gate. Conditions that are not
// of that shape pass.
func callbackCanFail(cond ssa.Value) bool {
	bo, ok := cond.(*ssa.BinOp)
	if !ok {
		return true
	}
	for _, op := range []ssa.Value{bo.X, bo.Y} {
		var call *ssa.Call
		switch x := op.(type) {
		case *ssa.Call:
			call = x
		case *ssa.Extract:
			call, _ = x.Tuple.(*ssa.Call)
		}
		if call == nil {
			continue
		}
		closures, failing := 0, 0
		for _, a := range call.Common().Args {
			if fn := funcValue(a); fn != nil && fn.Blocks != nil {
				closures++
				if len(errorReturns(fn)) > 0 {
					failing++
				}
			}
		}
		if closures > 0 && failing == 0 {
			return false
		}
	}
	return true
}

// ---------------------------------------------------------------------------
// R13f RECORD-BUFFER-REWRITTEN. A record buffer that outlives one record (it
// is declared outside the per-element callback or loop that writes it to the
// sink) carries the previous record's bytes into the next one. Every byte that
// the repeated region assigns at all must therefore be assigned on EVERY path
// from the region's entry to the write - a flag byte set under `if x` and
// never cleared stays set for all later records.

type bufStore struct {
	blk    *ssa.BasicBlock
	idx    int // position of the storing instruction in blk
	lo, hi int64
	in     ssa.Instruction
}

// bufferBase resolves the array behind a slice operand: the Alloc or FreeVar
// of array-pointer type.
func bufferBase(v ssa.Value) ssa.Value {
	for i := 0; i < 6; i++ {
		switch x := v.(type) {
		case *ssa.Slice:
			v = x.X
		case *ssa.Alloc, *ssa.FreeVar:
			if pt, ok := x.Type().Underlying().(*types.Pointer); ok {
				if _, ok := pt.Elem().Underlying().(*types.Array); ok {
					return x
				}
			}
			return nil
		default:
			return nil
		}
	}
	return nil
}

func constInt(v ssa.Value, def int64) int64 {
	if v == nil {
		return def
	}
	if c, ok := v.(*ssa.Const); ok && c.Value != nil {
		return c.Int64()
	}
	return -1
}

func checkRecordBufferRewritten(p *Program, r *Report, reach map[*ssa.Function]bool) {
	rule := "R13f"
	r.Rule(rule, "RECORD-BUFFER-REWRITTEN: a record buffer declared outside the per-element callback or loop that writes it to the sink has every byte the region assigns assigned on every path to the write (no byte carries over from the previous record)")
	n := 0
	for _, fn := range sortedFuncs(p, reach) {
		if fn.Blocks == nil || !p.owns(fn) {
			continue
		}
		for _, sc := range callsIn(p, fn) {
			if ioCallKind(p, sc.call.Common()) != "write" {
				continue
			}
			args := sc.call.Common().Args
			if len(args) == 0 {
				continue
			}
			base := bufferBase(args[len(args)-1])
			if base == nil {
				continue
			}
			arr := base.Type().Underlying().(*types.Pointer).Elem().Underlying().(*types.Array)
			wb := sc.call.Block()
			// the repeated region and whether the buffer outlives it
			var entry *ssa.BasicBlock
			region := ""
			if _, isFree := base.(*ssa.FreeVar); isFree {
				entry, region = fn.Blocks[0], "callback"
			} else if h := innermostLoopHeader(wb); h != nil {
				if al, ok := base.(*ssa.Alloc); ok && !loopContains(h, al.Block()) {
					entry, region = h, "loop"
				}
			}
			if entry == nil {
				continue
			}
			n++
			key := fmt.Sprintf("%s->%s#%d/buffer", p.FuncName(fn), sc.label, sc.ord)
			// stores into the buffer inside the region
			var stores []bufStore
			undecided := ""
			for _, b := range fn.Blocks {
				if region == "loop" && !loopContains(entry, b) {
					continue
				}
				for i, in := range b.Instrs {
					switch x := in.(type) {
					case *ssa.Store:
						ia, ok := x.Addr.(*ssa.IndexAddr)
						if !ok || ia.X != base {
							continue
						}
						k := constInt(ia.Index, -1)
						if k < 0 {
							undecided = "element store with a computed index"
							continue
						}
						stores = append(stores, bufStore{b, i, k, k + 1, in})
					case *ssa.Call:
						cc := x.Common()
						var dst ssa.Value
						width := int64(-1)
						if bn := builtinName(cc); bn == "copy" && len(cc.Args) == 2 {
							dst = cc.Args[0]
						} else if f := calleeFunc(cc); f != nil && f.Pkg() != nil && f.Pkg().Path() == "encoding/binary" && strings.HasPrefix(f.Name(), "PutUint") && len(cc.Args) >= 2 {
							dst = cc.Args[len(cc.Args)-2]
							switch f.Name() {
							case "PutUint16":
								width = 2
							case "PutUint32":
								width = 4
							case "PutUint64":
								width = 8
							}
						}
						if dst == nil || bufferBase(dst) != base {
							continue
						}
						sl, ok := dst.(*ssa.Slice)
						if !ok {
							continue
						}
						lo, hi := constInt(sl.Low, 0), constInt(sl.High, arr.Len())
						if lo < 0 || hi < 0 {
							undecided = "slice of the buffer with computed bounds"
							continue
						}
						if width > 0 && lo+width < hi {
							hi = lo + width
						}
						// copy(dst, src) fills min(len(dst), len(src)): exact only when the source is a whole array / hash of that size
						if width < 0 && len(cc.Args) == 2 {
							if n := staticLen(cc.Args[1]); n >= 0 && lo+n < hi {
								hi = lo + n
							} else if n < 0 {
								undecided = "copy into the buffer from a source of unknown length"
								continue
							}
						}
						stores = append(stores, bufStore{b, i, lo, hi, in})
					}
				}
			}
			// write position inside its block
			wi := 0
			for i, in := range wb.Instrs {
				if in == ssa.Instruction(sc.call) {
					wi = i
				}
			}
			// per assigned byte: is there a path entry -> write that avoids every store covering it?
			var stale []int64
			var staleAt ssa.Instruction
			for k := int64(0); k < arr.Len(); k++ {
				var cov []bufStore
				for _, s := range stores {
					if s.lo <= k && k < s.hi {
						cov = append(cov, s)
					}
				}
				if len(cov) == 0 {
					continue
				}
				blocked := func(b *ssa.BasicBlock, upto int) bool {
					for _, s := range cov {
						if s.blk == b && (upto < 0 || s.idx < upto) {
							return true
						}
					}
					return false
				}
				seen := map[*ssa.BasicBlock]bool{}
				var dfs func(b *ssa.BasicBlock) bool
				dfs = func(b *ssa.BasicBlock) bool {
					if b == wb {
						return !blocked(b, wi)
					}
					if seen[b] || blocked(b, -1) {
						return false
					}
					seen[b] = true
					for _, s := range b.Succs {
						if region == "loop" && (!loopContains(entry, s) || s == entry) {
							continue
						}
						if dfs(s) {
							return true
						}
					}
					return false
				}
				start := entry
				if dfs(start) {
					stale = append(stale, k)
					if staleAt == nil {
						staleAt = cov[0].in
					}
				}
			}
			switch {
			case len(stale) > 0:
				r.Violate(rule, key, posOf(p, staleAt), fmt.Sprintf("byte(s) %v of the record buffer %s are assigned on some paths of the %s only; on the other paths the record is written with the value left by a previous record", stale, base.Name(), region), "in "+p.FuncName(fn))
			case undecided != "":
				r.Undecided(rule, key, posOf(p, sc.call), undecided)
			default:
				r.Discharge(rule, key, posOf(p, sc.call), fmt.Sprintf("every byte of %s that the %s assigns (%d stores) is assigned on every path to the write", base.Name(), region, len(stores)), len(stores) > 0)
			}
		}
	}
	r.Floor(rule, "writes of a record buffer that outlives the record", n, 3)
}

// staticLen: length of a slice expression's source when it is fixed by types:
// x[:] / x[a:b] of an array, or constant bounds.
func staticLen(v ssa.Value) int64 {
	sl, ok := v.(*ssa.Slice)
	if !ok {
		return -1
	}
	total := int64(-1)
	if pt, ok := sl.X.Type().Underlying().(*types.Pointer); ok {
		if a, ok := pt.Elem().Underlying().(*types.Array); ok {
			total = a.Len()
		}
	}
	lo := constInt(sl.Low, 0)
	hi := constInt(sl.High, total)
	if lo < 0 || hi < 0 {
		return -1
	}
	return hi - lo
}

// ---------------------------------------------------------------------------
// R13g NO-READ-AHEAD. The byte count a restore function reports, and the
// position it leaves the caller's reader at, are right only if every byte is
// taken from that reader by the function itself. Handing the reader to a
// wrapper (bufio.NewReader, io.LimitReader, io.ReadAll, ...) lets the wrapper
// take more than is reported: what follows the forest in the stream is lost.
// The caller's reader may flow only into io.ReadFull / io.ReadAtLeast, into a
// package function with a stream parameter (checked in turn), into a closure of
// the package, or be invoked directly (Read - which R13a reports).

func checkNoReadAhead(p *Program, r *Report, reach map[*ssa.Function]bool) {
	rule := "R13g"
	r.Rule(rule, "NO-READ-AHEAD: the caller's io.Reader is consumed only by io.ReadFull / io.ReadAtLeast and by package stream functions, never handed to a wrapper that may read ahead of the reported count")
	n := 0
	for _, fn := range sortedFuncs(p, reach) {
		if fn.Blocks == nil || !p.owns(fn) {
			continue
		}
		var readers []ssa.Value
		for _, par := range fn.Params {
			if isIOInterface(par.Type(), "Reader") {
				readers = append(readers, par)
			}
		}
		for _, fv := range fn.FreeVars {
			if pt, ok := fv.Type().Underlying().(*types.Pointer); ok && isIOInterface(pt.Elem(), "Reader") {
				readers = append(readers, fv)
			} else if isIOInterface(fv.Type(), "Reader") {
				readers = append(readers, fv)
			}
		}
		for _, rd := range readers {
			n++
			key := fmt.Sprintf("%s/reader:%s", p.FuncName(fn), rd.Name())
			var bad ssa.Instruction
			why := ""
			uses := 0
			seen := map[ssa.Value]bool{}
			var walk func(v ssa.Value)
			walk = func(v ssa.Value) {
				if seen[v] || v.Referrers() == nil {
					return
				}
				seen[v] = true
				for _, ref := range *v.Referrers() {
					switch x := ref.(type) {
					case *ssa.DebugRef:
					case *ssa.Store:
						if x.Val == v {
							// spilled into a local (captured by a closure): follow the cell
							if al, ok := x.Addr.(*ssa.Alloc); ok {
								walk(al)
							} else if bad == nil {
								bad, why = ref, "is stored away"
							}
						}
					case *ssa.UnOp:
						walk(x)
					case *ssa.Phi, *ssa.ChangeInterface, *ssa.MakeInterface, *ssa.ChangeType:
						walk(x.(ssa.Value))
					case *ssa.MakeClosure:
						// closures of the package are analysed as functions with a reader free variable
					case ssa.CallInstruction:
						cc := x.Common()
						uses++
						if cc.IsInvoke() && cc.Value == v {
							continue // direct Read: R13a
						}
						kind := ioCallKind(p, cc)
						if kind == "fullread" || kind == "stream" {
							continue
						}
						if sc := cc.StaticCallee(); sc != nil && p.owns(sc) {
							if rdr, _ := hasStreamParam(sc.Signature); rdr {
								continue
							}
						}
						if bad == nil {
							bad, why = ref, "is handed to "+calleeLabel(p, cc)
						}
					default:
						if bad == nil {
							bad, why = ref, "escapes into "+ref.String()
						}
					}
				}
			}
			walk(rd)
			if bad != nil {
				r.Violate(rule, key, posOf(p, bad), "the caller's reader "+why+", which may take more bytes from it than this function reports: the count is wrong and whatever follows in the stream is lost", "in "+p.FuncName(fn))
			} else {
				r.Discharge(rule, key, p.Pos(fn.Pos()), fmt.Sprintf("the reader flows only into io.ReadFull/io.ReadAtLeast and package stream functions (%d uses)", uses), uses > 0)
			}
		}
	}
	r.Floor(rule, "functions holding the caller's reader", n, 3)
}
