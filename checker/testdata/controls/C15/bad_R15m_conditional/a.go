package ctl

type info struct{ pos uint64 }

type Tracker struct {
	numAdds []uint16
	ttls    [][]info
}

// gen allocates the table only when the number of blocks changed.
func (t *Tracker) gen() {
	if len(t.ttls) != len(t.numAdds) {
		t.ttls = make([][]info, len(t.numAdds))
	}
	for i := range t.numAdds {
		t.ttls[i] = append(t.ttls[i], info{pos: uint64(i)})
	}
}
