package ctl

type info struct{ pos uint64 }

type Tracker struct {
	numAdds []uint16
	ttls    [][]info
	log     [][]uint64
}

func (t *Tracker) gen() {
	t.ttls = make([][]info, len(t.numAdds))
	for i := range t.numAdds {
		t.ttls[i] = append(t.ttls[i], info{pos: uint64(i)})
	}
}

// record is incremental: it never allocates the table, it extends it.
func (t *Tracker) record(i int, v uint64) {
	t.log[i] = append(t.log[i], v)
}
