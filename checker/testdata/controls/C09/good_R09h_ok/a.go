package ctl

import (
	"encoding/binary"
	"io"
)

type Hash [32]byte

var empty Hash

type Leaf struct {
	Hash     Hash
	Remember bool
}

type NodesInterface interface {
	Get(uint64) (Leaf, bool)
	Put(uint64, Leaf)
	Delete(uint64)
}

type CachedLeavesInterface interface {
	Get(Hash) (uint64, bool)
	Put(Hash, uint64)
}

type nodesMap map[uint64]Leaf

func (m nodesMap) Get(k uint64) (Leaf, bool) { v, ok := m[k]; return v, ok }
func (m nodesMap) Put(k uint64, v Leaf)      { m[k] = v }
func (m nodesMap) Delete(k uint64)           { delete(m, k) }

type cachedMap map[Hash]uint64

func (m cachedMap) Get(k Hash) (uint64, bool) { v, ok := m[k]; return v, ok }
func (m cachedMap) Put(k Hash, v uint64)      { m[k] = v }

type MapPollard struct {
	Nodes        NodesInterface
	CachedLeaves CachedLeavesInterface
	NumLeaves    uint64
	TotalRows    uint8
	Full         bool
}

func RootPositions(numLeaves uint64, rows uint8) []uint64 {
	var out []uint64
	for r := int(rows); r >= 0; r-- {
		if numLeaves&(1<<uint(r)) != 0 {
			out = append(out, uint64(r))
		}
	}
	return out
}

func (m *MapPollard) storeRoot(pos uint64, h Hash) {
	m.Nodes.Put(pos, Leaf{Hash: h, Remember: m.Full})
}

// NewMapPollardFromRoots stores every root through a helper that always stores.
func NewMapPollardFromRoots(rootHashes []Hash, numLeaves uint64, full bool) MapPollard {
	m := MapPollard{Nodes: nodesMap{}, CachedLeaves: cachedMap{}, NumLeaves: numLeaves, TotalRows: 63, Full: full}
	rootPositions := RootPositions(m.NumLeaves, m.TotalRows)
	for i := 0; i < len(rootPositions); i++ {
		h := rootHashes[i]
		if h == empty {
			h = Hash{}
		}
		m.storeRoot(rootPositions[i], h)
	}
	return m
}

var _ = binary.LittleEndian
var _ io.Reader
