package ctl

type Hash [32]byte

type Proof struct {
	Targets []uint64
	Proof   []Hash
}

// AddProof re-points the field of its by-value parameter to a fresh slice on
// one path only: on the other path the write goes through the caller's slice.
func AddProof(proof Proof, hashes []Hash, n int) Proof {
	if n != len(proof.Proof) {
		proof.Proof = make([]Hash, n)
	}
	for i := range proof.Proof {
		if i < len(hashes) {
			proof.Proof[i] = hashes[i]
		}
	}
	return Proof{append([]uint64(nil), proof.Targets...), append([]Hash(nil), proof.Proof...)}
}
