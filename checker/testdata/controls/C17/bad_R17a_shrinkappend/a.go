package ctl

import "sort"

type Hash [32]byte

type Proof struct {
	Targets []uint64
	Proof   []Hash
}

type hashAndPos struct {
	positions []uint64
	hashes    []Hash
}

func (h hashAndPos) Len() int           { return len(h.positions) }
func (h hashAndPos) Less(i, j int) bool { return h.positions[i] < h.positions[j] }
func (h hashAndPos) Swap(i, j int) {
	h.positions[i], h.positions[j] = h.positions[j], h.positions[i]
	h.hashes[i], h.hashes[j] = h.hashes[j], h.hashes[i]
}
func (h *hashAndPos) Delete(i int) {
	h.positions = append(h.positions[:i], h.positions[i+1:]...)
	h.hashes = append(h.hashes[:i], h.hashes[i+1:]...)
}

func toHashAndPos(t []uint64, h []Hash) hashAndPos {
	tc := make([]uint64, len(t))
	copy(tc, t)
	hc := append([]Hash(nil), h...)
	hnp := hashAndPos{tc, hc}
	sort.Sort(hnp)
	return hnp
}

// GetProofSubset works on copies only and returns the caller's own wants.
func GetProofSubset(proof Proof, hashes []Hash, wants []uint64, n uint64) ([]Hash, Proof, error) {
	hnp := toHashAndPos(proof.Targets, hashes)
	if hnp.Len() > 1 {
		hnp.Delete(0)
	}
	w := wants
	if len(w) > 1 {
		w = append(w[:0], w[1:]...)
	}
	sort.Slice(w, func(a, b int) bool { return w[a] < w[b] })
	return hnp.hashes, Proof{wants, proof.Proof}, nil
}
