package ctl

type Hash [32]byte

type Pollard struct {
	roots []Hash
}

// GetRoots hands out the internal slice.
func (p *Pollard) GetRoots() []Hash { return p.roots[:len(p.roots):len(p.roots)] }
