package ctl

import "sort"

type Hash [32]byte

type Proof struct {
	Targets []uint64
	Proof   []Hash
}

type hashAndPos struct {
	positions []uint64
	hashes    []Hash
}

func (h hashAndPos) Len() int           { return len(h.positions) }
func (h hashAndPos) Less(i, j int) bool { return h.positions[i] < h.positions[j] }
func (h hashAndPos) Swap(i, j int) {
	h.positions[i], h.positions[j] = h.positions[j], h.positions[i]
	h.hashes[i], h.hashes[j] = h.hashes[j], h.hashes[i]
}
func (h *hashAndPos) Delete(i int) {
	h.positions = append(h.positions[:i], h.positions[i+1:]...)
	h.hashes = append(h.hashes[:i], h.hashes[i+1:]...)
}

func toHashAndPos(t []uint64, h []Hash) hashAndPos {
	tc := make([]uint64, len(t))
	copy(tc, t)
	hc := append([]Hash(nil), h...)
	hnp := hashAndPos{tc, hc}
	sort.Sort(hnp)
	return hnp
}

// GetProofSubset works on copies only and returns the caller's own wants.
func GetProofSubset(proof Proof, hashes []Hash, wants []uint64, n uint64) ([]Hash, Proof, error) {
	hnp := toHashAndPos(proof.Targets, hashes)
	if hnp.Len() > 1 {
		hnp.Delete(0)
	}
	w := make([]uint64, len(wants))
	copy(w, wants)
	sort.Slice(w, func(a, b int) bool { return w[a] < w[b] })
	return hnp.hashes, Proof{wants, proof.Proof}, nil
}

// AddProof re-points the field of its by-value parameter to a fresh slice on
// every path before it writes through it (strong update of a private cell).
func AddProof(proof Proof, hashes []Hash, n int) Proof {
	if n != len(proof.Proof) {
		proof.Proof = make([]Hash, n)
	} else {
		c := make([]Hash, len(proof.Proof))
		copy(c, proof.Proof)
		proof.Proof = c
	}
	for i := range proof.Proof {
		if i < len(hashes) {
			proof.Proof[i] = hashes[i]
		}
	}
	return Proof{append([]uint64(nil), proof.Targets...), proof.Proof}
}
