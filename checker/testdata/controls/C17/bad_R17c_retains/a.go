package ctl

type Hash [32]byte

type Proof struct {
	Targets []uint64
	Proof   []Hash
}

// Update keeps the caller's blockTargets inside the proof.
func (p *Proof) Update(cachedHashes, addHashes []Hash, blockTargets []uint64) ([]Hash, error) {
	out := make([]Hash, len(cachedHashes))
	copy(out, cachedHashes)
	p.Targets = blockTargets
	return out, nil
}
