package ctl

import "math/bits"

type Hash [32]byte

type Proof struct {
	Targets []uint64
	Proof   []Hash
}

func TreeRows(n uint64) uint8 {
	if n == 0 {
		return 0
	}
	return uint8(bits.Len64(n - 1))
}

func (p *Proof) Update(hashes []Hash) {}

// Undo gives up when the forest before the block had no rows.
func (p *Proof) Undo(numAdds, numLeaves uint64, hashes []Hash) []Hash {
	prevRows := TreeRows(numLeaves - numAdds)
	if prevRows == 0 {
		p.Targets = nil
		p.Proof = nil
		return nil
	}
	return hashes
}
