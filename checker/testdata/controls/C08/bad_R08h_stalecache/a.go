package ctl

import "sort"

type Hash [32]byte

type hashAndPos struct {
	positions []uint64
	hashes    []Hash
}

func (h hashAndPos) Len() int           { return len(h.positions) }
func (h hashAndPos) Less(i, j int) bool { return h.positions[i] < h.positions[j] }
func (h hashAndPos) Swap(i, j int) {
	h.positions[i], h.positions[j] = h.positions[j], h.positions[i]
	h.hashes[i], h.hashes[j] = h.hashes[j], h.hashes[i]
}

type Proof struct {
	Targets []uint64
	Proof   []Hash
}

func tree(pos uint64) uint8 { return uint8(pos >> 4) }

func (p *Proof) Update(hashes []Hash) {}

// Undo caches the tree of every target by slot and goes on reading the cache
// after the list was sorted inside the loop.
func (p *Proof) Undo(dels []uint64, hashes []Hash) {
	cur := hashAndPos{p.Targets, hashes}
	trees := make([]uint8, cur.Len())
	for i, t := range cur.positions {
		trees[i] = tree(t)
	}
	for _, d := range dels {
		for i, t := range cur.positions {
			if trees[i] != tree(d) {
				continue
			}
			if t > d {
				cur.positions[i] = t - 1
				sort.Sort(cur)
			}
		}
	}
	p.Targets = cur.positions
}
