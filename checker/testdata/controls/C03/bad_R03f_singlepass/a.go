package ctl

import "errors"

type Hash [32]byte

type Proof struct {
	Targets []uint64
	Proof   []Hash
}

type Stump struct {
	Roots     []Hash
	NumLeaves uint64
}

func calc(numLeaves uint64, hashes []Hash, proof Proof) ([]uint64, []Hash, error) {
	if len(proof.Proof) < len(hashes) {
		return nil, nil, errors.New("proof too short")
	}
	for _, t := range proof.Targets {
		if t > maxPos(numLeaves) {
			return nil, nil, errors.New("position does not exist")
		}
	}
	out := make([]Hash, 0, len(hashes))
	for i := range hashes {
		h := hashes[i]
		var sib Hash
		if i%2 == 1 {
			sib = hashes[i-1]
		} else {
			if len(proof.Proof) <= i {
				return nil, nil, errors.New("proof too short")
			}
			sib = proof.Proof[i]
		}
		out = append(out, next(uint64(i), h, sib))
	}
	return proof.Targets, out, nil
}

func next(pos uint64, a, b Hash) Hash {
	if a == empty {
		return b
	}
	if b == empty {
		return a
	}
	a[0] ^= b[0]
	return a
}



func maxPos(numLeaves uint64) uint64 { return 2 * numLeaves }

var empty Hash

func checkNoEmpty(delHashes []Hash, proof Proof) error {
	// one pass over both lists: the proof hashes behind the number of targets are never looked at
	for i, h := range delHashes {
		if h == empty {
			return errors.New("empty hash")
		}
		if i < len(proof.Proof) && proof.Proof[i] == empty {
			return errors.New("empty proof hash")
		}
	}
	return nil
}

func Verify(stump Stump, delHashes []Hash, proof Proof) ([]int, error) {
	if len(delHashes) != len(proof.Targets) { return nil, errors.New("length mismatch") }
	if err := checkNoEmpty(delHashes, proof); err != nil {
		return nil, err
	}
	positions, cands, err := calc(stump.NumLeaves, delHashes, proof)
	if err != nil {
		return nil, err
	}
	if len(positions) != len(cands) {
		return nil, errors.New("positions")
	}
	idx := make([]int, 0, len(cands))
	for i := range stump.Roots {
		if len(cands) > len(idx) && positions[len(idx)] == uint64(len(stump.Roots)-(i+1)) && stump.Roots[len(stump.Roots)-(i+1)] == cands[len(idx)] {
			idx = append(idx, len(stump.Roots)-(i+1))
		}
	}
	if len(cands) != len(idx) { return nil, errors.New("unmatched") }
	return idx, nil
}

func (s *Stump) Update(delHashes []Hash, proof Proof) error {
	if err := s.del(delHashes, proof); err != nil { return err }
	s.NumLeaves++
	return nil
}

func (s *Stump) del(delHashes []Hash, proof Proof) error {
	idx, err := Verify(*s, delHashes, proof)
	if err != nil {
		return err
	}
	for _, i := range idx {
		s.Roots[i] = Hash{}
	}
	return nil
}
