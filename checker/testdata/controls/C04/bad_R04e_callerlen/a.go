package ctl

import "errors"

type Hash [32]byte

type Proof struct {
	Targets []uint64
	Proof   []Hash
}

type Stump struct {
	Roots     []Hash
	NumLeaves uint64
}

func calc(numLeaves uint64, hashes []Hash, proof Proof) ([]uint64, []Hash, error) {
	if len(proof.Proof) < len(hashes) {
		return nil, nil, errors.New("proof too short")
	}
	out := make([]Hash, 0, len(hashes))
	for i := range hashes {
		h := hashes[i]
		h[0] ^= proof.Proof[i][0]
		out = append(out, h)
	}
	return proof.Targets, out, nil
}



func Verify(stump Stump, delHashes []Hash, proof Proof) ([]int, error) {
	if len(delHashes) != len(proof.Targets) { return nil, errors.New("length mismatch") }
	_, cands, err := calc(stump.NumLeaves, delHashes, proof)
	if err != nil {
		return nil, err
	}
	idx := make([]int, 0, len(cands))
	for i := range stump.Roots {
		if len(cands) > len(idx) && stump.Roots[len(stump.Roots)-(i+1)] == cands[len(idx)] {
			idx = append(idx, len(stump.Roots)-(i+1))
		}
	}
	if len(cands) != len(idx) { return nil, errors.New("unmatched") }
	return idx, nil
}

func (s *Stump) Update(delHashes []Hash, proof Proof) error {
	if err := s.del(delHashes, proof); err != nil { return err }
	s.NumLeaves++
	return nil
}

func (s *Stump) del(delHashes []Hash, proof Proof) error {
	idx, err := Verify(*s, delHashes, proof)
	if err != nil {
		return err
	}
	if err := store(map[uint64]Hash{}, *s, delHashes, proof); err != nil {
		return err
	}
	for _, i := range idx {
		s.Roots[i] = Hash{}
	}
	return nil
}

func positions(n uint64, targets []uint64) []uint64 {
	out := make([]uint64, 0, len(targets))
	for _, t := range targets {
		out = append(out, t^1)
	}
	return out
}

// store runs behind Verify: the computed list bounds the loop, the caller's proof is indexed.
func store(m map[uint64]Hash, stump Stump, delHashes []Hash, proof Proof) error {
	pos := positions(stump.NumLeaves, proof.Targets)
	if len(proof.Proof) < len(pos) {
		return errors.New("proof too short")
	}
	for i, h := range proof.Proof {
		m[pos[i]] = h
	}
	return nil
}
