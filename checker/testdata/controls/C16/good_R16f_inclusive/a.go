package ctl

import "errors"

func maxPositionAtRow(row, forestRows uint8, numLeaves uint64) (uint64, error) {
	if row > forestRows {
		return 0, errors.New("row")
	}
	max := numLeaves >> row
	if max != 0 {
		max--
	}
	return max, nil
}

func maxPossiblePosAtRow(row, totalRows uint8) uint64 {
	mask := uint64(2<<totalRows) - 1
	return ((mask << (totalRows - row)) & mask) - 1
}

func moveRow(start uint64, row, rows uint8, numLeaves uint64, visit func(uint64)) error {
	maxPos, err := maxPositionAtRow(row, rows, numLeaves)
	if err != nil {
		return err
	}
	for i := start; i <= maxPos; i++ {
		visit(i)
	}
	// an exclusive bound written as such is a different expression
	for i := start; i < maxPos+1; i++ {
		visit(i)
	}
	return nil
}

func rowOf(pos uint64, rows uint8, numLeaves uint64) (uint8, bool) {
	row := uint8(0)
	maxPos, _ := maxPositionAtRow(row, rows, numLeaves)
	for pos > maxPos {
		row++
		if row > rows {
			return 0, false
		}
		maxPos, _ = maxPositionAtRow(row, rows, numLeaves)
	}
	if maxPossiblePosAtRow(row, rows) < pos {
		return 0, false
	}
	return row, true
}
