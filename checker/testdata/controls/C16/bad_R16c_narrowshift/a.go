package ctl

import "math/bits"

func TreeRows(n uint64) uint8 {
	if n == 0 {
		return 0
	}
	return uint8(bits.Len64(n - 1))
}

func Parent(position uint64, forestRows uint8) uint64 {
	return (position >> 1) | (1 << forestRows)
}

func isRoot(pos, numLeaves uint64, rows uint8) bool { return pos == numLeaves<<1 }

func ProofPositions(origTargets []uint64, numLeaves uint64, totalRows uint8) ([]uint64, []uint64) {
	targets := make([]uint64, len(origTargets))
	copy(targets, origTargets)
	var next, proof []uint64
	if len(origTargets) > int(numLeaves) && TreeRows(numLeaves) > 0 {
		return nil, nil
	}
	var pending uint32
	for row := uint8(0); row <= totalRows; row++ {
		for i := 0; i < len(targets); i++ {
			t := targets[i]
			if isRoot(t, numLeaves, totalRows) {
				continue
			}
			proof = append(proof, t^1)
			pending |= 1 << (row + 1)
			targets[i] = Parent(t, totalRows)
			next = append(next, targets[i])
		}
	}
	_ = pending
	return proof, next
}
