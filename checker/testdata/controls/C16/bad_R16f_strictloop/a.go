package ctl

import "errors"

func maxPositionAtRow(row, forestRows uint8, numLeaves uint64) (uint64, error) {
	if row > forestRows {
		return 0, errors.New("row")
	}
	max := numLeaves >> row
	if max != 0 {
		max--
	}
	return max, nil
}

// moveRow visits the positions of a row but leaves out the last one.
func moveRow(start uint64, row, rows uint8, numLeaves uint64, visit func(uint64)) error {
	maxPos, err := maxPositionAtRow(row, rows, numLeaves)
	if err != nil {
		return err
	}
	for i := start; i < maxPos; i++ {
		visit(i)
	}
	return nil
}
