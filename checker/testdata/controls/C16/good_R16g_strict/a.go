package ctl

type Hash [32]byte

type index interface {
	ForEach(func(Hash, uint64) error) error
	Put(Hash, uint64)
}

func translatePos(pos uint64, from, to uint8) uint64 {
	if pos < 1<<from {
		return pos
	}
	return pos + (1 << to) - (1 << from)
}

func regrow(ix index, rows, next uint8) {
	ix.ForEach(func(k Hash, v uint64) error {
		if v < 1<<rows {
			return nil
		}
		ix.Put(k, translatePos(v, rows, next))
		return nil
	})
}

// a leaf count may equal the capacity of row 0
func fits(numLeaves uint64, rows uint8) bool { return numLeaves <= 1<<rows }
