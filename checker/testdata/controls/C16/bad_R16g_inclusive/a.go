package ctl

type Hash [32]byte

type index interface {
	ForEach(func(Hash, uint64) error) error
	Put(Hash, uint64)
}

func translatePos(pos uint64, from, to uint8) uint64 {
	if pos < 1<<from {
		return pos
	}
	return pos + (1 << to) - (1 << from)
}

// regrow skips "row 0" entries with an inclusive test.
func regrow(ix index, rows, next uint8) {
	ix.ForEach(func(k Hash, v uint64) error {
		if v <= 1<<rows {
			return nil
		}
		ix.Put(k, translatePos(v, rows, next))
		return nil
	})
}
