package ctl

import "io"

type T struct {
	N     uint64
	Items map[uint64]bool
}

func Restore(r io.Reader) (int, *T, error) {
	total := 0
	var buf [8]byte
	n, err := io.ReadFull(r, buf[:])
	if err != nil {
		return total, nil, err
	}
	total += n
	t := &T{N: uint64(buf[0]), Items: map[uint64]bool{}}
	for i := uint64(0); i < t.N; i++ {
		n, err := io.ReadFull(r, buf[:])
		if err != nil {
			if err == io.EOF {
				break // stream ended early: accepted silently, nothing checks t afterwards
			}
			return total, nil, err
		}
		total += n
		t.Items[uint64(buf[0])] = true
	}
	return total, t, nil
}
