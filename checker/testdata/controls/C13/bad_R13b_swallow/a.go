package ctl

import "io"

type T struct{ N uint64 }

func (t *T) WriteTo(w io.Writer) (int, error) {
	total := 0
	var buf [8]byte
	n, err := w.Write(buf[:])
	if err != nil {
		return total, nil // failure reported as success
	}
	total += n
	return total, nil
}
