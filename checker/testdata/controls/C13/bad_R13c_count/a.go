package ctl

import "io"

type T struct{ N uint64 }

func (t *T) WriteTo(w io.Writer) (int, error) {
	total := 0
	var buf [8]byte
	n, err := w.Write(buf[:])
	if err != nil {
		return total, err
	}
	total += n
	n, err = w.Write(buf[:4])
	if err != nil {
		return total, err
	}
	// second count forgotten
	n, err = w.Write(buf[:2])
	if err != nil {
		return total, err
	}
	total += n
	return total, nil
}
