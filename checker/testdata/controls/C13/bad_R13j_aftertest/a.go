package ctl

import (
	"errors"
	"fmt"
	"io"
)

type Store interface {
	ForEach(func(uint64) error) error
	Len() int
}

type T struct {
	N     uint64
	Items map[uint64]bool
	S     Store
}

func (t *T) WriteTo(w io.Writer) (int64, error) {
	total := int64(0)
	var buf [8]byte
	n, err := w.Write(buf[:])
	total += int64(n) // accumulate before the check
	if err != nil {
		return total, fmt.Errorf("header: %w", err)
	}
	err = t.S.ForEach(func(k uint64) error {
		buf[0] = byte(k)
		buf[1] = 0
		if k&1 == 1 {
			buf[1] = 1
		}
		if k&2 == 2 {
			buf[2] = 7
		} else {
			buf[2] = 9
		}
		m, err := w.Write(buf[:3])
		if err != nil {
			return err
		}
		total = total + int64(m)
		return nil
	})
	if err != nil {
		return total, err
	}
	sub, err := writeTail(w)
	if err != nil {
		return total, err
	}
	total += sub
	return total, nil
}

func writeTail(w io.Writer) (int64, error) {
	n, err := w.Write([]byte{0})
	return int64(n), err
}

func Restore(r io.Reader) (int, *T, error) {
	total := 0
	var buf [8]byte
	n, err := io.ReadFull(r, buf[:])
	if err != nil {
		return total, nil, err
	}
	total += n
	t := &T{N: uint64(buf[0]), Items: map[uint64]bool{}}
	for i := uint64(0); i < t.N; i++ {
		n, err := io.ReadFull(r, buf[:1])
		if err != nil {
			if err == io.EOF {
				err = io.ErrUnexpectedEOF
			}
			return total, nil, err
		}
		total += n
		t.Items[uint64(buf[0])] = true
	}
	if uint64(len(t.Items)) != t.N {
		return total, nil, errors.New("item count mismatch")
	}
	return total, t, nil
}

func (t *T) WriteItems(w io.Writer) (int, error) {
	total := 0
	var rec [9]byte
	for k, v := range t.Items {
		rec[0] = byte(k)
		rec[8] = 0
		if v {
			rec[8] = 1
		}
		n, err := w.Write(rec[:])
		if err != nil {
			return total, err
		}
		total += n
	}
	return total, nil
}
