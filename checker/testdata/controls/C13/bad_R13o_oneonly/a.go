package ctl

import (
	"encoding/binary"
	"io"
)

type Hash [32]byte

type Leaf struct {
	Hash     Hash
	Remember bool
}

type NodesInterface interface {
	Get(uint64) (Leaf, bool)
	Put(uint64, Leaf)
	Delete(uint64)
	ForEach(func(uint64, Leaf) error) error
}

type CachedLeavesInterface interface {
	Get(Hash) (uint64, bool)
	Put(Hash, uint64)
	Delete(Hash)
	ForEach(func(Hash, uint64) error) error
}

type MapPollard struct {
	Nodes        NodesInterface
	CachedLeaves CachedLeavesInterface
	NumLeaves    uint64
}

func (m *MapPollard) clearNodes() error {
	var ks []uint64
	err := m.Nodes.ForEach(func(k uint64, _ Leaf) error { ks = append(ks, k); return nil })
	if err != nil {
		return err
	}
	for _, k := range ks {
		m.Nodes.Delete(k)
	}
	return nil
}

func (m *MapPollard) clearLeaves() error {
	var ks []Hash
	err := m.CachedLeaves.ForEach(func(k Hash, _ uint64) error { ks = append(ks, k); return nil })
	if err != nil {
		return err
	}
	for _, k := range ks {
		m.CachedLeaves.Delete(k)
	}
	return nil
}

func (m *MapPollard) body(r io.Reader) (int, error) {
	total := 0
	var buf [8]byte
	n, err := io.ReadFull(r, buf[:])
	total += n
	if err != nil {
		return total, err
	}
	return total, nil
}

// Read empties the node store but forgets the leaf index.
func (m *MapPollard) Read(r io.Reader) (int, error) {
	if err := m.clearNodes(); err != nil {
		return 0, err
	}
	total := 0
	var buf [8]byte
	n, err := io.ReadFull(r, buf[:])
	total += n
	if err != nil {
		return total, err
	}
	cnt := binary.LittleEndian.Uint64(buf[:])
	m.NumLeaves = cnt
	for i := uint64(0); i < cnt; i++ {
		var h Hash
		n, err = io.ReadFull(r, h[:])
		total += n
		if err != nil {
			return total, err
		}
		m.CachedLeaves.Put(h, i)
		m.Nodes.Put(i, Leaf{Hash: h})
	}
	return total, nil
}
