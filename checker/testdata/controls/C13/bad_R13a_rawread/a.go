package ctl

import "io"

type T struct{ N uint64 }

func Restore(r io.Reader) (int, *T, error) {
	var buf [8]byte
	n, err := r.Read(buf[:]) // short reads are legal
	if err != nil {
		return n, nil, err
	}
	t := &T{N: uint64(buf[0])}
	if t.N > 100 {
		return n, nil, io.ErrUnexpectedEOF
	}
	return n, t, nil
}
