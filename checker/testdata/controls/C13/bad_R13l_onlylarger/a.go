package ctl

import (
	"encoding/binary"
	"io"
)

type Hash [32]byte

var empty Hash

type Leaf struct {
	Hash     Hash
	Remember bool
}

type NodesInterface interface {
	Get(uint64) (Leaf, bool)
	Put(uint64, Leaf)
	Delete(uint64)
}

type CachedLeavesInterface interface {
	Get(Hash) (uint64, bool)
	Put(Hash, uint64)
}

type nodesMap map[uint64]Leaf

func (m nodesMap) Get(k uint64) (Leaf, bool) { v, ok := m[k]; return v, ok }
func (m nodesMap) Put(k uint64, v Leaf)      { m[k] = v }
func (m nodesMap) Delete(k uint64)           { delete(m, k) }

type cachedMap map[Hash]uint64

func (m cachedMap) Get(k Hash) (uint64, bool) { v, ok := m[k]; return v, ok }
func (m cachedMap) Put(k Hash, v uint64)      { m[k] = v }

type MapPollard struct {
	Nodes        NodesInterface
	CachedLeaves CachedLeavesInterface
	NumLeaves    uint64
	TotalRows    uint8
	Full         bool
}

func RootPositions(numLeaves uint64, rows uint8) []uint64 {
	var out []uint64
	for r := int(rows); r >= 0; r-- {
		if numLeaves&(1<<uint(r)) != 0 {
			out = append(out, uint64(r))
		}
	}
	return out
}

// Read keeps the receiver's row count when the stream's is smaller.
func (m *MapPollard) Read(r io.Reader) (int, error) {
	total := 0
	var buf [8]byte
	n, err := io.ReadFull(r, buf[:1])
	total += n
	if err != nil {
		return total, err
	}
	if buf[0] > m.TotalRows {
		m.TotalRows = buf[0]
	}
	n, err = io.ReadFull(r, buf[:])
	total += n
	if err != nil {
		return total, err
	}
	m.NumLeaves = binary.LittleEndian.Uint64(buf[:])
	if _, ok := m.Nodes.Get(0); !ok && m.NumLeaves > 0 {
		return total, io.ErrUnexpectedEOF
	}
	return total, nil
}
