package ctl

type T struct {
	items []int
	sum   int64 // memo of Sum; 0 means "compute again"
}

// Sum returns the memoized value when it is set.
func (t *T) Sum() int64 {
	if t.sum != 0 {
		return t.sum
	}
	var s int64
	for _, x := range t.items {
		s += int64(x)
	}
	t.sum = s
	return s
}

func (t *T) Add(x int) {
	t.sum = 0
	t.items = append(t.items, x)
}

func (t *T) Undo() {
	t.reset()
	t.items = t.items[:len(t.items)-1]
}

func (t *T) reset() { t.sum = 0 }

// Len does not change the struct.
func (t *T) Len() int { return len(t.items) }
