package ctl

import "sort"

type Hash [32]byte

type Proof struct {
	Targets []uint64
	Proof   []Hash
}

type hashAndPos struct {
	positions []uint64
	hashes    []Hash
}

func (h hashAndPos) Len() int           { return len(h.positions) }
func (h hashAndPos) Less(i, j int) bool { return h.positions[i] < h.positions[j] }
func (h hashAndPos) Swap(i, j int) {
	h.positions[i], h.positions[j] = h.positions[j], h.positions[i]
	h.hashes[i], h.hashes[j] = h.hashes[j], h.hashes[i]
}

func (h *hashAndPos) AppendMany(positions []uint64, hashes []Hash) {
	h.positions = append(h.positions, positions...)
	h.hashes = append(h.hashes, hashes...)
}

func toHashAndPos(t []uint64, h []Hash) hashAndPos {
	hnp := hashAndPos{append([]uint64(nil), t...), append([]Hash(nil), h...)}
	sort.Sort(hnp)
	return hnp
}

func mergeSorted(a, b []uint64) []uint64 {
	var c []uint64
	i, j := 0, 0
	for i < len(a) && j < len(b) {
		switch {
		case a[i] < b[j]:
			c = append(c, a[i])
			i++
		case a[i] > b[j]:
			c = append(c, b[j])
			j++
		default:
			c = append(c, a[i])
			i++
			j++
		}
	}
	c = append(c, a[i:]...)
	return append(c, b[j:]...)
}

// AddProof: the target hashes are sorted in one go after putting B's behind A's.
func AddProof(proofA, proofB Proof, targetHashesA, targetHashesB []Hash, numLeaves uint64) ([]Hash, Proof) {
	targets := mergeSorted(proofA.Targets, proofB.Targets)
	c := toHashAndPos(proofA.Targets, targetHashesA)
	c.AppendMany(proofB.Targets, targetHashesB)
	sort.Sort(c)
	return c.hashes, Proof{targets, nil}
}
