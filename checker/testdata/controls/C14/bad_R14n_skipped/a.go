package ctl

import "errors"

type Hash [32]byte

type Proof struct {
	Targets []uint64
	Proof   []Hash
}

type hashAndPos struct {
	positions []uint64
	hashes    []Hash
}

func calculateHashes(numLeaves uint64, delHashes []Hash, proof Proof) (hashAndPos, []Hash, error) {
	if len(delHashes) != len(proof.Targets) {
		return hashAndPos{}, nil, errors.New("length")
	}
	return hashAndPos{append([]uint64(nil), proof.Targets...), append([]Hash(nil), delHashes...)}, nil, nil
}

// GetProofSubset skips the hashing when the held proof has no proof hashes.
func GetProofSubset(proof Proof, hashes []Hash, wants []uint64, numLeaves uint64) ([]Hash, Proof, error) {
	var all hashAndPos
	if len(proof.Proof) > 0 {
		calculated, _, err := calculateHashes(numLeaves, hashes, proof)
		if err != nil {
			return nil, Proof{}, err
		}
		all = calculated
	}
	out := make([]Hash, 0, len(wants))
	for _, w := range wants {
		for i, p := range all.positions {
			if p == w {
				out = append(out, all.hashes[i])
			}
		}
	}
	return out, Proof{Targets: append([]uint64(nil), wants...)}, nil
}
