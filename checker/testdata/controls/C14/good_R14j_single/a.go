package ctl

import "sort"

func Parent(position uint64, forestRows uint8) uint64 {
	return (position >> 1) | (1 << forestRows)
}

func isRoot(pos, numLeaves uint64, rows uint8) bool { return pos == numLeaves<<1 }

func proofPosition(target uint64, numLeaves uint64, totalRows uint8) []uint64 {
	proofs := make([]uint64, 0, totalRows+1)
	pos := target
	for h := uint8(0); h <= totalRows; h++ {
		if isRoot(pos, numLeaves, totalRows) {
			break
		}
		proofs = append(proofs, pos^1)
		pos = Parent(pos, totalRows)
	}
	return proofs
}

// Missing asks for the proof of its one target.
func Missing(targets []uint64, numLeaves uint64, rows uint8) []uint64 {
	if len(targets) == 1 {
		return proofPosition(targets[0], numLeaves, rows)
	}
	return nil
}

var _ = sort.Ints
