package ctl

import "sort"

type Hash [32]byte

type Proof struct {
	Targets []uint64
	Proof   []Hash
}

func joinSorted(a, b []uint64) []uint64 {
	out := make([]uint64, len(a)+len(b))
	copy(out, a)
	copy(out[len(a):], b)
	sort.Slice(out, func(i, j int) bool { return out[i] < out[j] })
	return out
}

func joinAll(a, b []uint64) []uint64 {
	out := append([]uint64(nil), a...)
	out = append(out, b...)
	sort.Slice(out, func(i, j int) bool { return out[i] < out[j] })
	return out
}

// AddProof: the union of the targets is built by a helper that concatenates.
func AddProof(proofA, proofB Proof, targetHashesA, targetHashesB []Hash, numLeaves uint64) ([]Hash, Proof) {
	targets := joinAll(proofA.Targets, proofB.Targets)
	return nil, Proof{targets, nil}
}
