package ctl

import "sort"

func Parent(position uint64, forestRows uint8) uint64 {
	return (position >> 1) | (1 << forestRows)
}

func isRoot(pos, numLeaves uint64, rows uint8) bool { return pos == numLeaves<<1 }

func proofPosition(target uint64, numLeaves uint64, totalRows uint8) []uint64 {
	proofs := make([]uint64, 0, totalRows+1)
	pos := target
	for h := uint8(0); h <= totalRows; h++ {
		if isRoot(pos, numLeaves, totalRows) {
			break
		}
		proofs = append(proofs, pos^1)
		pos = Parent(pos, totalRows)
	}
	return proofs
}

// Missing collects the single proofs of all targets.
func Missing(targets []uint64, numLeaves uint64, rows uint8) []uint64 {
	var out []uint64
	for _, t := range targets {
		out = append(out, proofPosition(t, numLeaves, rows)...)
	}
	sort.Slice(out, func(a, b int) bool { return out[a] < out[b] })
	return out
}
