package ctl

type Hash [32]byte

type Proof struct {
	Targets []uint64
	Proof   []Hash
}

// union by a hand-written merge: elements are appended one at a time and an
// entry both lists have is taken once; the tails are of one list only.
func union(a, b []uint64) []uint64 {
	var c []uint64
	i, j := 0, 0
	for i < len(a) && j < len(b) {
		switch {
		case a[i] < b[j]:
			c = append(c, a[i])
			i++
		case a[i] > b[j]:
			c = append(c, b[j])
			j++
		default:
			c = append(c, a[i])
			i++
			j++
		}
	}
	for ; i < len(a); i++ {
		c = append(c, a[i])
	}
	for ; j < len(b); j++ {
		c = append(c, b[j])
	}
	return c
}

func unionHashes(ta, tb []uint64, ha, hb []Hash) []Hash {
	var c []Hash
	i, j := 0, 0
	for i < len(ta) || j < len(tb) {
		switch {
		case j >= len(tb) || (i < len(ta) && ta[i] < tb[j]):
			c = append(c, ha[i])
			i++
		case i >= len(ta) || ta[i] > tb[j]:
			c = append(c, hb[j])
			j++
		default:
			c = append(c, ha[i])
			i++
			j++
		}
	}
	return c
}

func AddProof(proofA, proofB Proof, targetHashesA, targetHashesB []Hash, numLeaves uint64) ([]Hash, Proof) {
	var targets []uint64
	if len(proofB.Targets) == 0 {
		targets = append([]uint64(nil), proofA.Targets...)
	} else {
		targets = union(proofA.Targets, proofB.Targets)
	}
	return unionHashes(proofA.Targets, proofB.Targets, targetHashesA, targetHashesB), Proof{targets, nil}
}
