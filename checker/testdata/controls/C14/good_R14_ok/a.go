// Package ctl is a miniature of the proof algebra used as a control for the
// order-class / layout engine (E7). Names follow the repository because the
// engine's tables (order contracts, requires-sorted functions) are keyed by them.
package ctl

import (
	"errors"
	"sort"
)

type Hash [32]byte

type Proof struct {
	Targets []uint64
	Proof   []Hash
}

type hashAndPos struct {
	positions []uint64
	hashes    []Hash
}

func (h hashAndPos) Len() int           { return len(h.positions) }
func (h hashAndPos) Less(i, j int) bool { return h.positions[i] < h.positions[j] }
func (h hashAndPos) Swap(i, j int) {
	h.positions[i], h.positions[j] = h.positions[j], h.positions[i]
	h.hashes[i], h.hashes[j] = h.hashes[j], h.hashes[i]
}

func toHashAndPos(origTargets []uint64, origHashes []Hash) hashAndPos {
	t := make([]uint64, len(origTargets))
	copy(t, origTargets)
	h := make([]Hash, len(origHashes))
	copy(h, origHashes)
	hnp := hashAndPos{t, h}
	sort.Sort(hnp)
	return hnp
}

func uint64Cmp(a, b uint64) int {
	if a < b {
		return -1
	} else if a > b {
		return 1
	}
	return 0
}

func copySortedFunc(s []uint64, cmp func(a, b uint64) int) []uint64 {
	c := make([]uint64, len(s))
	copy(c, s)
	sort.Slice(c, func(a, b int) bool { return c[a] < c[b] })
	return c
}

func TreeRows(n uint64) uint8 {
	var r uint8
	for (uint64(1) << r) < n {
		r++
	}
	return r
}

func translatePos(pos uint64, from, to uint8) uint64 { return pos + uint64(to) - uint64(from) }

func translatePositions(positions []uint64, from, to uint8) []uint64 {
	out := make([]uint64, len(positions))
	for i := range positions {
		out[i] = translatePos(positions[i], from, to)
	}
	return out
}

// ProofPositions: targets MUST be sorted.
func ProofPositions(targets []uint64, numLeaves uint64, rows uint8) ([]uint64, []uint64) {
	out := make([]uint64, 0, len(targets))
	for _, t := range targets {
		out = append(out, t^1)
	}
	return out, nil
}

func subtractSortedSlice(a, b []uint64, cmp func(a, b uint64) int) []uint64 { return a }

func getHashAndPosSubset(a hashAndPos, b []uint64) hashAndPos { return a }

func mergeSortedHashAndPos(a, b hashAndPos) hashAndPos { return a }

func calculateHashes(numLeaves uint64, delHashes []Hash, proof Proof) (hashAndPos, []Hash, error) {
	toProve := toHashAndPos(proof.Targets, delHashes)
	if len(proof.Proof) < toProve.Len() {
		return hashAndPos{}, nil, errors.New("proof too short")
	}
	return toProve, toProve.hashes, nil
}

func indexOf(s []uint64, v uint64) int {
	for i := range s {
		if s[i] == v {
			return i
		}
	}
	return 0
}

// GetProofSubset returns hashes and targets in the order of wants.
func GetProofSubset(proof Proof, hashes []Hash, wants []uint64, numLeaves uint64) ([]Hash, Proof, error) {
	proofTargetsCopy := copySortedFunc(proof.Targets, uint64Cmp)
	expectedEmpty := copySortedFunc(wants, uint64Cmp)
	expectedEmpty = subtractSortedSlice(expectedEmpty, proofTargetsCopy, uint64Cmp)
	if len(expectedEmpty) > 0 {
		return nil, Proof{}, errors.New("missing")
	}
	targetHashesWithPos := toHashAndPos(proof.Targets, hashes)
	calculated, _, err := calculateHashes(numLeaves, hashes, proof)
	if err != nil {
		return nil, Proof{}, err
	}
	sort.Sort(calculated)
	positions, _ := ProofPositions(proofTargetsCopy, numLeaves, TreeRows(numLeaves))
	proofPos := toHashAndPos(positions, proof.Proof)
	proofPos = mergeSortedHashAndPos(calculated, proofPos)
	sortedWants := copySortedFunc(wants, uint64Cmp)
	targetHashesWithPos = getHashAndPosSubset(targetHashesWithPos, sortedWants)
	retHashes := make([]Hash, len(wants))
	for i, want := range wants {
		retHashes[i] = targetHashesWithPos.hashes[indexOf(targetHashesWithPos.positions, want)]
	}
	return retHashes, Proof{wants, proofPos.hashes}, nil
}

// AddProof merges two proofs.
func AddProof(proofA, proofB Proof, targetHashesA, targetHashesB []Hash, numLeaves uint64) ([]Hash, Proof) {
	rows := TreeRows(numLeaves)
	targetsA := copySortedFunc(proofA.Targets, uint64Cmp)
	posA, _ := ProofPositions(targetsA, numLeaves, rows)
	a := hashAndPos{posA, proofA.Proof}
	targetsB := copySortedFunc(proofB.Targets, uint64Cmp)
	posB, _ := ProofPositions(targetsB, numLeaves, rows)
	b := hashAndPos{posB, proofB.Proof}
	c := mergeSortedHashAndPos(a, b)
	ha := toHashAndPos(proofA.Targets, targetHashesA)
	hb := toHashAndPos(proofB.Targets, targetHashesB)
	hc := mergeSortedHashAndPos(ha, hb)
	return hc.hashes, Proof{hc.positions, c.hashes}
}

// ----- a map forest with two layouts

type Leaf struct {
	Hash     Hash
	Remember bool
}

type NodesInterface interface {
	Get(uint64) (Leaf, bool)
	Put(uint64, Leaf)
	Delete(uint64)
}

type CachedLeavesInterface interface {
	Get(Hash) (uint64, bool)
	Put(Hash, uint64)
	Delete(Hash)
}

type MapPollard struct {
	Nodes        NodesInterface
	CachedLeaves CachedLeavesInterface
	NumLeaves    uint64
	TotalRows    uint8
}

func (m *MapPollard) trimProofPos(proofPos []uint64, numLeaves uint64) []uint64 {
	i := 0
	for ; i < len(proofPos); i++ {
		if proofPos[i] > numLeaves*2 {
			break
		}
	}
	return proofPos[:i]
}

func (m *MapPollard) Ingest(delHashes []Hash, proof Proof) error {
	hnp := toHashAndPos(proof.Targets, delHashes)
	if m.TotalRows != TreeRows(m.NumLeaves) {
		hnp.positions = translatePositions(hnp.positions, TreeRows(m.NumLeaves), m.TotalRows)
		sort.Sort(hnp)
	}
	proofPos, _ := ProofPositions(hnp.positions, m.NumLeaves, m.TotalRows)
	if TreeRows(m.NumLeaves) != m.TotalRows && len(proofPos) != len(proof.Proof) {
		proofPos = translatePositions(proofPos, m.TotalRows, TreeRows(m.NumLeaves))
		proofPos = m.trimProofPos(proofPos, m.NumLeaves)
		proofPos = translatePositions(proofPos, TreeRows(m.NumLeaves), m.TotalRows)
	}
	for i, pos := range proofPos {
		if _, found := m.Nodes.Get(pos); !found {
			m.Nodes.Put(pos, Leaf{Hash: proof.Proof[i]})
		}
	}
	return nil
}

// Prove returns the targets in request order and in the tree layout.
func (m *MapPollard) Prove(proveHashes []Hash) (Proof, error) {
	origTargets := make([]uint64, len(proveHashes))
	for i := range origTargets {
		v, _ := m.CachedLeaves.Get(proveHashes[i])
		origTargets[i] = v
	}
	targets := copySortedFunc(origTargets, uint64Cmp)
	proofPos, _ := ProofPositions(targets, m.NumLeaves, m.TotalRows)
	hashes := make([]Hash, 0, len(proofPos))
	for i := range proofPos {
		node, ok := m.Nodes.Get(proofPos[i])
		if !ok {
			return Proof{}, errors.New("not cached")
		}
		hashes = append(hashes, node.Hash)
	}
	if m.TotalRows != TreeRows(m.NumLeaves) {
		for i := range origTargets {
			origTargets[i] = translatePos(origTargets[i], m.TotalRows, TreeRows(m.NumLeaves))
		}
	}
	return Proof{Targets: origTargets, Proof: hashes}, nil
}
