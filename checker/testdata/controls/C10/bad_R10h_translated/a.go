package ctl

type Hash [32]byte

type polNode struct {
	data           Hash
	lNiece, rNiece *polNode
}

type Pollard struct {
	Roots     []*polNode
	NumLeaves uint64
}

func TreeRows(n uint64) uint8 {
	r := uint8(0)
	for (uint64(1) << r) < n {
		r++
	}
	return r
}

func inForest(pos, numLeaves uint64, forestRows uint8) bool {
	if pos < numLeaves {
		return true
	}
	marker := uint64(1) << forestRows
	mask := (marker << 1) - 1
	if pos >= mask {
		return false
	}
	for pos&marker != 0 {
		pos = ((pos << 1) & mask) | 1
	}
	return pos < numLeaves
}

func detect(pos, numLeaves uint64) (uint8, uint8, uint64) { return uint8(pos & 1), 0, pos }

func (p *Pollard) getNode(pos uint64) *polNode {
	if !inForest(pos, p.NumLeaves, TreeRows(p.NumLeaves)) {
		return nil
	}
	tree, branch, bits := detect(pos, p.NumLeaves)
	if int(tree) >= len(p.Roots) {
		return nil
	}
	n := p.Roots[tree]
	for h := int(branch) - 1; h >= 0 && n != nil; h-- {
		if (bits>>uint(h))&1 == 0 {
			n = n.lNiece
		} else {
			n = n.rNiece
		}
	}
	return n
}

func (p *Pollard) GetHash(pos uint64) Hash {
	n := p.getNode(pos)
	if n == nil {
		return Hash{}
	}
	return n.data
}

type miniHash [12]byte

func (h Hash) mini() (m miniHash) {
	copy(m[:], h[:12])
	return
}

type Index struct {
	NodeMap map[miniHash]*polNode
}

func (x *Index) calc(n *polNode) uint64 { return 0 }

func (x *Index) GetLeafPosition(hash Hash) (uint64, bool) {
	n, found := x.NodeMap[hash.mini()]
	if !found || n.data != hash {
		return 0, false
	}
	return x.calc(n), true
}

type Leaf struct {
	Hash     Hash
	Remember bool
}

type NodesInterface interface {
	Get(uint64) (Leaf, bool)
	Put(uint64, Leaf)
	Delete(uint64)
}

type MapForest struct {
	Nodes     NodesInterface
	NumLeaves uint64
	TotalRows uint8
}

func translate(pos uint64, from, to uint8) uint64 {
	if pos>>from == 0 {
		return pos
	}
	return pos - (uint64(1) << from) + (uint64(1) << to)
}

func (m *MapForest) GetHash(pos uint64) Hash {
	if m.TotalRows != TreeRows(m.NumLeaves) {
		pos = translate(pos, TreeRows(m.NumLeaves), m.TotalRows)
	}
	leaf, _ := m.Nodes.Get(pos)
	return leaf.Hash
}
