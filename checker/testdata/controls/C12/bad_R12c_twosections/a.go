package ctl

import "sync"

type Forest struct {
	mu    *sync.RWMutex
	Count uint64
}

func (f *Forest) Block() {
	f.mu.Lock()
	f.Count--
	f.mu.Unlock()
	f.mu.Lock()
	f.Count++
	f.mu.Unlock()
}
