package ctl

import (
	"io"
	"sync"
)

type MapPollard struct {
	rwLock    *sync.RWMutex
	NumLeaves uint64
}

func (m *MapPollard) write(w io.Writer) (int, error) {
	return w.Write([]byte{byte(m.NumLeaves)})
}

// Write releases the read lock with a plain call after running the caller's writer.
func (m *MapPollard) Write(w io.Writer) (int, error) {
	m.rwLock.RLock()
	n, err := m.write(w)
	m.rwLock.RUnlock()
	return n, err
}
