package ctl

import "sync"

type Store interface {
	Get(uint64) (uint64, bool)
	Put(uint64, uint64)
}

type mapStore struct{ m map[uint64]uint64 }

func (s *mapStore) Get(k uint64) (uint64, bool) { v, ok := s.m[k]; return v, ok }
func (s *mapStore) Put(k, v uint64)             { s.m[k] = v }

type Forest struct {
	mu    *sync.RWMutex
	Nodes Store
}

func (f *Forest) Touch(k uint64) {
	f.mu.RLock()
	defer f.mu.RUnlock()
	f.touch(k)
}

func (f *Forest) touch(k uint64) { f.Nodes.Put(k, 1) } // writer method under the read lock
