package ctl

import "sync"

type Store interface {
	Get(uint64) (uint64, bool)
	Put(uint64, uint64)
	ForEach(func(uint64, uint64) error) error
}

type mapStore struct{ m map[uint64]uint64 }

func (s *mapStore) Get(k uint64) (uint64, bool) { v, ok := s.m[k]; return v, ok }
func (s *mapStore) Put(k, v uint64)             { s.m[k] = v }
func (s *mapStore) ForEach(fn func(uint64, uint64) error) error {
	for k, v := range s.m {
		if err := fn(k, v); err != nil {
			return err
		}
	}
	return nil
}

type Forest struct {
	mu    sync.RWMutex
	Count uint64
	Nodes Store
	Full  bool
}

func New(full bool) *Forest {
	f := Forest{Nodes: &mapStore{m: map[uint64]uint64{}}}
	f.Full = full
	return &f
}

func (f *Forest) Add(k uint64) {
	if f.Full { // immutable after construction
		return
	}
	f.mu.Lock()
	f.add(k)
	f.mu.Unlock() // explicit release instead of defer
}

func (f *Forest) add(k uint64) {
	f.Count++
	f.Nodes.Put(k, f.Count)
}

func (f *Forest) Sum() (uint64, error) {
	f.mu.RLock()
	defer f.mu.RUnlock()
	var s uint64
	err := f.Nodes.ForEach(func(k, v uint64) error {
		_, _ = f.Nodes.Get(k)
		s += v + f.Count
		return nil
	})
	return s, err
}
