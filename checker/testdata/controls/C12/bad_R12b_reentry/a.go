package ctl

import "sync"

type Forest struct {
	mu    *sync.RWMutex
	Count uint64
}

func (f *Forest) Get() uint64 {
	f.mu.RLock()
	defer f.mu.RUnlock()
	return f.Count
}

func (f *Forest) Add() uint64 {
	f.mu.Lock()
	defer f.mu.Unlock()
	f.Count++
	return f.Get() // re-entry
}
