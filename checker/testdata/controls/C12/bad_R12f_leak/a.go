package ctl

import "sync"

type Forest struct {
	mu    *sync.RWMutex
	Count uint64
}

func (f *Forest) Add(n uint64) {
	f.mu.Lock()
	if n == 0 {
		return // lock leaked
	}
	f.Count += n
	f.mu.Unlock()
}
