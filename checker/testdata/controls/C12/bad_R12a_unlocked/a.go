package ctl

import "sync"

type Forest struct {
	mu    *sync.RWMutex
	Count uint64
}

func New() Forest { return Forest{mu: new(sync.RWMutex)} }

func (f *Forest) Add() {
	f.mu.Lock()
	defer f.mu.Unlock()
	f.Count++
}

// Count is read without the lock.
func (f *Forest) Get() uint64 { return f.Count }
