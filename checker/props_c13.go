package main

func init() {
	register(&PropertyDef{
		ID:    "C13",
		Title: "Serialization round-trips exactly; damaged streams are never accepted silently",
		Explanation: "io discipline (E6) over the serialization closure (everything reachable from the exported functions with an io.Reader/io.Writer parameter): " +
			"no raw Read on a stream, so any conforming reader chunking is handled (R13a); the error of every fallible call is examined on every path and, when " +
			"non-nil, leaves the function as a non-nil error — through the ForEach callbacks too — so a failing sink or a truncated stream cannot be reported as " +
			"success; only io.EOF at a record boundary may become success (R13b); the count of every stream operation reaches the running total that is returned " +
			"(R13c); each restore function returns success only behind a post-read consistency test of the restored state (R13d); a record buffer that outlives one record " +
			"(declared outside the per-element callback or loop that writes it) has every byte the region assigns assigned on every path to the write, so no byte of the previous record is written again (R13f); the caller's reader is not handed to a read-ahead wrapper (R13g); " +
			"no read turns io.EOF into success - the formats announce their record counts (R13h); failing returns hand out the running total (R13i) and every count is added to it before the error test that follows the operation (R13j); the restore loops store every record they read (R13k). These clauses hold for every " +
			"reader chunking, truncation point and writer failure offset because they hold on every path.",
		NotDecided: "equality of the restored forest with the original, its evolution under further blocks, agreement of writer and reader wire formats and of " +
			"SerializeSize (settled by the round-trip tests on the first seed) behaviour on corrupted (as opposed to truncated / short-read) data.",
		Assumptions: []string{"io.ReadFull / io.ReadAtLeast return a nil error only when the buffer was filled (stdlib contract)", "io.Writer.Write returns a non-nil error when it writes fewer bytes than given (stdlib contract)"},
		Rules: []RuleDef{
			{ID: "R13e", Statement: "a restored forest carries the constructor's configuration", Run: func(p *Program, r *Report) {
				r.Rule("R13e", "RESTORE-SETS-CONFIG: a restore function starts from the constructor's value or stores every field the constructor stores (a restored forest must also evolve like the original)")
				checkRestoreConfig(p, r, "R13e")
			}},
			{ID: "R13n", Statement: "every scalar field of a restored node record comes off the stream", Run: func(p *Program, r *Report) {
				r.Rule("R13n", "RECORD-FIELDS-RESTORED: every scalar field (the keep flag) of the node record that the map forest's restore loop stores is computed from bytes read off the stream")
				checkRecordFieldsRestored(p, r, "R13n", "(*MapPollard).Read", 1)
			}},
			{ID: "R13m", Statement: "a memoized size is reset by every method that changes the forest", Run: func(p *Program, r *Report) {
				r.Rule("R13m", "MEMO-INVALIDATED: a struct field that memoizes a value computed from the rest of the struct is stored by every exported method that changes the struct (the predicted serialization size must describe the current forest)")
				checkMemoInvalidated(p, r, "R13m")
			}},
			{ID: "R13o", Statement: "the restore function replaces what the receiver held", Run: func(p *Program, r *Report) {
				r.Rule("R13o", "RESTORE-REPLACES: every store of the receiver (node store, leaf index) that the map forest's restore function refills with Put is emptied first - a call that deletes from it, or a new value stored into the field, dominates every such Put")
				checkRestoreReplaces(p, r, "R13o", "(*MapPollard).Read", 2)
			}},
			{ID: "R13l", Statement: "the restore function takes over the header it reads", Run: func(p *Program, r *Report) {
				r.Rule("R13l", "RESTORE-TAKES-THE-STREAM'S-HEADER: every field of the receiver that the map forest's restore function stores from a value read off the stream (allocated rows, leaf count) is stored on every path that goes on after the read - never only when the stream's value is larger than, or different from, what the receiver had")
				checkRestoreTakesHeader(p, r, "R13l", "(*MapPollard).Read", 2)
			}},
			{ID: "R13k", Statement: "every record read is stored", Run: func(p *Program, r *Report) {
				r.Rule("R13k", "STORE-EVERY-RECORD: a loop of the map forest's restore function that rebuilds the node store or the leaf index stores on every iteration - no record the stream carried is left out of the restored forest")
				var names []string
				if e := p.Func("(*MapPollard).Read"); e != nil {
					for _, f := range sortedFuncs(p, p.Reach(e)) {
						if f.Parent() == nil && p.owns(f) {
							names = append(names, p.FuncName(f))
						}
					}
				} else {
					names = []string{"(*MapPollard).Read"}
				}
				checkStoreEveryRecord(p, r, "R13k", names, 2)
			}},
			{ID: "R13", Statement: "io.Reader / io.Writer discipline of the serialization code", Run: runIODiscipline},
		},
	})
}
