package main

import (
	"fmt"
	"go/token"
	"go/types"
	"sort"
	"strings"

	"golang.org/x/tools/go/ssa"
)

// E7: order-class abstract interpreter.
//
// The library manipulates parallel slices (positions ∥ hashes) whose meaning
// depends on the ORDER of their elements: the caller's order ("raw"), sorted
// by position, the canonical proof order, ... This engine follows backing
// arrays through the SSA form (flow-sensitively: an in-place sort changes the
// class of an array from that program point on; callees are re-analysed in the
// context of their abstract arguments) and records, for every array, the set
// of order classes its contents may have. Three families of rules read the
// result:
//
//   PAIR    two slices combined index by index (toHashAndPos, hashAndPos{a,b},
//           a[i]/b[i] under one index) must be in the same order class;
//   SINK    a slice handed to a function that requires sorted input must not
//           be in a caller-chosen order;
//   OUTPUT  what an API entry returns must be in the class its contract names.
//
// Nothing is executed; classes are symbolic.

type ocKind uint8

const (
	ocRaw    ocKind = iota // caller's order of group G
	ocSorted               // group G sorted ascending by position (hashes: arranged like the sorted positions)
	ocCanon                // canonical proof order (row, then position) for target group G
	ocComp                 // computable positions of group G (second result of ProofPositions)
	ocEmpty                // no elements yet (make with len 0) or zero-filled
	ocSingle               // one-element literal
	ocBuilt                // assembled locally, order unknown (site G)
	ocSBuilt               // assembled by a sorted-producing operation (site G)
	ocDesc                 // group G sorted in DESCENDING order
	ocConcat               // a sorted list with another sorted list appended behind it (site G): two ascending runs, not one
)

func (k ocKind) String() string {
	return [...]string{"raw", "sorted", "canon", "computable", "empty", "single", "built", "sorted-built", "descending", "concatenation"}[k]
}

type OC struct {
	K ocKind
	G string
}

func (c OC) String() string {
	if c.G == "" {
		return c.K.String()
	}
	return c.K.String() + "(" + c.G + ")"
}

func (c OC) isSorted() bool {
	switch c.K {
	case ocSorted, ocCanon, ocComp, ocEmpty, ocSingle, ocSBuilt:
		return true
	}
	return false
}

type ClassSet map[OC]bool

func csOf(cs ...OC) ClassSet {
	s := ClassSet{}
	for _, c := range cs {
		s[c] = true
	}
	return s
}

func (s ClassSet) clone() ClassSet {
	n := make(ClassSet, len(s))
	for c := range s {
		n[c] = true
	}
	return n
}

func (s ClassSet) String() string {
	var xs []string
	for c := range s {
		xs = append(xs, c.String())
	}
	sort.Strings(xs)
	return "{" + strings.Join(xs, ",") + "}"
}

func (s ClassSet) equal(t ClassSet) bool {
	if len(s) != len(t) {
		return false
	}
	for c := range s {
		if !t[c] {
			return false
		}
	}
	return true
}

// hasRaw: some class is certainly not ascending: the caller's order, or a
// descending sort.
func (s ClassSet) hasRaw() (OC, bool) {
	for c := range s {
		if c.K == ocRaw || c.K == ocDesc {
			return c, true
		}
	}
	return OC{}, false
}

// hasConcat: some class is a sorted list followed by another sorted list.
func (s ClassSet) hasConcat() (OC, bool) {
	for c := range s {
		if c.K == ocConcat {
			return c, true
		}
	}
	return OC{}, false
}

// descOf maps every class to what a descending in-place sort makes of it.
func descOf(s ClassSet, site string) ClassSet {
	out := ClassSet{}
	for c := range s {
		switch c.K {
		case ocEmpty, ocSingle:
			out[c] = true
		case ocRaw, ocSorted, ocDesc:
			out[OC{ocDesc, c.G}] = true
		default:
			out[OC{ocDesc, site}] = true
		}
	}
	return out
}

// nonEmpty drops the classes of arrays without meaningful order (no elements
// yet, or zero-filled placeholders): they are compatible with every order.
func (s ClassSet) nonEmpty() ClassSet {
	out := ClassSet{}
	for c := range s {
		if c.K != ocEmpty {
			out[c] = true
		}
	}
	return out
}

// single returns the only class of the set.
func (s ClassSet) single() (OC, bool) {
	if len(s) != 1 {
		return OC{}, false
	}
	for c := range s {
		return c, true
	}
	return OC{}, false
}

// sortedOf maps every class to what an ascending in-place sort makes of it.
func sortedOf(s ClassSet, site string) ClassSet {
	out := ClassSet{}
	for c := range s {
		switch c.K {
		case ocRaw, ocDesc:
			out[OC{ocSorted, c.G}] = true
		case ocBuilt, ocConcat:
			out[OC{ocSBuilt, c.G}] = true
		default:
			out[c] = true
		}
	}
	return out
}

// ---------------------------------------------------------------------------

type oArr struct {
	id   int
	name string
}

type oCell struct {
	id   int
	name string
}

type oLoc struct {
	c    *oCell
	path string
}

// OV is the abstract value of an SSA register.
// CrdSet: coordinate systems a position (or a slice of positions) may be in.
// Positions exchanged over the API are in the layout of TreeRows(NumLeaves)
// ("tree"); the map forest stores them in the layout of its TotalRows
// ("total"). "both" marks a value on a path where TreeRows(NumLeaves) ==
// TotalRows was established, so the two layouts coincide.
type CrdSet uint8

const (
	crdTree  CrdSet = 1
	crdTotal CrdSet = 2
	crdBoth  CrdSet = 4
	// crdPrev: the tree layout of the forest before the block being undone
	// (TreeRows(NumLeaves - numAdds) while NumLeaves still counts the block's
	// additions). It becomes the tree layout once the additions are rolled back.
	crdPrev CrdSet = 8
	// crdOther: the tree layout of some other leaf count of the map forest
	// (TreeRows(NumLeaves + x)): neither the current tree layout nor a layout any
	// stored or exchanged position is in.
	crdOther CrdSet = 16
)

func (c CrdSet) String() string {
	var xs []string
	if c&crdTree != 0 {
		xs = append(xs, "tree")
	}
	if c&crdTotal != 0 {
		xs = append(xs, "total")
	}
	if c&crdBoth != 0 {
		xs = append(xs, "tree=total")
	}
	if c&crdPrev != 0 {
		xs = append(xs, "tree-before-the-block")
	}
	if c&crdOther != 0 {
		xs = append(xs, "tree-of-another-leaf-count")
	}
	if len(xs) == 0 {
		return "unknown"
	}
	return strings.Join(xs, "|")
}

// compatible: every possible layout of the value is the needed one.
func (c CrdSet) compatible(need CrdSet) bool { return c&^(need|crdBoth) == 0 }

type OV struct {
	Arrs map[*oArr]bool
	Flds map[int]*OV
	Locs map[oLoc]bool
	Fn   *ssa.Function // function constant (comparators)
	Crd  CrdSet        // scalar positions: layout
}

func newOV() *OV { return &OV{} }

func ovArr(a *oArr) *OV { return &OV{Arrs: map[*oArr]bool{a: true}} }

func (v *OV) isEmpty() bool {
	return v == nil || (len(v.Arrs) == 0 && len(v.Flds) == 0 && len(v.Locs) == 0 && v.Fn == nil && v.Crd == 0)
}

func (v *OV) clone() *OV {
	n := newOV()
	n.join(v)
	return n
}

func (v *OV) join(w *OV) bool {
	if w == nil {
		return false
	}
	ch := false
	for a := range w.Arrs {
		if !v.Arrs[a] {
			if v.Arrs == nil {
				v.Arrs = map[*oArr]bool{}
			}
			v.Arrs[a] = true
			ch = true
		}
	}
	for l := range w.Locs {
		if !v.Locs[l] {
			if v.Locs == nil {
				v.Locs = map[oLoc]bool{}
			}
			v.Locs[l] = true
			ch = true
		}
	}
	for i, f := range w.Flds {
		if v.Flds == nil {
			v.Flds = map[int]*OV{}
		}
		if v.Flds[i] == nil {
			v.Flds[i] = newOV()
		}
		if v.Flds[i].join(f) {
			ch = true
		}
	}
	if v.Fn == nil && w.Fn != nil {
		v.Fn = w.Fn
		ch = true
	}
	if v.Crd|w.Crd != v.Crd {
		v.Crd |= w.Crd
		ch = true
	}
	return ch
}

func (v *OV) fld(i int) *OV {
	if v == nil || v.Flds == nil || v.Flds[i] == nil {
		return newOV()
	}
	return v.Flds[i]
}

func (v *OV) at(path string) *OV {
	cur := v
	for _, seg := range strings.Split(path, ".") {
		if seg == "" {
			continue
		}
		var i int
		fmt.Sscanf(seg, "%d", &i)
		cur = cur.fld(i)
	}
	return cur
}

func (v *OV) ensure(path string) *OV {
	cur := v
	for _, seg := range strings.Split(path, ".") {
		if seg == "" {
			continue
		}
		var i int
		fmt.Sscanf(seg, "%d", &i)
		if cur.Flds == nil {
			cur.Flds = map[int]*OV{}
		}
		if cur.Flds[i] == nil {
			cur.Flds[i] = newOV()
		}
		cur = cur.Flds[i]
	}
	return cur
}

func (v *OV) sig(sb *strings.Builder) {
	if v == nil {
		sb.WriteByte('-')
		return
	}
	var xs []string
	for a := range v.Arrs {
		xs = append(xs, fmt.Sprintf("a%d", a.id))
	}
	for l := range v.Locs {
		xs = append(xs, fmt.Sprintf("c%d%s", l.c.id, l.path))
	}
	sort.Strings(xs)
	sb.WriteString("{" + strings.Join(xs, ","))
	var fs []int
	for i := range v.Flds {
		fs = append(fs, i)
	}
	sort.Ints(fs)
	for _, i := range fs {
		if v.Flds[i].isEmpty() {
			continue
		}
		fmt.Fprintf(sb, "|%d:", i)
		v.Flds[i].sig(sb)
	}
	if v.Fn != nil {
		fmt.Fprintf(sb, "|f%p", v.Fn)
	}
	if v.Crd != 0 {
		fmt.Fprintf(sb, "|c%d", v.Crd)
	}
	sb.WriteByte('}')
}

// allArrs collects the arrays a value designates directly or through fields.
func (v *OV) allArrs(into map[*oArr]bool) {
	if v == nil {
		return
	}
	for a := range v.Arrs {
		into[a] = true
	}
	for _, f := range v.Flds {
		f.allArrs(into)
	}
}

// OState is the flow-sensitive part: class of every array, contents of cells.
type OState struct {
	cls map[*oArr]ClassSet
	crd map[*oArr]CrdSet
	mem map[*oCell]*OV
	// eq: 1 when TreeRows(NumLeaves) == TotalRows is known to hold on every path
	// to this point (both layouts coincide), 2 when known to differ, 0 unknown
	eq uint8
}

func newOState() *OState {
	return &OState{cls: map[*oArr]ClassSet{}, crd: map[*oArr]CrdSet{}, mem: map[*oCell]*OV{}}
}

// crdOf joins the layouts of the arrays v designates.
func (s *OState) crdOf(v *OV) CrdSet {
	var c CrdSet
	if v == nil {
		return 0
	}
	for a := range v.Arrs {
		c |= s.crd[a]
	}
	return c
}

func (s *OState) setCrd(v *OV, c CrdSet) {
	if v == nil {
		return
	}
	c = s.normCrd(c)
	strong := len(v.Arrs) == 1
	for a := range v.Arrs {
		if strong {
			s.crd[a] = c
		} else {
			s.crd[a] |= c
		}
	}
}

// normCrd: while the two layouts are known to coincide every layout is "both".
func (s *OState) normCrd(c CrdSet) CrdSet {
	if s.eq == 1 && c != 0 {
		return crdBoth
	}
	return c
}

func (s *OState) clone() *OState {
	n := newOState()
	n.eq = s.eq
	for a, c := range s.cls {
		n.cls[a] = c.clone()
	}
	for a, c := range s.crd {
		n.crd[a] = c
	}
	for c, v := range s.mem {
		n.mem[c] = v.clone()
	}
	return n
}

// join merges t into s; reports change.
func (s *OState) join(t *OState) bool {
	ch := false
	if s.eq != t.eq && s.eq != 0 {
		s.eq = 0
		ch = true
	}
	for a, c := range t.cls {
		if s.cls[a] == nil {
			s.cls[a] = c.clone()
			ch = true
			continue
		}
		for x := range c {
			if !s.cls[a][x] {
				s.cls[a][x] = true
				ch = true
			}
		}
	}
	for a, c := range t.crd {
		if s.crd[a]|c != s.crd[a] {
			s.crd[a] |= c
			ch = true
		}
	}
	for c, v := range t.mem {
		if s.mem[c] == nil {
			s.mem[c] = v.clone()
			ch = true
			continue
		}
		if s.mem[c].join(v) {
			ch = true
		}
	}
	return ch
}

func (s *OState) classOf(v *OV) ClassSet {
	out := ClassSet{}
	if v == nil {
		return out
	}
	for a := range v.Arrs {
		for c := range s.cls[a] {
			out[c] = true
		}
	}
	return out
}

// setClass assigns cs to every array v designates (strong when v designates
// exactly one array, weak otherwise).
func (s *OState) setClass(v *OV, cs ClassSet) {
	if v == nil {
		return
	}
	strong := len(v.Arrs) == 1
	for a := range v.Arrs {
		if strong || s.cls[a] == nil {
			s.cls[a] = cs.clone()
		} else {
			for c := range cs {
				s.cls[a][c] = true
			}
		}
	}
}

func (s *OState) load(p *OV) *OV {
	out := newOV()
	for l := range p.Locs {
		if m := s.mem[l.c]; m != nil {
			out.join(m.at(l.path))
		}
	}
	return out
}

func (s *OState) store(p *OV, v *OV) {
	strong := len(p.Locs) == 1
	for l := range p.Locs {
		if s.mem[l.c] == nil {
			s.mem[l.c] = newOV()
		}
		if strong {
			if l.path == "" {
				s.mem[l.c] = v.clone()
			} else {
				// replace the sub-value at path
				par, last := splitLast(l.path)
				tgt := s.mem[l.c].ensure(par)
				if tgt.Flds == nil {
					tgt.Flds = map[int]*OV{}
				}
				tgt.Flds[last] = v.clone()
			}
		} else {
			s.mem[l.c].ensure(l.path).join(v)
		}
	}
}

func splitLast(path string) (string, int) {
	i := strings.LastIndexByte(path, '.')
	var n int
	fmt.Sscanf(path[i+1:], "%d", &n)
	return path[:i], n
}

func (s *OState) sig(sb *strings.Builder, arrs map[*oArr]bool, cells map[*oCell]bool) {
	var xs []string
	for a := range arrs {
		xs = append(xs, fmt.Sprintf("a%d=%s/%d", a.id, s.cls[a].String(), s.crd[a]))
	}
	sort.Strings(xs)
	sb.WriteString(strings.Join(xs, ";"))
	var cs []string
	for c := range cells {
		var b strings.Builder
		s.mem[c].sig(&b)
		cs = append(cs, fmt.Sprintf("c%d=%s", c.id, b.String()))
	}
	sort.Strings(cs)
	sb.WriteString("#" + strings.Join(cs, ";"))
	fmt.Fprintf(sb, "#eq%d", s.eq)
}

// ---------------------------------------------------------------------------
// Events.

type oEvKind int

const (
	oevPair oEvKind = iota
	oevSink
	oevUndecided
	oevIndexPar
	oevCoord
)

type oEvent struct {
	Kind   oEvKind
	Fn     *ssa.Function
	In     ssa.Instruction
	What   string // callee / sink name, e.g. "toHashAndPos", "deTwin#0"
	A, B   ClassSet
	NameA  string
	NameB  string
	Stack  []string
	Detail string
	Need   CrdSet // oevCoord: layout the callee needs
	Have   CrdSet // oevCoord: layouts the value may be in
}

type oMemo struct {
	ret  *OV
	out  *OState
	busy bool
	// states at the returns whose error result is nil / non-nil (nil when the
	// function has no such return); used to refine the caller's state on the
	// edges of an "if err != nil" that directly follows the call
	okOut, errOut *OState
}

// oRefine is the per-outcome state of a call, full states (not deltas).
type oRefine struct {
	ok, err *OState
}

type oInterp struct {
	p        *Program
	arrs     map[string]*oArr
	cells    map[string]*oCell
	memo     map[string]*oMemo
	events   []*oEvent
	evSeen   map[string]bool
	stack    []string
	ctx      string // chain of call sites: allocation sites are qualified by it
	depth    int
	funcsHit map[*ssa.Function]bool
	sinks    map[string][]int // function name -> argument indexes that must be sorted
	missing  map[string]bool
	fills    map[*ssa.Function]map[ssa.Instruction]ssa.Value // map-fill idiom: store/append -> parallel source slice
	refine   map[ssa.Instruction]*oRefine                    // last call outcome per call instruction (current context)
	lastOK   *OState                                         // state at the success returns of the function analysed last
	curEq    uint8                                           // eq flag of the state being stepped
	geomW    map[*ssa.Function]bool                          // functions that (transitively) write NumLeaves / TotalRows of the map forest
}

// requiresSorted is the table of functions whose documentation says "MUST be
// sorted" (utils.go, prove.go, mappollard.go). Index = argument position; for
// hashAndPos arguments the positions field is meant.
var requiresSorted = map[string][]int{
	"ProofPositions":             {0},
	"deTwin":                     {0},
	"deTwinHashAndPos":           {0},
	"subtractSortedSlice":        {0, 1},
	"subtractSortedHashAndPos":   {0, 1},
	"getHashAndPosSubset":        {0, 1},
	"mergeSortedHashAndPos":      {0, 1},
	"mergeSortedSlicesFunc":      {0, 1},
	"(*MapPollard).trimProofPos": {1},
}

func newOInterp(p *Program) *oInterp {
	return &oInterp{p: p, arrs: map[string]*oArr{}, cells: map[string]*oCell{}, memo: map[string]*oMemo{},
		evSeen: map[string]bool{}, funcsHit: map[*ssa.Function]bool{}, missing: map[string]bool{},
		fills: map[*ssa.Function]map[ssa.Instruction]ssa.Value{}, refine: map[ssa.Instruction]*oRefine{}}
}

func (it *oInterp) arr(key, name string) *oArr {
	if a, ok := it.arrs[key]; ok {
		return a
	}
	a := &oArr{id: len(it.arrs) + 1, name: name}
	it.arrs[key] = a
	return a
}

func (it *oInterp) cell(key, name string) *oCell {
	if c, ok := it.cells[key]; ok {
		return c
	}
	c := &oCell{id: len(it.cells) + 1, name: name}
	it.cells[key] = c
	return c
}

// akey qualifies an instruction-derived identity by the calling context, so
// that two calls of one helper do not share their local arrays.
func (it *oInterp) akey(in ssa.Instruction, suffix string) string {
	return fmt.Sprintf("%s|%p%s", it.ctx, in, suffix)
}

func (it *oInterp) site(in ssa.Instruction) string {
	// line-free site name: function + ordinal of the instruction among the
	// function's instructions of the same kind would be ideal; the position is
	// used for diagnosis only, the identity is the instruction pointer.
	return fmt.Sprintf("%s@%s", it.p.FuncName(in.Parent()), posOf(it.p, in))
}

func (it *oInterp) event(e *oEvent) {
	key := fmt.Sprintf("%d/%p/%s/%s/%s/%d/%d", e.Kind, e.In, e.What, e.A.String(), e.B.String(), e.Need, e.Have)
	if it.evSeen[key] {
		return
	}
	it.evSeen[key] = true
	e.Stack = append([]string{}, it.stack...)
	it.events = append(it.events, e)
}

// baseName strips instantiation brackets: "copySortedFunc[uint64]" -> "copySortedFunc".
func baseName(n string) string {
	if i := strings.IndexByte(n, '['); i >= 0 {
		return n[:i]
	}
	return n
}

// calleeName gives the line-free name of a package callee (origin for generics).
func (it *oInterp) calleeName(sc *ssa.Function) string {
	if o := sc.Origin(); o != nil {
		return it.p.FuncName(o)
	}
	return baseName(it.p.FuncName(sc))
}

// typedShape builds a value with fresh arrays for every slice found in a
// (struct / tuple / slice) type; used for results of unanalysed callees.
func (it *oInterp) typedShape(t types.Type, key, name string, st *OState, cls OC) *OV {
	switch u := t.Underlying().(type) {
	case *types.Slice:
		a := it.arr(key, name)
		st.cls[a] = csOf(cls)
		return ovArr(a)
	case *types.Struct:
		v := newOV()
		for i := 0; i < u.NumFields(); i++ {
			f := it.typedShape(u.Field(i).Type(), fmt.Sprintf("%s.%d", key, i), name+"."+u.Field(i).Name(), st, cls)
			if !f.isEmpty() {
				if v.Flds == nil {
					v.Flds = map[int]*OV{}
				}
				v.Flds[i] = f
			}
		}
		return v
	case *types.Tuple:
		v := newOV()
		for i := 0; i < u.Len(); i++ {
			f := it.typedShape(u.At(i).Type(), fmt.Sprintf("%s#%d", key, i), fmt.Sprintf("%s#%d", name, i), st, cls)
			if !f.isEmpty() {
				if v.Flds == nil {
					v.Flds = map[int]*OV{}
				}
				v.Flds[i] = f
			}
		}
		return v
	}
	return newOV()
}

// ---------------------------------------------------------------------------
// Function analysis (flow-sensitive worklist over the CFG).

func (it *oInterp) analyze(fn *ssa.Function, args []*OV, in *OState, site ssa.Instruction) (*OV, *OState) {
	if fn == nil || fn.Blocks == nil {
		return newOV(), in
	}
	// memo key: function, arguments, classes/contents of what the arguments reach
	reachA := map[*oArr]bool{}
	reachC := map[*oCell]bool{}
	var walk func(v *OV)
	walk = func(v *OV) {
		if v == nil {
			return
		}
		for a := range v.Arrs {
			reachA[a] = true
		}
		for l := range v.Locs {
			if !reachC[l.c] {
				reachC[l.c] = true
				walk(in.mem[l.c])
			}
		}
		for _, f := range v.Flds {
			walk(f)
		}
	}
	for _, a := range args {
		walk(a)
	}
	var sb strings.Builder
	fmt.Fprintf(&sb, "%s|%p>%p", it.ctx, site, fn)
	for _, a := range args {
		a.sig(&sb)
	}
	sb.WriteByte('/')
	in.sig(&sb, reachA, reachC)
	key := sb.String()
	me := it.memo[key]
	if me != nil {
		if me.busy {
			if len(reachA) > 0 {
				it.event(&oEvent{Kind: oevUndecided, Fn: fn, In: site, What: "recursion",
					Detail: "slice values enter a recursive cycle at " + it.p.FuncName(fn)})
			}
			return newOV(), in
		}
		// replay the recorded effect on the current state
		apply := func(eff *OState) *OState {
			if eff == nil {
				return nil
			}
			out := in.clone()
			for a, c := range eff.cls {
				out.cls[a] = c.clone()
			}
			for a, c := range eff.crd {
				out.crd[a] = c
			}
			for c, v := range eff.mem {
				out.mem[c] = v.clone()
			}
			return out
		}
		if site != nil {
			it.refine[site] = &oRefine{ok: apply(me.okOut), err: apply(me.errOut)}
		}
		return me.ret.clone(), apply(me.out)
	}
	me = &oMemo{busy: true}
	it.memo[key] = me
	if it.depth > 30 {
		it.event(&oEvent{Kind: oevUndecided, Fn: fn, In: site, What: "depth", Detail: "call depth bound exceeded"})
		me.busy = false
		me.ret, me.out = newOV(), newOState()
		return newOV(), in
	}
	it.depth++
	it.funcsHit[fn] = true
	frame := it.p.FuncName(fn)
	if site != nil {
		frame = fmt.Sprintf("%s (called at %s)", frame, posOf(it.p, site))
	}
	it.stack = append(it.stack, frame)
	oldCtx := it.ctx
	if site != nil {
		it.ctx = fmt.Sprintf("%s/%p", it.ctx, site)
	}
	defer func() {
		it.stack = it.stack[:len(it.stack)-1]
		it.ctx = oldCtx
		it.depth--
	}()

	env := map[ssa.Value]*OV{}
	for i, par := range fn.Params {
		if i < len(args) && args[i] != nil {
			env[par] = args[i]
		}
	}
	fills := it.fillIdioms(fn)

	blockIn := map[*ssa.BasicBlock]*OState{fn.Blocks[0]: in.clone()}
	work := []*ssa.BasicBlock{fn.Blocks[0]}
	inWork := map[*ssa.BasicBlock]bool{fn.Blocks[0]: true}
	ret := newOV()
	var out, okOut, errOut *OState
	errIdx := errorResultIndex(fn.Signature)
	steps := 0
	for len(work) > 0 {
		// lowest index first: approximates reverse post-order
		bi := 0
		for i, b := range work {
			if b.Index < work[bi].Index {
				bi = i
			}
		}
		b := work[bi]
		work = append(work[:bi], work[bi+1:]...)
		inWork[b] = false
		steps++
		if steps > 4000 {
			it.event(&oEvent{Kind: oevUndecided, Fn: fn, In: site, What: "fixpoint", Detail: "no fixed point within the iteration bound in " + it.p.FuncName(fn)})
			break
		}
		st := blockIn[b].clone()
		for _, ins := range b.Instrs {
			it.step(fn, ins, env, st, fills)
		}
		if len(b.Instrs) > 0 {
			if r, ok := b.Instrs[len(b.Instrs)-1].(*ssa.Return); ok {
				tv := newOV()
				for i, rv := range retOperands(r) {
					v := it.get(env, rv)
					if st.eq == 1 {
						// returned on a path where both layouts coincide: hand out the stand-ins, so that the
						// join with the other returns does not mix this array's layout on the other paths in
						v = it.refineOV(v, st, true)
					}
					if !v.isEmpty() {
						tv.ensure(fmt.Sprintf(".%d", i)).join(v)
					}
				}
				ret.join(tv)
				if out == nil {
					out = st.clone()
				} else {
					out.join(st)
				}
				if errIdx >= 0 {
					kind := errReturnKind(r, errIdx)
					if kind != 1 { // may be a success return
						if okOut == nil {
							okOut = st.clone()
						} else {
							okOut.join(st)
						}
					}
					if kind != 0 { // may be a failing return
						if errOut == nil {
							errOut = st.clone()
						} else {
							errOut.join(st)
						}
					}
				}
			}
		}
		// error-edge refinement: "x, err := f(...); if err != nil" right after the call
		var okSucc, errSucc *ssa.BasicBlock
		var rf *oRefine
		if call, okE, erE := errTestOfCall(b); call != nil {
			if r := it.refine[call]; r != nil && r.ok != nil && r.err != nil {
				rf, okSucc, errSucc = r, okE, erE
				if it.writesGeometry(call) {
					// the callee's own states predate the caller's view of the change
					ok2, err2 := r.ok.clone(), r.err.clone()
					it.geometryChanged(ok2)
					it.geometryChanged(err2)
					rf = &oRefine{ok: ok2, err: err2}
				}
			}
		}
		eqSucc, neSucc := it.rowsTest(fn, b)
		conv := it.loopConversions(fn, b)
		for _, s := range b.Succs {
			st := st
			if len(conv) > 0 && !loopContains(b, s) {
				st = st.clone()
				for _, cv := range conv {
					st.setCrd(it.get(env, cv.arr), cv.to)
				}
			}
			if rf != nil && okSucc != errSucc {
				if s == okSucc {
					st = rf.ok
				} else if s == errSucc {
					st = rf.err
				}
			}
			if eqSucc != neSucc && (s == eqSucc || s == neSucc) {
				st = st.clone()
				it.refineEdge(st, s == eqSucc)
			}
			if blockIn[s] == nil {
				blockIn[s] = st.clone()
				if !inWork[s] {
					work = append(work, s)
					inWork[s] = true
				}
			} else if blockIn[s].join(st) {
				if !inWork[s] {
					work = append(work, s)
					inWork[s] = true
				}
			}
		}
	}
	if out == nil {
		out = in.clone() // no return reached (panics only)
	}
	me.busy = false
	me.ret = ret.clone()
	// record the effects. An array untouched on one outcome but changed on the
	// other must be restored on that edge, so every array that differs in any
	// outcome is recorded in all of them.
	touched := map[*oArr]bool{}
	for _, o := range []*OState{out, okOut, errOut} {
		if o == nil {
			continue
		}
		for a, c := range o.cls {
			if in.cls[a] == nil || !in.cls[a].equal(c) {
				touched[a] = true
			}
		}
		for a, c := range o.crd {
			if in.crd[a] != c {
				touched[a] = true
			}
		}
	}
	effect := func(o *OState) *OState {
		if o == nil {
			return nil
		}
		eff := newOState()
		for a := range touched {
			if c := o.cls[a]; c != nil {
				eff.cls[a] = c.clone()
			}
			if c, ok := o.crd[a]; ok {
				eff.crd[a] = c
			}
		}
		for c, v := range o.mem {
			eff.mem[c] = v.clone()
		}
		return eff
	}
	me.out, me.okOut, me.errOut = effect(out), effect(okOut), effect(errOut)
	it.lastOK = okOut
	if site != nil {
		it.refine[site] = &oRefine{ok: okOut, err: errOut}
	}
	return ret, out
}

// errReturnKind classifies a return by its error operand: 0 = nil (success),
// 1 = certainly non-nil (a freshly created error, or behind "err != nil"),
// 2 = either.
func errReturnKind(r *ssa.Return, errIdx int) int {
	ops := retOperands(r)
	if errIdx >= len(ops) {
		return 2
	}
	v := ops[errIdx]
	if isNilConst(v) {
		return 0
	}
	if c, ok := v.(*ssa.Call); ok {
		if f := calleeFunc(c.Common()); f != nil && f.Pkg() != nil {
			switch f.Pkg().Path() + "." + f.Name() {
			case "fmt.Errorf", "errors.New":
				return 1
			}
		}
	}
	// behind the true edge of "v != nil" (or the false edge of "v == nil")
	for _, g := range guardsAt(r.Block()) {
		rel, ok := relOf(g)
		if !ok {
			continue
		}
		if rel.Op == token.NEQ && ((sameValue(rel.X, v) && isNilConst(rel.Y)) || (sameValue(rel.Y, v) && isNilConst(rel.X))) {
			return 1
		}
	}
	return 2
}

// errTestOfCall recognises a block that ends in "if err != nil" (or == nil)
// where err is the error result of a call made in the same block with nothing
// but value plumbing in between; it returns the call and the successors taken
// when the error is nil / non-nil.
func errTestOfCall(b *ssa.BasicBlock) (call ssa.Instruction, okSucc, errSucc *ssa.BasicBlock) {
	if len(b.Instrs) == 0 {
		return nil, nil, nil
	}
	iff, ok := b.Instrs[len(b.Instrs)-1].(*ssa.If)
	if !ok {
		return nil, nil, nil
	}
	bo, ok := iff.Cond.(*ssa.BinOp)
	if !ok || (bo.Op != token.NEQ && bo.Op != token.EQL) {
		return nil, nil, nil
	}
	var ev ssa.Value
	switch {
	case isNilConst(bo.Y):
		ev = bo.X
	case isNilConst(bo.X):
		ev = bo.Y
	default:
		return nil, nil, nil
	}
	if !isErrorType(ev.Type()) {
		return nil, nil, nil
	}
	var c *ssa.Call
	switch x := ev.(type) {
	case *ssa.Call:
		c = x
	case *ssa.Extract:
		c, _ = x.Tuple.(*ssa.Call)
	}
	if c == nil || c.Block() != b {
		return nil, nil, nil
	}
	// nothing with effects between the call and the test
	after := false
	for _, in := range b.Instrs {
		if in == ssa.Instruction(c) {
			after = true
			continue
		}
		if !after {
			continue
		}
		switch in.(type) {
		case *ssa.Extract, *ssa.BinOp, *ssa.If, *ssa.DebugRef, *ssa.UnOp, *ssa.Field, *ssa.FieldAddr:
		default:
			return nil, nil, nil
		}
	}
	if bo.Op == token.NEQ {
		return c, b.Succs[1], b.Succs[0]
	}
	return c, b.Succs[0], b.Succs[1]
}

func (it *oInterp) get(env map[ssa.Value]*OV, v ssa.Value) *OV {
	switch x := v.(type) {
	case nil:
		return newOV()
	case *ssa.Const:
		return newOV()
	case *ssa.Function:
		return &OV{Fn: x}
	case *ssa.Global:
		c := it.cell("g:"+x.String(), "global "+x.Name())
		return &OV{Locs: map[oLoc]bool{{c, ""}: true}}
	}
	if a, ok := env[v]; ok {
		return a
	}
	return newOV()
}

func setEnv(env map[ssa.Value]*OV, v ssa.Value, a *OV) {
	if a == nil {
		return
	}
	if env[v] == nil {
		env[v] = newOV()
	}
	env[v].join(a)
}

func hasSlices(t types.Type) bool { return hasSlicesSeen(t, map[types.Type]bool{}) }

func hasSlicesSeen(t types.Type, seen map[types.Type]bool) bool {
	if seen[t] {
		return false
	}
	seen[t] = true
	switch u := t.Underlying().(type) {
	case *types.Slice:
		return true
	case *types.Pointer:
		return hasSlicesSeen(u.Elem(), seen)
	case *types.Struct:
		for i := 0; i < u.NumFields(); i++ {
			if hasSlicesSeen(u.Field(i).Type(), seen) {
				return true
			}
		}
	case *types.Tuple:
		for i := 0; i < u.Len(); i++ {
			if hasSlicesSeen(u.At(i).Type(), seen) {
				return true
			}
		}
	case *types.Interface:
		return true
	}
	return false
}

func (it *oInterp) step(fn *ssa.Function, ins ssa.Instruction, env map[ssa.Value]*OV, st *OState, fills map[ssa.Instruction]ssa.Value) {
	get := func(v ssa.Value) *OV { return it.get(env, v) }
	it.curEq = st.eq
	if _, isStore := ins.(*ssa.Store); isStore && it.writesGeometry(ins) {
		it.geometryChanged(st)
	}
	if _, isCall := ins.(*ssa.Call); isCall && it.writesGeometry(ins) {
		// the callee is analysed with the state before the change; the caller
		// continues with the facts invalidated
		defer it.geometryChanged(st)
	}
	switch x := ins.(type) {
	case *ssa.Alloc:
		c := it.cell(it.akey(x, ""), "var "+x.Comment+"@"+it.p.FuncName(fn))
		setEnv(env, x, &OV{Locs: map[oLoc]bool{{c, ""}: true}})
		// a fresh variable starts empty on every execution of the Alloc
		if _, isArr := deref(x.Type()).Underlying().(*types.Array); isArr {
			// backing array of a slice literal: treat the cell's content as an array
			a := it.arr(it.akey(x, "lit"), "literal@"+posOf(it.p, x))
			n := deref(x.Type()).Underlying().(*types.Array).Len()
			if n == 1 {
				st.cls[a] = csOf(OC{ocSingle, ""})
			} else if n == 0 {
				st.cls[a] = csOf(OC{ocEmpty, ""})
			} else {
				st.cls[a] = csOf(OC{ocBuilt, it.site(x)})
			}
			env[x] = &OV{Locs: map[oLoc]bool{{c, ""}: true}, Arrs: map[*oArr]bool{a: true}}
		}
	case *ssa.MakeSlice:
		a := it.arr(it.akey(x, ""), "make@"+posOf(it.p, x))
		st.cls[a] = csOf(OC{ocEmpty, ""})
		setEnv(env, x, ovArr(a))
	case *ssa.Slice:
		src := get(x.X)
		out := newOV()
		for a := range src.Arrs {
			if out.Arrs == nil {
				out.Arrs = map[*oArr]bool{}
			}
			out.Arrs[a] = true
		}
		setEnv(env, x, out)
	case *ssa.IndexAddr:
		src := get(x.X)
		out := newOV()
		for a := range src.Arrs {
			if out.Arrs == nil {
				out.Arrs = map[*oArr]bool{}
			}
			out.Arrs[a] = true
		}
		setEnv(env, x, out)
		// index-parallel access: another slice read under the very same index value
		if isSliceT(x.X.Type()) {
			if _, isConst := x.Index.(*ssa.Const); !isConst {
				for _, ref := range *x.Index.Referrers() {
					y, ok := ref.(*ssa.IndexAddr)
					if !ok || y == x || y.Index != x.Index || !isSliceT(y.X.Type()) || y.Parent() != fn {
						continue
					}
					if !(y.Block() == x.Block() && instrIndex(y) < instrIndex(x)) && !y.Block().Dominates(x.Block()) {
						continue
					}
					oy := get(y.X)
					same := false
					for a := range oy.Arrs {
						if src.Arrs[a] {
							same = true
						}
					}
					if same {
						continue
					}
					ca, cb := st.classOf(oy), st.classOf(src)
					if resolvedClass(ca) && resolvedClass(cb) {
						na, nb := exprName(y.X), exprName(x.X)
						it.event(&oEvent{Kind: oevIndexPar, Fn: fn, In: x, What: "index", A: ca.clone(), B: cb.clone(), NameA: na, NameB: nb})
					}
				}
			}
		}
	case *ssa.FieldAddr:
		src := get(x.X)
		out := newOV()
		for l := range src.Locs {
			if out.Locs == nil {
				out.Locs = map[oLoc]bool{}
			}
			out.Locs[oLoc{l.c, fmt.Sprintf("%s.%d", l.path, x.Field)}] = true
		}
		setEnv(env, x, out)
	case *ssa.Field:
		setEnv(env, x, get(x.X).fld(x.Field))
	case *ssa.UnOp:
		if x.Op == token.MUL && hasSlices(x.Type()) {
			p := get(x.X)
			if len(p.Locs) > 0 {
				setEnv(env, x, st.load(p))
			}
		}
		if x.Op == token.MUL && isUint64(x.Type()) {
			if ia, ok := x.X.(*ssa.IndexAddr); ok {
				if c := st.crdOf(get(ia.X)); c != 0 {
					setEnv(env, x, &OV{Crd: c})
				}
			}
		}
	case *ssa.Store:
		ptr := get(x.Addr)
		if ia, ok := x.Addr.(*ssa.IndexAddr); ok {
			// element store into an array
			tgt := get(ia.X)
			if vc := get(x.Val).Crd; vc != 0 {
				if it.inPlaceTranslation(x.Val, ia) {
					// every element is rewritten once: the array changes layout when
					// the loop is left (applied on the loop's exit edge)
				} else {
					for a := range tgt.Arrs {
						st.crd[a] |= st.normCrd(vc)
					}
				}
			}
			if src, ok := fills[x]; ok {
				sv := get(src)
				same := false
				for a := range sv.Arrs {
					if tgt.Arrs[a] {
						same = true
					}
				}
				if !same {
					st.setClass(tgt, st.classOf(sv))
				}
			} else {
				for a := range tgt.Arrs {
					if st.cls[a][OC{ocEmpty, ""}] {
						n := st.cls[a].clone()
						delete(n, OC{ocEmpty, ""})
						n[OC{ocBuilt, it.site(x)}] = true
						st.cls[a] = n
					}
				}
				// stores into an already classified array are not tracked
				// (stated limitation: position rewrites inside a sorted slice)
			}
			return
		}
		if len(ptr.Locs) > 0 && hasSlices(x.Val.Type()) {
			st.store(ptr, get(x.Val))
		}
		// hashAndPos{a, b}: when the second field of the literal is stored, both operands are known
		if fa, ok := x.Addr.(*ssa.FieldAddr); ok {

			if al, ok := fa.X.(*ssa.Alloc); ok && it.p.localNamed(deref(al.Type()), "hashAndPos") {
				var other ssa.Value
				for _, ref := range *al.Referrers() {
					ofa, ok := ref.(*ssa.FieldAddr)
					if !ok || ofa.Field == fa.Field {
						continue
					}
					for _, r2 := range *ofa.Referrers() {
						if os, ok := r2.(*ssa.Store); ok && os.Addr == ofa && os.Block() == x.Block() && instrIndex(os)+1 == instrIndex(x) { // adjacent stores: a composite literal
							other = os.Val
						}
					}
				}
				if other != nil {
					pv, hv := other, x.Val
					if fa.Field == 0 {
						pv, hv = x.Val, other
					}
					it.event(&oEvent{Kind: oevPair, Fn: fn, In: x, What: "hashAndPos{}", A: st.classOf(get(pv)).clone(), B: st.classOf(get(hv)).clone(),
						NameA: exprName(pv), NameB: exprName(hv)})
				}
			}
		}
	case *ssa.Phi:
		for i, e := range x.Edges {
			v := get(e)
			if i < len(x.Block().Preds) {
				pred := x.Block().Preds[i]
				if eqS, neS := it.rowsTest(fn, pred); eqS != neS {
					if x.Block() == eqS {
						v = it.refineOV(v, st, true)
					} else if x.Block() == neS {
						v = it.refineOV(v, st, false)
					}
				}
			}
			setEnv(env, x, v)
		}
	case *ssa.Extract:
		setEnv(env, x, get(x.Tuple).fld(x.Index))
	case *ssa.MakeInterface:
		setEnv(env, x, get(x.X))
	case *ssa.ChangeType:
		setEnv(env, x, get(x.X))
	case *ssa.ChangeInterface:
		setEnv(env, x, get(x.X))
	case *ssa.Convert:
		if hasSlices(x.Type()) && hasSlices(x.X.Type()) {
			setEnv(env, x, get(x.X))
		}
	case *ssa.TypeAssert:
		a := get(x.X)
		if x.CommaOk {
			setEnv(env, x, &OV{Flds: map[int]*OV{0: a}})
		} else {
			setEnv(env, x, a)
		}
	case *ssa.MakeClosure:
		if cf, ok := x.Fn.(*ssa.Function); ok {
			setEnv(env, x, &OV{Fn: cf})
		}
	case *ssa.Call:
		res := it.call(fn, x, x.Common(), env, st, fills)
		if res != nil {
			if x.Common().Signature().Results().Len() == 1 {
				setEnv(env, x, res.fld(0))
			} else {
				setEnv(env, x, res)
			}
		}
	}
}

// resolvedClass: every possible class names a parallel group (raw, sorted or
// canonical order of a group), so two such sets can be compared.
func resolvedClass(cs ClassSet) bool {
	cs = cs.nonEmpty()
	if len(cs) == 0 {
		return false
	}
	for c := range cs {
		switch c.K {
		case ocRaw, ocSorted, ocCanon:
		default:
			return false
		}
	}
	return true
}

func tupleOV(vs ...*OV) *OV {
	t := &OV{Flds: map[int]*OV{}}
	for i, v := range vs {
		if v != nil {
			t.Flds[i] = v
		}
	}
	return t
}

// sameRootSlice: a and b are re-slices of the same slice value (deletion idiom
// append(x[:i], x[j:]...)).
func sameRootSlice(a, b ssa.Value) bool {
	sa, ok1 := a.(*ssa.Slice)
	sb, ok2 := b.(*ssa.Slice)
	if !ok1 || !ok2 {
		return false
	}
	return sameValue(sa.X, sb.X)
}

func (it *oInterp) call(fn *ssa.Function, site ssa.Instruction, cc *ssa.CallCommon, env map[ssa.Value]*OV, st *OState, fills map[ssa.Instruction]ssa.Value) *OV {
	get := func(v ssa.Value) *OV { return it.get(env, v) }
	args := make([]*OV, len(cc.Args))
	for i, a := range cc.Args {
		args[i] = get(a)
	}
	if b := builtinName(cc); b != "" {
		switch b {
		case "append":
			if len(args) == 0 {
				return nil
			}
			if len(cc.Args) == 2 && sameRootSlice(cc.Args[0], cc.Args[1]) {
				// in-place deletion: a sub-sequence of the same array
				return tupleOV(args[0].clone())
			}
			// Growth keeps the identity of the array (re-allocation is immaterial
			// for order classes); only a nil base creates a new one.
			out := newOV()
			for x := range args[0].Arrs {
				if out.Arrs == nil {
					out.Arrs = map[*oArr]bool{}
				}
				out.Arrs[x] = true
			}
			base := st.classOf(args[0])
			if len(out.Arrs) == 0 {
				a := it.arr(it.akey(site, ""), "append@"+posOf(it.p, site))
				out = ovArr(a)
				base = csOf(OC{ocEmpty, ""})
			}
			if len(base) == 0 {
				base = csOf(OC{ocEmpty, ""})
			}
			newcls := ClassSet{}
			if len(args) == 1 || (len(cc.Args) == 2 && isNilConst(cc.Args[1])) {
				newcls = base.clone()
			} else {
				spread := len(cc.Args) == 2 && isSliceT(cc.Args[1].Type()) && len(args[1].Arrs) > 0 && !isVarargsLiteral(cc.Args[1])
				for c := range base {
					switch {
					case c.K == ocEmpty && fills[site] != nil:
						for x := range st.classOf(get(fills[site])) {
							newcls[x] = true
						}
					case c.K == ocEmpty && spread:
						// append(empty, src...): a copy of src
						for x := range st.classOf(args[1]) {
							newcls[x] = true
						}
					case c.K != ocEmpty && fills[site] != nil:
						// continuing an append-map: the class was set when the first element went in
						newcls[c] = true
					default:
						// a non-empty ascending list with another ascending list spread behind it: two runs
						runs := spread && (c.K == ocSorted || c.K == ocCanon || c.K == ocComp || c.K == ocSBuilt)
						if runs {
							src := st.classOf(args[1])
							for x := range src {
								if !(x.K == ocSorted || x.K == ocCanon || x.K == ocComp || x.K == ocSBuilt) {
									runs = false
								}
							}
							if len(src) == 0 {
								runs = false
							}
						}
						if runs {
							newcls[OC{ocConcat, it.site(site)}] = true
						} else {
							newcls[OC{ocBuilt, it.site(site)}] = true
						}
					}
				}
			}
			newcrd := st.crdOf(args[0])
			if len(args) > 1 {
				newcrd |= st.crdOf(args[1])
			}
			for x := range out.Arrs {
				st.cls[x] = newcls.clone()
				st.crd[x] = st.normCrd(newcrd)
			}
			return tupleOV(out)
		case "copy":
			if len(args) == 2 {
				if sl, ok := cc.Args[0].(*ssa.Slice); ok && sl.Low != nil {
					st.setClass(args[0], csOf(OC{ocBuilt, it.site(site)}))
				} else if len(args[1].Arrs) > 0 {
					same := false
					for a := range args[1].Arrs {
						if args[0].Arrs[a] {
							same = true
						}
					}
					if !same {
						st.setClass(args[0], st.classOf(args[1]))
						st.setCrd(args[0], st.crdOf(args[1]))
					}
				}
			}
			return nil
		}
		return nil
	}
	sc := cc.StaticCallee()
	if sc == nil || cc.IsInvoke() {
		if cc.IsInvoke() {
			switch {
			case posKeyedIface(it.p, cc.Value.Type()):
				switch cc.Method.Name() {
				case "Get", "Put", "Delete":
					if len(args) > 0 {
						it.needCrd(fn, site, "Nodes."+cc.Method.Name()+"#0", crdTotal, args[0].Crd, exprName(cc.Args[0]))
					}
				}
			case hashKeyedIface(it.p, cc.Value.Type()):
				switch cc.Method.Name() {
				case "Put":
					if len(args) > 1 {
						it.needCrd(fn, site, "CachedLeaves.Put#1", crdTotal, args[1].Crd, exprName(cc.Args[1]))
					}
				case "Get":
					return tupleOV(&OV{Crd: crdTotal})
				}
			}
		}
		// interface methods / function values: no slice effects modelled; slice
		// results are unknown
		return it.unknownResult(site, cc, st)
	}
	if !it.p.owns(sc) {
		return it.external(site, cc, sc, args, st)
	}
	name := it.calleeName(sc)

	// layout discipline: a position (scalar or slice) handed to a function
	// together with a classifiable forest height must be in that height's layout
	var rowsK CrdSet
	if name != "translatePos" && name != "translatePositions" {
		for i, a := range cc.Args {
			if isUint8(a.Type()) {
				if k := it.rowsKind(a); k != 0 {
					rowsK = k
					_ = i
					break
				}
			}
		}
	}
	argCrd := func(i int) CrdSet {
		v := args[i]
		if v.Crd != 0 {
			return v.Crd
		}
		if len(v.Arrs) == 0 && len(v.Flds) > 0 && it.p.localNamed(cc.Args[i].Type(), "hashAndPos") {
			v = v.fld(0)
		}
		if isPositionSlice(cc.Args[i].Type()) || it.p.localNamed(cc.Args[i].Type(), "hashAndPos") {
			return st.crdOf(v)
		}
		return 0
	}
	if rowsK != 0 {
		for i := range cc.Args {
			it.needCrd(fn, site, fmt.Sprintf("%s#%d", name, i), rowsK, argCrd(i), exprName(cc.Args[i]))
		}
	}
	switch name {
	case "translatePositions", "translatePos":
		if len(args) == 3 {
			it.needCrd(fn, site, name+"#0", it.rowsKind(cc.Args[1]), argCrd(0), exprName(cc.Args[0]))
		}
	case "(*MapPollard).trimProofPos":
		if len(args) > 1 {
			it.needCrd(fn, site, name+"#1", crdTree, argCrd(1), exprName(cc.Args[1]))
		}
	case "calculateHashes", "Verify":
		if len(args) == 3 {
			it.needCrd(fn, site, name+"#2.Targets", crdTree, st.crdOf(args[2].fld(0)), exprName(cc.Args[2])+".Targets")
		}
	}
	if name == "translatePos" && len(args) == 3 {
		return tupleOV(&OV{Crd: it.rowsKind(cc.Args[2])})
	}

	// sorted-input sinks
	if idxs, ok := requiresSorted[name]; ok {
		for _, i := range idxs {
			if i >= len(args) {
				continue
			}
			v := args[i]
			if len(v.Arrs) == 0 && len(v.Flds) > 0 {
				v = v.fld(0) // hashAndPos: positions
			}
			it.event(&oEvent{Kind: oevSink, Fn: fn, In: site, What: fmt.Sprintf("%s#%d", name, i), A: st.classOf(v).clone()})
		}
	}

	switch name {
	case "toHashAndPos":
		ca, cb := st.classOf(args[0]), st.classOf(args[1])
		it.event(&oEvent{Kind: oevPair, Fn: fn, In: site, What: "toHashAndPos", A: ca.clone(), B: cb.clone(),
			NameA: exprName(cc.Args[0]), NameB: exprName(cc.Args[1])})
		// the body is analysed below (copy + sort.Sort); hashes follow positions
	case "ProofPositions":
		a0 := it.arr(it.akey(site, "#0"), "ProofPositions#0@"+posOf(it.p, site))
		a1 := it.arr(it.akey(site, "#1"), "ProofPositions#1@"+posOf(it.p, site))
		c0, c1 := ClassSet{}, ClassSet{}
		in := st.classOf(args[0])
		if len(in) == 0 {
			in = csOf(OC{ocEmpty, ""})
		}
		for c := range in {
			switch c.K {
			case ocEmpty:
				c0[c], c1[c] = true, true // no targets, no proof positions
			case ocSorted, ocRaw:
				c0[OC{ocCanon, c.G}], c1[OC{ocComp, c.G}] = true, true
			default:
				c0[OC{ocCanon, it.site(site)}], c1[OC{ocComp, it.site(site)}] = true, true
			}
		}
		st.cls[a0], st.cls[a1] = c0, c1
		pc := it.rowsKind(cc.Args[2])
		if pc == 0 {
			pc = st.crdOf(args[0])
		}
		st.crd[a0], st.crd[a1] = st.normCrd(pc), st.normCrd(pc)
		return tupleOV(ovArr(a0), ovArr(a1))
	case "translatePositions":
		a := it.arr(it.akey(site, ""), "translatePositions@"+posOf(it.p, site))
		st.cls[a] = st.classOf(args[0]).clone()
		if len(st.cls[a]) == 0 {
			st.cls[a] = csOf(OC{ocBuilt, it.site(site)})
		}
		st.crd[a] = st.normCrd(it.rowsKind(cc.Args[2]))
		return tupleOV(ovArr(a))
	case "deTwin", "subtractSortedSlice", "mergeSortedSlicesFunc", "insertInOrder":
		a := it.arr(it.akey(site, ""), name+"@"+posOf(it.p, site))
		cls := csOf(OC{ocSBuilt, it.site(site)})
		st.cls[a] = cls
		st.crd[a] = st.normCrd(st.crdOf(args[0]))
		if name == "mergeSortedSlicesFunc" && len(args) > 1 {
			st.crd[a] |= st.crdOf(args[1])
		}
		out := ovArr(a)
		if name != "mergeSortedSlicesFunc" {
			// works in place on its first argument
			for x := range args[0].Arrs {
				out.Arrs[x] = true
				st.cls[x] = cls.clone()
			}
		}
		return tupleOV(out)
	case "mergeSortedHashAndPos", "subtractSortedHashAndPos", "getHashAndPosSubset", "deTwinHashAndPos":
		cls := csOf(OC{ocSBuilt, it.site(site)})
		a0 := it.arr(it.akey(site, ".0"), name+".positions@"+posOf(it.p, site))
		a1 := it.arr(it.akey(site, ".1"), name+".hashes@"+posOf(it.p, site))
		st.cls[a0], st.cls[a1] = cls.clone(), cls.clone()
		st.crd[a0] = st.normCrd(st.crdOf(args[0].fld(0)))
		if name == "mergeSortedHashAndPos" && len(args) > 1 {
			st.crd[a0] |= st.crdOf(args[1].fld(0))
		}
		o0, o1 := ovArr(a0), ovArr(a1)
		if name == "subtractSortedHashAndPos" || name == "deTwinHashAndPos" {
			for x := range args[0].fld(0).Arrs {
				o0.Arrs[x] = true
				st.cls[x] = cls.clone()
			}
			for x := range args[0].fld(1).Arrs {
				o1.Arrs[x] = true
				st.cls[x] = cls.clone()
			}
		}
		return tupleOV(&OV{Flds: map[int]*OV{0: o0, 1: o1}})
	case "getHashAndPosHashSubset", "removeHashesFromHashAndPos":
		cls := ClassSet{}
		for c := range st.classOf(args[0].fld(0)) {
			if c.isSorted() {
				cls[OC{ocSBuilt, it.site(site)}] = true
			} else {
				cls[OC{ocBuilt, it.site(site)}] = true
			}
		}
		if len(cls) == 0 {
			cls[OC{ocBuilt, it.site(site)}] = true
		}
		a0 := it.arr(it.akey(site, ".0"), name+".positions@"+posOf(it.p, site))
		a1 := it.arr(it.akey(site, ".1"), name+".hashes@"+posOf(it.p, site))
		st.cls[a0], st.cls[a1] = cls.clone(), cls.clone()
		st.crd[a0] = st.normCrd(st.crdOf(args[0].fld(0)))
		return tupleOV(&OV{Flds: map[int]*OV{0: ovArr(a0), 1: ovArr(a1)}})
	case "(*MapPollard).trimProofPos":
		if len(args) > 1 {
			return tupleOV(args[1].clone())
		}
	case "(*hashAndPos).Append", "(*hashAndPos).AppendMany":
		if name == "(*hashAndPos).AppendMany" && len(args) >= 3 {
			it.event(&oEvent{Kind: oevPair, Fn: fn, In: site, What: "AppendMany", A: st.classOf(args[1]).clone(), B: st.classOf(args[2]).clone(),
				NameA: exprName(cc.Args[1]), NameB: exprName(cc.Args[2])})
		}
		// both fields grow together: same (unknown-order) class
		for l := range args[0].Locs {
			cls := csOf(OC{ocBuilt, "hnp:" + l.c.name})
			for f := 0; f < 2; f++ {
				fl := &OV{Locs: map[oLoc]bool{{l.c, fmt.Sprintf("%s.%d", l.path, f)}: true}}
				cur := st.load(fl)
				if len(cur.Arrs) == 0 {
					a := it.arr(fmt.Sprintf("built:%d%s.%d", l.c.id, l.path, f), l.c.name+[]string{".positions", ".hashes"}[f])
					cur = ovArr(a)
					st.store(fl, cur)
				}
				for a := range cur.Arrs {
					st.cls[a] = cls.clone()
				}
			}
		}
		return nil
	case "(*hashAndPos).Delete", "(*hashAndPos).Pop", "(*hashAndPos).PopFront", "(*hashAndPos).Reset":
		return nil
	}

	// other package functions: analyse the body when slices can flow in; a
	// callee that receives no slices only needs a shape for its results
	carries := false
	for i, a := range args {
		if !a.isEmpty() && hasSlices(cc.Args[i].Type()) && it.reachesArrays(a, st, map[*oCell]bool{}) {
			carries = true
		}
	}
	// a look-up helper of the map forest that hands out a position (read from the leaf index and translated):
	// its body decides the layout of what it returns
	if !carries && sc.Signature.Recv() != nil && it.p.localNamed(sc.Signature.Recv().Type(), "MapPollard") && sc.Blocks != nil {
		if res := sc.Signature.Results(); res.Len() >= 1 && isUint64(res.At(0).Type()) {
			carries = true
		}
	}
	if !carries {
		if hasSlices(sc.Signature.Results()) {
			return it.typedShape(sc.Signature.Results(), it.akey(site, ""), name+"@"+posOf(it.p, site), st, OC{ocBuilt, it.site(site)})
		}
		// position arithmetic (Parent, sibling, LeftChild, calcPrevPosition, ...):
		// a uint64 computed from a position stays in that position's layout
		res := sc.Signature.Results()
		if res.Len() >= 1 && isUint64(res.At(0).Type()) && len(args) > 0 && args[0].Crd != 0 && isUint64(cc.Args[0].Type()) {
			c := rowsK
			if c == 0 {
				c = args[0].Crd
			}
			return tupleOV(&OV{Crd: c})
		}
		return nil
	}
	ret, out := it.analyze(sc, args, st, site)
	*st = *out
	return ret
}

// geometryChanged: NumLeaves / TotalRows were written. The equality of the two
// layouts established by an earlier test no longer holds, and positions of the
// forest "before the block" are, after the roll-back of the additions,
// positions of the current tree layout.
func (it *oInterp) geometryChanged(st *OState) {
	st.eq = 0
	it.curEq = 0
	for a, c := range st.crd {
		if c&crdPrev != 0 {
			st.crd[a] = (c &^ crdPrev) | crdTree
		}
	}
}

// writesGeometry: the instruction stores NumLeaves / TotalRows of a map forest,
// or calls a function that may (the equality of the two layouts established by
// an earlier test no longer holds afterwards).
func (it *oInterp) writesGeometry(ins ssa.Instruction) bool {
	direct := func(in ssa.Instruction) bool {
		st, ok := in.(*ssa.Store)
		if !ok {
			return false
		}
		fa, ok := st.Addr.(*ssa.FieldAddr)
		if !ok || (!it.p.localNamed(fa.X.Type(), "MapPollard") && !it.p.localNamed(fa.X.Type(), "Pollard")) {
			return false
		}
		f := fieldName(fa.X.Type(), fa.Field)
		return f == "NumLeaves" || f == "TotalRows"
	}
	if it.geomW == nil {
		it.geomW = map[*ssa.Function]bool{}
		for _, f := range it.p.Funcs {
			for _, b := range f.Blocks {
				for _, in := range b.Instrs {
					if direct(in) {
						it.geomW[f] = true
					}
				}
			}
		}
		for changed := true; changed; {
			changed = false
			for _, f := range it.p.Funcs {
				if it.geomW[f] {
					continue
				}
				for _, b := range f.Blocks {
					for _, in := range b.Instrs {
						if c, ok := in.(ssa.CallInstruction); ok {
							if sc := c.Common().StaticCallee(); sc != nil && it.geomW[sc] {
								it.geomW[f] = true
								changed = true
							}
						}
					}
				}
			}
		}
	}
	if direct(ins) {
		return true
	}
	if c, ok := ins.(ssa.CallInstruction); ok {
		if sc := c.Common().StaticCallee(); sc != nil && it.geomW[sc] {
			return true
		}
	}
	return false
}

// rowsKind classifies a forest-height expression: the map forest's TotalRows
// field (total layout) or a call of TreeRows (tree layout); 0 when unknown.
func (it *oInterp) rowsKind(v ssa.Value) CrdSet {
	return it.rowsKindRec(v, map[ssa.Value]bool{})
}

func (it *oInterp) rowsKindRec(v ssa.Value, seen map[ssa.Value]bool) CrdSet {
	v = stripConvert(v)
	if v == nil || seen[v] {
		return 0
	}
	seen[v] = true
	switch x := v.(type) {
	case *ssa.UnOp:
		if x.Op == token.MUL {
			if fa, ok := x.X.(*ssa.FieldAddr); ok && fieldName(fa.X.Type(), fa.Field) == "TotalRows" && it.p.localNamed(fa.X.Type(), "MapPollard") {
				return crdTotal
			}
			// local variable assigned once from a classifiable expression
			if al, ok := x.X.(*ssa.Alloc); ok {
				var k CrdSet
				n := 0
				for _, ref := range *al.Referrers() {
					if s, ok := ref.(*ssa.Store); ok && s.Addr == al {
						n++
						k = it.rowsKindRec(s.Val, seen)
					}
				}
				if n == 1 {
					return k
				}
			}
		}
	case *ssa.Field:
		if fieldName(x.X.Type(), x.Field) == "TotalRows" && it.p.localNamed(x.X.Type(), "MapPollard") {
			return crdTotal
		}
	case *ssa.Call:
		if sc := x.Common().StaticCallee(); sc != nil && it.p.owns(sc) && it.calleeName(sc) == "TreeRows" {
			if len(x.Common().Args) == 1 {
				if bo, ok := stripConvert(x.Common().Args[0]).(*ssa.BinOp); ok {
					if u, ok := stripConvert(bo.X).(*ssa.UnOp); ok && u.Op == token.MUL {
						if fa, ok := u.X.(*ssa.FieldAddr); ok && fieldName(fa.X.Type(), fa.Field) == "NumLeaves" && it.p.localNamed(fa.X.Type(), "MapPollard") {
							if bo.Op == token.SUB {
								return crdPrev
							}
							return crdOther
						}
					}
				}
			}
			return crdTree
		}
	case *ssa.Phi:
		var k CrdSet
		for i, e := range x.Edges {
			ke := it.rowsKindRec(e, seen)
			if i > 0 && ke != k {
				return 0
			}
			k = ke
		}
		return k
	}
	return 0
}

// rowsTest recognises a block ending in a comparison of the tree layout's
// height with the map forest's TotalRows; it returns the successors on which
// they are equal / different.
func (it *oInterp) rowsTest(fn *ssa.Function, b *ssa.BasicBlock) (eq, ne *ssa.BasicBlock) {
	if len(b.Instrs) == 0 {
		return nil, nil
	}
	iff, ok := b.Instrs[len(b.Instrs)-1].(*ssa.If)
	if !ok {
		return nil, nil
	}
	bo, ok := iff.Cond.(*ssa.BinOp)
	if !ok || (bo.Op != token.EQL && bo.Op != token.NEQ) {
		return nil, nil
	}
	kx, ky := it.rowsKind(bo.X), it.rowsKind(bo.Y)
	if !((kx == crdTree && ky == crdTotal) || (kx == crdTotal && ky == crdTree)) {
		return nil, nil
	}
	if bo.Op == token.EQL {
		return b.Succs[0], b.Succs[1]
	}
	return b.Succs[1], b.Succs[0]
}

type loopConv struct {
	arr ssa.Value
	to  CrdSet
}

// loopContains: s belongs to the natural loop headed at h.
func loopContains(h, s *ssa.BasicBlock) bool {
	if s == h {
		return true
	}
	return naturalLoop(h)[s]
}

// naturalLoop: the blocks of the natural loop headed at h - h itself and every
// block from which a latch of h can be reached without passing through h.
// (A block after an inner loop can reach that loop's latch again through the
// enclosing loop's back edge; it is not part of the inner loop.)
func naturalLoop(h *ssa.BasicBlock) map[*ssa.BasicBlock]bool {
	body := map[*ssa.BasicBlock]bool{}
	ls := latches(h)
	if len(ls) == 0 {
		return body
	}
	body[h] = true
	work := append([]*ssa.BasicBlock{}, ls...)
	for len(work) > 0 {
		b := work[len(work)-1]
		work = work[:len(work)-1]
		if body[b] {
			continue
		}
		body[b] = true
		work = append(work, b.Preds...)
	}
	return body
}

// loopConversions lists the arrays that the loop headed at h rewrites element
// by element with translatePos(a[i], from, to): on leaving the loop the whole
// array is in the layout of `to`.
func (it *oInterp) loopConversions(fn *ssa.Function, h *ssa.BasicBlock) []loopConv {
	if len(latches(h)) == 0 {
		return nil
	}
	var out []loopConv
	for _, b := range fn.Blocks {
		if !loopContains(h, b) || innermostLoopHeader(b) != h {
			continue
		}
		for _, in := range b.Instrs {
			st, ok := in.(*ssa.Store)
			if !ok {
				continue
			}
			ia, ok := st.Addr.(*ssa.IndexAddr)
			if !ok || !it.inPlaceTranslation(st.Val, ia) {
				continue
			}
			c := st.Val.(*ssa.Call)
			if k := it.rowsKind(c.Common().Args[2]); k != 0 {
				out = append(out, loopConv{ia.X, k})
			}
		}
	}
	return out
}

// eqAlias returns the stand-in for array a on a path where the two layouts
// are known to coincide.
func (it *oInterp) eqAlias(a *oArr, st *OState) *oArr {
	if strings.HasPrefix(a.name, "eq:") {
		return a
	}
	al := it.arr(fmt.Sprintf("eq:%d", a.id), "eq:"+a.name)
	if st.cls[al] == nil {
		st.cls[al] = st.cls[a].clone()
	} else {
		for c := range st.cls[a] {
			st.cls[al][c] = true
		}
	}
	if st.crd[a] != 0 {
		st.crd[al] = crdBoth
	}
	return al
}

// refineOV rewrites a value for an edge of a test TreeRows(NumLeaves) ==
// TotalRows: on the equal edge the position arrays it designates are replaced
// by stand-ins whose layout is "both"; on the other edge such stand-ins are
// impossible and are dropped when something else remains.
func (it *oInterp) refineOV(v *OV, st *OState, equal bool) *OV {
	if v == nil {
		return v
	}
	out := newOV()
	out.Fn = v.Fn
	out.Crd = v.Crd
	if equal && out.Crd != 0 {
		out.Crd = crdBoth
	} else if !equal && out.Crd&^crdBoth != 0 {
		out.Crd &^= crdBoth
	}
	nonAlias := 0
	for a := range v.Arrs {
		if !strings.HasPrefix(a.name, "eq:") {
			nonAlias++
		}
	}
	for a := range v.Arrs {
		if out.Arrs == nil {
			out.Arrs = map[*oArr]bool{}
		}
		switch {
		case equal && st.crd[a] != 0:
			out.Arrs[it.eqAlias(a, st)] = true
		case !equal && strings.HasPrefix(a.name, "eq:") && nonAlias > 0:
			// infeasible on this edge
		default:
			out.Arrs[a] = true
		}
	}
	for l := range v.Locs {
		if out.Locs == nil {
			out.Locs = map[oLoc]bool{}
		}
		out.Locs[l] = true
	}
	for i, f := range v.Flds {
		if out.Flds == nil {
			out.Flds = map[int]*OV{}
		}
		out.Flds[i] = it.refineOV(f, st, equal)
	}
	return out
}

// refineEdge applies the outcome of the test to a state flowing along an edge.
func (it *oInterp) refineEdge(st *OState, equal bool) {
	for c, v := range st.mem {
		st.mem[c] = it.refineOV(v, st, equal)
	}
	if equal {
		st.eq = 1
		for a, c := range st.crd {
			if c != 0 {
				st.crd[a] = crdBoth
			}
		}
	} else {
		st.eq = 2
		for a, c := range st.crd {
			if c&^crdBoth != 0 {
				st.crd[a] = c &^ crdBoth
			}
		}
	}
}

// needCrd records a layout requirement at a call site.
func (it *oInterp) needCrd(fn *ssa.Function, site ssa.Instruction, what string, need, have CrdSet, name string) {
	if need == 0 || have == 0 {
		return // unknown height expression or value of unknown layout: no obligation
	}
	if it.curEq == 1 {
		have = crdBoth // both layouts coincide on every path to this call
	}
	it.event(&oEvent{Kind: oevCoord, Fn: fn, In: site, What: what, Need: need, Have: have, NameA: name})
}

// reachesArrays: the value designates a tracked array, directly, through its
// fields or through the cells it points to.
func (it *oInterp) reachesArrays(v *OV, st *OState, seen map[*oCell]bool) bool {
	if v == nil {
		return false
	}
	if len(v.Arrs) > 0 {
		return true
	}
	for _, f := range v.Flds {
		if it.reachesArrays(f, st, seen) {
			return true
		}
	}
	for l := range v.Locs {
		if seen[l.c] {
			continue
		}
		seen[l.c] = true
		if it.reachesArrays(st.mem[l.c], st, seen) {
			return true
		}
	}
	return false
}

func isPositionSlice(t types.Type) bool {
	sl, ok := t.Underlying().(*types.Slice)
	return ok && isUint64(sl.Elem())
}

// inPlaceTranslation: the stored value is translatePos(a[i], from, to) written
// back to a[i] - the loop converts the whole array to the layout of `to`.
func (it *oInterp) inPlaceTranslation(v ssa.Value, dst *ssa.IndexAddr) bool {
	c, ok := v.(*ssa.Call)
	if !ok {
		return false
	}
	sc := c.Common().StaticCallee()
	if sc == nil || it.calleeName(sc) != "translatePos" || len(c.Common().Args) != 3 {
		return false
	}
	u, ok := c.Common().Args[0].(*ssa.UnOp)
	if !ok {
		return false
	}
	ia, ok := u.X.(*ssa.IndexAddr)
	return ok && ia.Index == dst.Index && sameValue(ia.X, dst.X)
}

func isVarargsLiteral(v ssa.Value) bool {
	sl, ok := v.(*ssa.Slice)
	if !ok {
		return false
	}
	a, ok := sl.X.(*ssa.Alloc)
	return ok && strings.Contains(a.Comment, "varargs")
}

func (it *oInterp) unknownResult(site ssa.Instruction, cc *ssa.CallCommon, st *OState) *OV {
	res := cc.Signature().Results()
	if !hasSlices(res) {
		return nil
	}
	return it.typedShape(res, it.akey(site, ""), "result@"+posOf(it.p, site), st, OC{ocBuilt, it.site(site)})
}

// ascendingLess recognises the closure  func(a, b int) bool { return s[a] < s[b] }
// (any element type with <, optionally through a field).
func ascendingLess(f *ssa.Function) bool {
	if f == nil || len(f.Blocks) != 1 || len(f.Params) != 2 {
		return false
	}
	rets := returnsOf(f)
	if len(rets) != 1 || len(rets[0].Results) != 1 {
		return false
	}
	bo, ok := rets[0].Results[0].(*ssa.BinOp)
	if !ok || bo.Op != token.LSS {
		return false
	}
	idxOf := func(v ssa.Value) ssa.Value {
		for i := 0; i < 4; i++ {
			switch x := v.(type) {
			case *ssa.UnOp:
				v = x.X
			case *ssa.FieldAddr:
				v = x.X
			case *ssa.Field:
				v = x.X
			case *ssa.IndexAddr:
				return x.Index
			case *ssa.Index:
				return x.Index
			default:
				return nil
			}
		}
		return nil
	}
	return idxOf(bo.X) == f.Params[0] && idxOf(bo.Y) == f.Params[1]
}

// ascendingCmp recognises a three-way comparator that orders ascending:
// the package's uint64Cmp shape (a < b -> -1).
func ascendingCmp(f *ssa.Function) bool {
	if f == nil || len(f.Params) != 2 || len(f.Blocks) == 0 {
		return false
	}
	// first test must be a < b leading to return -1
	b0 := f.Blocks[0]
	if len(b0.Instrs) == 0 {
		return false
	}
	iff, ok := b0.Instrs[len(b0.Instrs)-1].(*ssa.If)
	if !ok {
		return false
	}
	bo, ok := iff.Cond.(*ssa.BinOp)
	if !ok {
		return false
	}
	var neg bool
	switch {
	case bo.Op == token.LSS && bo.X == f.Params[0] && bo.Y == f.Params[1]:
	case bo.Op == token.GTR && bo.X == f.Params[1] && bo.Y == f.Params[0]:
	case bo.Op == token.GTR && bo.X == f.Params[0] && bo.Y == f.Params[1]:
		neg = true
	case bo.Op == token.LSS && bo.X == f.Params[1] && bo.Y == f.Params[0]:
		neg = true
	default:
		return false
	}
	tb := b0.Succs[0]
	if len(tb.Instrs) == 0 {
		return false
	}
	r, ok := tb.Instrs[len(tb.Instrs)-1].(*ssa.Return)
	if !ok || len(r.Results) != 1 {
		return false
	}
	c, ok := r.Results[0].(*ssa.Const)
	if !ok || c.Value == nil {
		return false
	}
	v := c.Int64()
	if neg {
		return v > 0
	}
	return v < 0
}

// descendingCmp recognises a three-way comparator that orders descending
// (a > b -> -1): the mirror image of ascendingCmp.
func descendingCmp(f *ssa.Function) bool {
	if f == nil || len(f.Params) != 2 || len(f.Blocks) == 0 {
		return false
	}
	b0 := f.Blocks[0]
	if len(b0.Instrs) == 0 {
		return false
	}
	iff, ok := b0.Instrs[len(b0.Instrs)-1].(*ssa.If)
	if !ok {
		return false
	}
	bo, ok := iff.Cond.(*ssa.BinOp)
	if !ok {
		return false
	}
	var less bool // the test is a < b
	switch {
	case bo.Op == token.LSS && bo.X == f.Params[0] && bo.Y == f.Params[1], bo.Op == token.GTR && bo.X == f.Params[1] && bo.Y == f.Params[0]:
		less = true
	case bo.Op == token.GTR && bo.X == f.Params[0] && bo.Y == f.Params[1], bo.Op == token.LSS && bo.X == f.Params[1] && bo.Y == f.Params[0]:
		less = false
	default:
		return false
	}
	tb := b0.Succs[0]
	if len(tb.Instrs) == 0 {
		return false
	}
	r, ok := tb.Instrs[len(tb.Instrs)-1].(*ssa.Return)
	if !ok || len(r.Results) != 1 {
		return false
	}
	c, ok := r.Results[0].(*ssa.Const)
	if !ok || c.Value == nil {
		return false
	}
	v := c.Int64()
	if less {
		return v > 0 // a < b -> +1: descending
	}
	return v < 0 // a > b -> -1: descending
}

func (it *oInterp) external(site ssa.Instruction, cc *ssa.CallCommon, sc *ssa.Function, args []*OV, st *OState) *OV {
	pkg, name := "", sc.Name()
	if sc.Pkg != nil {
		pkg = sc.Pkg.Pkg.Path()
	} else if o := sc.Origin(); o != nil && o.Pkg != nil {
		pkg, name = o.Pkg.Pkg.Path(), o.Name()
	}
	unknownOrder := func(v *OV) {
		m := map[*oArr]bool{}
		v.allArrs(m)
		for a := range m {
			st.cls[a] = csOf(OC{ocBuilt, it.site(site)})
		}
	}
	switch pkg {
	case "sort":
		switch name {
		case "Slice", "SliceStable":
			if len(args) == 2 {
				if ascendingLess(args[1].Fn) {
					st.setClass(args[0], sortedOf(st.classOf(args[0]), it.site(site)))
				} else {
					unknownOrder(args[0])
				}
			}
			return nil
		case "Sort", "Stable":
			if len(args) == 1 {
				v := args[0]
				mi, _ := cc.Args[0].(*ssa.MakeInterface)
				if mi != nil && it.p.localNamed(mi.X.Type(), "hashAndPos") && it.hnpSortsByPosition() {
					pc, hc := st.classOf(v.fld(0)), st.classOf(v.fld(1))
					aligned := pc.equal(hc)
					st.setClass(v.fld(0), sortedOf(pc, it.site(site)))
					if aligned {
						st.setClass(v.fld(1), sortedOf(hc, it.site(site)))
					} else {
						st.setClass(v.fld(1), csOf(OC{ocBuilt, it.site(site)}))
					}
				} else {
					unknownOrder(v)
				}
			}
			return nil
		}
	case "slices", "golang.org/x/exp/slices":
		switch name {
		case "Sort":
			st.setClass(args[0], sortedOf(st.classOf(args[0]), it.site(site)))
			return nil
		case "SortFunc", "SortStableFunc":
			if len(args) == 2 && ascendingCmp(args[1].Fn) {
				st.setClass(args[0], sortedOf(st.classOf(args[0]), it.site(site)))
			} else if len(args) == 2 && descendingCmp(args[1].Fn) {
				st.setClass(args[0], descOf(st.classOf(args[0]), it.site(site)))
			} else {
				unknownOrder(args[0])
			}
			return nil
		case "Reverse":
			unknownOrder(args[0])
			return nil
		case "Clone":
			a := it.arr(it.akey(site, ""), "slices.Clone@"+posOf(it.p, site))
			st.cls[a] = st.classOf(args[0]).clone()
			return tupleOV(ovArr(a))
		case "Delete", "DeleteFunc", "Compact", "CompactFunc", "Clip", "Grow":
			return tupleOV(args[0].clone())
		case "Insert", "Replace":
			unknownOrder(args[0])
			return tupleOV(args[0].clone())
		}
	}
	return it.unknownResult(site, cc, st)
}

// hnpSortsByPosition checks once that hashAndPos.Less compares the positions
// field ascending and Swap swaps both fields with the same indexes.
func (it *oInterp) hnpSortsByPosition() bool {
	less := it.p.Func("(hashAndPos).Less")
	swap := it.p.Func("(hashAndPos).Swap")
	if less == nil || swap == nil {
		it.missing["(hashAndPos).Less/Swap"] = true
		return false
	}
	rets := returnsOf(less)
	if len(rets) != 1 || len(rets[0].Results) != 1 {
		return false
	}
	bo, ok := rets[0].Results[0].(*ssa.BinOp)
	if !ok || bo.Op != token.LSS {
		return false
	}
	sliceField := func(x ssa.Value) int {
		switch f := x.(type) {
		case *ssa.Field:
			return f.Field
		case *ssa.UnOp:
			if fa, ok := f.X.(*ssa.FieldAddr); ok {
				return fa.Field
			}
		}
		return -1
	}
	fieldIdx := func(v ssa.Value) (int, ssa.Value) {
		u, ok := v.(*ssa.UnOp)
		if !ok {
			return -1, nil
		}
		ia, ok := u.X.(*ssa.IndexAddr)
		if !ok {
			return -1, nil
		}
		return sliceField(ia.X), ia.Index
	}
	fx, ix := fieldIdx(bo.X)
	fy, iy := fieldIdx(bo.Y)
	if fx != 0 || fy != 0 || ix != less.Params[1] || iy != less.Params[2] {
		return false
	}
	// Swap must store into both fields
	stored := map[int]int{}
	for _, b := range swap.Blocks {
		for _, in := range b.Instrs {
			if s, ok := in.(*ssa.Store); ok {
				if ia, ok := s.Addr.(*ssa.IndexAddr); ok {
					if f := sliceField(ia.X); f >= 0 {
						stored[f]++
					}
				}
			}
		}
	}
	return stored[0] == 2 && stored[1] == 2
}

func exprName(v ssa.Value) string {
	switch x := v.(type) {
	case *ssa.Parameter:
		return x.Name()
	case *ssa.UnOp:
		if fa, ok := x.X.(*ssa.FieldAddr); ok {
			return exprName(fa.X) + "." + fieldName(fa.X.Type(), fa.Field)
		}
		if a, ok := x.X.(*ssa.Alloc); ok {
			return a.Comment
		}
		return exprName(x.X)
	case *ssa.Field:
		return exprName(x.X) + "." + fieldName(x.X.Type(), x.Field)
	case *ssa.Extract:
		if c, ok := x.Tuple.(*ssa.Call); ok {
			if f := calleeFunc(c.Common()); f != nil {
				return fmt.Sprintf("%s()#%d", f.Name(), x.Index)
			}
		}
	case *ssa.Call:
		if f := calleeFunc(x.Common()); f != nil {
			return f.Name() + "()"
		}
	case *ssa.Alloc:
		return x.Comment
	case *ssa.Slice:
		return exprName(x.X)
	case *ssa.MakeSlice:
		return "make"
	case *ssa.Phi:
		return x.Comment
	}
	if v != nil {
		return v.Name()
	}
	return "?"
}

// ---------------------------------------------------------------------------
// Map-fill idioms: dst[i] = f(src[i]) and dst = append(dst, f(src[i])) once per
// iteration. The destination then has the order class of the source.

func (it *oInterp) fillIdioms(fn *ssa.Function) map[ssa.Instruction]ssa.Value {
	if m, ok := it.fills[fn]; ok {
		return m
	}
	m := map[ssa.Instruction]ssa.Value{}
	it.fills[fn] = m
	for _, b := range fn.Blocks {
		for _, in := range b.Instrs {
			switch x := in.(type) {
			case *ssa.Store:
				ia, ok := x.Addr.(*ssa.IndexAddr)
				if !ok || !isSliceT(ia.X.Type()) {
					continue
				}
				if src := indexedSource(x.Val, ia.Index, 0, map[ssa.Value]bool{}); src != nil {
					m[x] = src
				}
			case *ssa.Call:
				if builtinName(x.Common()) != "append" || len(x.Common().Args) != 2 {
					continue
				}
				// single-element append inside a range loop, once per iteration
				elems, ok := x.Common().Args[1].(*ssa.Slice)
				if !ok {
					continue
				}
				lit, ok := elems.X.(*ssa.Alloc)
				if !ok {
					continue
				}
				arr, ok := deref(lit.Type()).Underlying().(*types.Array)
				if !ok || arr.Len() != 1 {
					continue
				}
				var elem ssa.Value
				for _, ref := range *lit.Referrers() {
					if ia, ok := ref.(*ssa.IndexAddr); ok {
						for _, r2 := range *ia.Referrers() {
							if s, ok := r2.(*ssa.Store); ok {
								elem = s.Val
							}
						}
					}
				}
				if elem == nil {
					continue
				}
				hdr, idx := enclosingRangeIndex(x.Block())
				if hdr == nil {
					continue
				}
				// the append must run on every iteration that reaches the latch
				okDom := true
				for _, l := range latches(hdr) {
					if !(x.Block() == l || x.Block().Dominates(l)) {
						okDom = false
					}
				}
				if !okDom {
					continue
				}
				if src := indexedSource(elem, idx, 0, map[ssa.Value]bool{}); src != nil {
					m[x] = src
				}
			}
		}
	}
	return m
}

// enclosingRangeIndex finds the innermost loop header containing b that has
// an integer induction phi (range-index or counter) and returns that index.
func enclosingRangeIndex(b *ssa.BasicBlock) (*ssa.BasicBlock, ssa.Value) {
	fn := b.Parent()
	var best *ssa.BasicBlock
	var bestIdx ssa.Value
	for _, h := range fn.Blocks {
		ls := latches(h)
		if len(ls) == 0 || !(h == b || h.Dominates(b)) {
			continue
		}
		// b must be inside the loop: b reaches a latch
		inside := false
		reach := reachableBlocks([]*ssa.BasicBlock{b})
		for _, l := range ls {
			if reach[l] || l == b {
				inside = true
			}
		}
		if !inside {
			continue
		}
		for _, in := range h.Instrs {
			phi, ok := in.(*ssa.Phi)
			if !ok {
				break
			}
			if bt, ok := phi.Type().Underlying().(*types.Basic); !ok || bt.Info()&types.IsInteger == 0 {
				continue
			}
			var idx ssa.Value = phi
			// range-index loops use phi+1 as the index
			if strings.Contains(phi.Comment, "rangeindex") {
				for _, ref := range *phi.Referrers() {
					if bo, ok := ref.(*ssa.BinOp); ok && bo.Op == token.ADD && bo.X == phi {
						idx = bo
					}
				}
			}
			if best == nil || best.Dominates(h) {
				best, bestIdx = h, idx
			}
			break
		}
	}
	return best, bestIdx
}

// indexedSource searches the data dependences of v for an element read
// src[idx] with the given index value and returns src.
func indexedSource(v ssa.Value, idx ssa.Value, depth int, seen map[ssa.Value]bool) ssa.Value {
	if v == nil || depth > 10 || seen[v] {
		return nil
	}
	seen[v] = true
	switch x := v.(type) {
	case *ssa.UnOp:
		if x.Op == token.MUL {
			if ia, ok := x.X.(*ssa.IndexAddr); ok {
				if ia.Index == idx && isSliceT(ia.X.Type()) {
					return ia.X
				}
				// element chosen by a computed index: the choice may depend on src[idx]
				return indexedSource(ia.Index, idx, depth+1, seen)
			}
			if al, ok := x.X.(*ssa.Alloc); ok {
				// local variable: any value stored into it
				for _, ref := range *al.Referrers() {
					if s, ok := ref.(*ssa.Store); ok && s.Addr == al {
						if r := indexedSource(s.Val, idx, depth+1, seen); r != nil {
							return r
						}
					}
				}
				return nil
			}
			if fa, ok := x.X.(*ssa.FieldAddr); ok {
				return indexedSource(fa.X, idx, depth+1, seen)
			}
		}
		return indexedSource(x.X, idx, depth+1, seen)
	case *ssa.FieldAddr:
		return indexedSource(x.X, idx, depth+1, seen)
	case *ssa.IndexAddr:
		if x.Index == idx && isSliceT(x.X.Type()) {
			return x.X
		}
		return indexedSource(x.Index, idx, depth+1, seen)
	case *ssa.Index:
		if x.Index == idx {
			return x.X
		}
	case *ssa.Field:
		return indexedSource(x.X, idx, depth+1, seen)
	case *ssa.Extract:
		return indexedSource(x.Tuple, idx, depth+1, seen)
	case *ssa.Lookup:
		if r := indexedSource(x.Index, idx, depth+1, seen); r != nil {
			return r
		}
	case *ssa.Call:
		for _, a := range x.Common().Args {
			if r := indexedSource(a, idx, depth+1, seen); r != nil {
				return r
			}
		}
	case *ssa.Convert:
		return indexedSource(x.X, idx, depth+1, seen)
	case *ssa.ChangeType:
		return indexedSource(x.X, idx, depth+1, seen)
	case *ssa.MakeInterface:
		return indexedSource(x.X, idx, depth+1, seen)
	case *ssa.BinOp:
		if r := indexedSource(x.X, idx, depth+1, seen); r != nil {
			return r
		}
		return indexedSource(x.Y, idx, depth+1, seen)
	case *ssa.Phi:
		for _, e := range x.Edges {
			if r := indexedSource(e, idx, depth+1, seen); r != nil {
				return r
			}
		}
	case *ssa.Alloc:
		for _, ref := range *x.Referrers() {
			if s, ok := ref.(*ssa.Store); ok && s.Addr == x {
				if r := indexedSource(s.Val, idx, depth+1, seen); r != nil {
					return r
				}
			}
		}
	}
	return nil
}
