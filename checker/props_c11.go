package main

func init() {
	register(&PropertyDef{
		ID:    "C11",
		Title: "Update data describes exactly what the block changed",
		Explanation: "Structure of (*Stump).Update and its two phases (resolved by role from the UpdateData it builds): every added leaf is recorded on every path " +
			"through the add loop (R11a); PrevNumLeaves is read between the delete and the add phase (R11b); the add lists, which come out of a Go map, are sorted " +
			"after the last insertion on every path to the return (R11c); ToDestroy is computed from the stump before any write of the add phase (R11d); the delete " +
			"lists come from the run of the hashing core with emptied targets (R11e).",
		NotDecided: "the hashes and positions inside the lists (position arithmetic), absence of duplicates, the contents of the delete-side lists beyond their source.",
		Rules:      []RuleDef{{ID: "R11", Statement: "structure of the verifier-state update", Run: runC11}},
	})
	register(&PropertyDef{
		ID:    "C07",
		Title: "A cached proof updated from block data alone stays complete and canonical",
		Explanation: "The clause 'plus every added leaf it asked to remember' and the wiring of the update: remembered leaves obtain their position only from the " +
			"update data, so every added leaf must be listed there on every path (R07b = R11a); (*Proof).Update feeds its remove phase from NewDelPos/NewDelHash and " +
			"its add phase from NewAddPos/NewAddHash/ToDestroy, pairing each position list with its own hash list (R07a); the remove phase runs first and hands its " +
			"hashes to the add phase (R07c).",
		NotDecided: "new positions, proof contents, canonicity, retention of leaves over deletions — the algorithmic core of the property is out of static reach; this is a thin claim.",
		Rules:      []RuleDef{{ID: "R07", Statement: "wiring of the cached-proof update", Run: runC07}},
	})
}
