package main

func init() {
	register(&PropertyDef{
		ID:    "C09",
		Title: "A partial forest stores only true, needed hashes and can always prove its cache",
		Explanation: "Two guards the partial forest depends on: proof material is written into the node map only behind a successful run of the package verifier on " +
			"the same hashes and proof, and the storing function has no caller other than that path and the exported entry documented as unverified (R09a); the " +
			"pruning primitive, which deletes whatever it is given, only ever receives child positions or positions on the false edge of a root test (R09b).",
		NotDecided: "truth of stored hashes through moves, minimality of the stored set, provability of the cache, Prune removing exactly what no other leaf needs — " +
			"all depend on position arithmetic over runtime values; this is a thin claim.",
		Rules: []RuleDef{{ID: "R09", Statement: "guards of the partial forest", Run: runC09}},
	})
}
