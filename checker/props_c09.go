package main

func init() {
	register(&PropertyDef{
		ID:    "C09",
		Title: "A partial forest stores only true, needed hashes and can always prove its cache",
		Explanation: "Two guards the partial forest depends on: proof material is written into the node map only behind a successful run of the package verifier on " +
			"the same hashes and proof, and the storing function has no caller other than that path and the exported entry documented as unverified (R09a); the " +
			"pruning primitive, which deletes whatever it is given, only ever receives child positions or positions on the false edge of a root test (R09b).",
		NotDecided: "truth of stored hashes through moves, minimality of the stored set, provability of the cache, Prune removing exactly what no other leaf needs — " +
			"all depend on position arithmetic over runtime values; this is a thin claim.",
		Rules: []RuleDef{{ID: "R09", Statement: "guards of the partial forest", Run: runC09},
			{ID: "R09c", Statement: "coordinate switch last", Run: func(p *Program, r *Report) {
				r.Rule("R09c", "COORD-SWITCH-LAST: a function that switches the map forest's TotalRows finishes every translation from the old TotalRows before the store (remembered leaves keep true positions when the forest grows)")
				checkCoordSwitch(p, r, "R09c")
			}},
			{ID: "R09g", Statement: "the keep flag is computed per position", Run: func(p *Program, r *Report) {
				r.Rule("R09g", "FLAG-PER-POSITION: the keep flag stored with a node inside a loop of the map forest is computed within that iteration, never carried over from an earlier position")
				checkFlagPerPosition(p, r, "R09g")
			}},
			{ID: "R09h", Statement: "every root handed to the constructor is stored", Run: func(p *Program, r *Report) {
				r.Rule("R09h", "STORE-EVERY-ROOT: the loop of the from-roots constructor stores a node for every root position it is given, the empty roots included (the addition code requires a node at every root position it merges over)")
				checkStoreEveryRecord(p, r, "R09h", []string{"NewMapPollardFromRoots"}, 1)
			}},
			{ID: "R09l", Statement: "the prune climb ends at the root only", Run: func(p *Program, r *Report) {
				r.Rule("R09l", "PRUNE-CLIMBS-TO-THE-ROOT: no exit of the loop that climbs from a pruned leaf towards its root depends on a look-up of the node store or the leaf index")
				checkPruneClimbsToRoot(p, r, "R09l")
			}},
			{ID: "R09m", Statement: "remembering a claim stores every calculated node", Run: func(p *Program, r *Report) {
				r.Rule("R09m", "INGEST-STORES-EVERY-CALCULATED-NODE: the loop of the map forest's storing function that stores the nodes the hashing core calculated stores on every iteration (roots included: a target that is a root needs its keep flag)")
				checkIngestStoresEveryNode(p, r, "R09m", resolveVerifyAnchors(p).core)
			}},
			{ID: "R09k", Statement: "bare roots are flagged by the configuration", Run: func(p *Program, r *Report) {
				r.Rule("R09k", "ROOTS-FLAGGED-BY-CONFIGURATION: the keep flag the from-roots constructor stores with a root is the forest's configuration (its full argument), not a constant")
				checkRootsFlaggedByConfiguration(p, r, "R09k", "NewMapPollardFromRoots")
			}},
			{ID: "R09j", Statement: "the deletion-undo moves climbed subtrees back by geometry, not by what is stored", Run: func(p *Program, r *Report) {
				checkEmptyRootByGeometry(p, r, "R09j")
			}},
			{ID: "R09i", Statement: "a recomputed node does not inherit a keep flag", Run: func(p *Program, r *Report) {
				r.Rule("R09i", "RECOMPUTED-NODE-FLAG: the keep flag stored with a node whose hash was just recomputed is the forest's configuration, a constant or the flag already stored at that position - never the flag of another node or of a parameter")
				checkRecomputedNodeFlag(p, r, "R09i")
			}},
			{ID: "R09d", Statement: "prune clears the keep flag", Run: func(p *Program, r *Report) {
				r.Rule("R09d", "PRUNE-CLEARS-FLAG: after Prune removed a leaf from the cache index, every continuing path stores its node back with the keep flag cleared")
				checkPruneClearsFlag(p, r, "R09d")
			}},
			{ID: "R09f", Statement: "stored positions are in the forest's own layout", Run: func(p *Program, r *Report) {
				r.Rule("R09f", "LAYOUT: positions reach the node store, the cache index, the proof-position function and position arithmetic only in the coordinate system (tree layout vs TotalRows layout) the accompanying forest height denotes - a hash is stored at its true position")
				or := runOrderEngine(p, r, "R09f", []string{"(*MapPollard).Ingest", "(*MapPollard).Verify", "(*MapPollard).VerifyPartialProof", "(*MapPollard).Modify", "(*MapPollard).Undo", "(*MapPollard).Prove", "(*MapPollard).Prune", "(*MapPollard).GetMissingPositions", "NewMapPollardFromRoots"})
				reportOrderEvents(p, r, or, orderRules{coord: "R09f"})
				r.Floor("R09f", "layout-checked call sites in the map forest", r.Stats["coord_sites"], 30)
			}},
			{ID: "R09e", Statement: "moves keep the node", Run: func(p *Program, r *Report) {
				r.Rule("R09e", "MOVE-PAIRING: where a node read from the node store is deleted at its old position and put at a new one, the put happens on every path that deletes")
				checkMovePairing(p, r, "R09e")
			}}},
	})
}
