package main

// Rules added after seeding round 8 (and a look back at the round-7 misses).

import (
	"go/token"
	"fmt"
	"go/types"
	"strings"

	"golang.org/x/tools/go/ssa"
)

// ---------------------------------------------------------------------------
// R14m UNION-NOT-CONCATENATION
//
// The proof combination takes two proofs (two groups of parameters: the A
// group and the B group) and returns lists for the *union* of their targets.
// Two proofs may share a target (or one's target may be the other's proof
// hash); a list that is assembled by putting the B list behind the A list
// (append(a, b...), AppendMany, copy, slices.Concat) carries a shared entry
// twice, however it is sorted afterwards. The rule follows, flow-insensitively
// and through package callees (summaries), where a list derived from group A
// only and a list derived from group B only are joined by a concatenation, and
// reports a returned list that such a joined list flows into. Joining through
// any other function (the de-duplicating merges, subtraction, a hand-written
// merge loop that appends element by element) generates nothing.
//
// Positive evidence only: a construct the analysis does not understand yields
// no report.

type srcBits uint32

type concatSummary struct {
	// pairs of parameter indexes (i<j) whose lists the function concatenates
	pairs [][2]int
}

type concatAnalysis struct {
	p     *Program
	memo  map[*ssa.Function]*concatSummary
	stack map[*ssa.Function]bool
}

func isVarargsSlice(v ssa.Value) bool {
	s, ok := v.(*ssa.Slice)
	if !ok {
		return false
	}
	a, ok := s.X.(*ssa.Alloc)
	return ok && a.Comment == "varargs"
}

func addrRoot(v ssa.Value) ssa.Value {
	for i := 0; i < 16; i++ {
		switch x := v.(type) {
		case *ssa.FieldAddr:
			v = x.X
		case *ssa.IndexAddr:
			v = x.X
		default:
			return v
		}
	}
	return v
}

func single(b srcBits) bool { return b != 0 && b&(b-1) == 0 }

// run analyses fn with the given source bit per parameter index and returns
// the taint and "joined by concatenation" facts of its values, plus the
// concatenated parameter pairs (for summaries, where every parameter is its
// own source).
func (ca *concatAnalysis) run(fn *ssa.Function, src map[int]srcBits, depth int) (taint map[ssa.Value]srcBits, joined map[ssa.Value]string, pairs [][2]int) {
	taint = map[ssa.Value]srcBits{}
	joined = map[ssa.Value]string{}
	for i, par := range fn.Params {
		taint[par] = src[i]
	}
	pairSeen := map[[2]int]bool{}
	notePair := func(a, b srcBits) {
		// only meaningful in summary mode: bit k = parameter k
		ia, ib := -1, -1
		for k := 0; k < 32; k++ {
			if a == 1<<uint(k) {
				ia = k
			}
			if b == 1<<uint(k) {
				ib = k
			}
		}
		if ia < 0 || ib < 0 || ia == ib {
			return
		}
		if ia > ib {
			ia, ib = ib, ia
		}
		if !pairSeen[[2]int{ia, ib}] {
			pairSeen[[2]int{ia, ib}] = true
			pairs = append(pairs, [2]int{ia, ib})
		}
	}
	changed := true
	set := func(v ssa.Value, t srcBits, j string) {
		if v == nil {
			return
		}
		if taint[v]|t != taint[v] {
			taint[v] |= t
			changed = true
		}
		if j != "" && joined[v] == "" {
			joined[v] = j
			changed = true
		}
	}
	for round := 0; changed && round < 40; round++ {
		changed = false
		for _, b := range fn.Blocks {
			for _, in := range b.Instrs {
				// generic: a value is tainted / joined by its operands
				if v, ok := in.(ssa.Value); ok {
					var t srcBits
					j := ""
					for _, op := range in.Operands(nil) {
						if *op == nil {
							continue
						}
						t |= taint[*op]
						if joined[*op] != "" && j == "" {
							j = joined[*op]
						}
					}
					set(v, t, j)
				}
				switch x := in.(type) {
				case *ssa.Store:
					root := addrRoot(x.Addr)
					set(root, taint[x.Val], joined[x.Val])
				case *ssa.Call:
					cc := x.Common()
					args := cc.Args
					join := func(i, j int, how string) {
						if i >= len(args) || j >= len(args) {
							return
						}
						ta, tb := taint[args[i]], taint[args[j]]
						if !single(ta) || !single(tb) || ta == tb {
							return
						}
						notePair(ta, tb)
						why := how + " at " + posOf(ca.p, x)
						set(x, ta|tb, why)
						// a concatenation into memory reached through a pointer argument
						for _, k := range []int{i, j} {
							if _, isPtr := args[k].Type().Underlying().(*types.Pointer); isPtr {
								set(addrRoot(args[k]), ta|tb, why)
							}
						}
					}
					switch {
					case builtinName(cc) == "append":
						if len(args) == 2 && !isVarargsSlice(args[1]) {
							join(0, 1, "append(a, b...)")
						}
					case builtinName(cc) == "copy":
						if len(args) == 2 {
							ta, tb := taint[args[0]], taint[args[1]]
							if single(ta) && single(tb) && ta != tb {
								notePair(ta, tb)
								why := "copy(a[n:], b) at " + posOf(ca.p, x)
								if s, ok := args[0].(*ssa.Slice); ok {
									set(s.X, ta|tb, why)
									set(addrRoot(s.X), ta|tb, why)
									if u, ok := s.X.(*ssa.UnOp); ok {
										set(addrRoot(u.X), ta|tb, why)
									}
								}
								set(args[0], ta|tb, why)
							}
						}
					case isPkgFunc(cc, "slices", "Concat"):
						if len(args) == 1 {
							// variadic: the elements were stored into the varargs array; its taint is the union
							if s, ok := args[0].(*ssa.Slice); ok {
								t := taint[addrRoot(s.X)] | taint[args[0]]
								if t != 0 && !single(t) {
									set(x, t, "slices.Concat at "+posOf(ca.p, x))
								}
							}
						}
					default:
						callee := cc.StaticCallee()
						if callee != nil && ca.p.owns(callee) && len(callee.Blocks) > 0 && depth < 4 {
							sum := ca.summary(callee, depth+1)
							for _, pr := range sum.pairs {
								join(pr[0], pr[1], "the concatenating "+baseName(ca.p.FuncName(callee)))
							}
						}
						// whatever a callee is handed by pointer may take up the other arguments
						for k, a := range args {
							if _, isPtr := a.Type().Underlying().(*types.Pointer); !isPtr {
								continue
							}
							var t srcBits
							for k2, a2 := range args {
								if k2 != k {
									t |= taint[a2]
								}
							}
							set(addrRoot(a), t, "")
						}
					}
				}
			}
		}
	}
	return
}

func (ca *concatAnalysis) summary(fn *ssa.Function, depth int) *concatSummary {
	if s := ca.memo[fn]; s != nil {
		return s
	}
	if ca.stack[fn] {
		return &concatSummary{}
	}
	ca.stack[fn] = true
	defer delete(ca.stack, fn)
	src := map[int]srcBits{}
	for i := range fn.Params {
		if i < 30 {
			src[i] = 1 << uint(i)
		}
	}
	_, _, pairs := ca.run(fn, src, depth)
	s := &concatSummary{pairs: pairs}
	ca.memo[fn] = s
	return s
}

func checkUnionNotConcat(p *Program, r *Report, rule, name string, floor int) {
	fn := p.Func(name)
	if fn == nil {
		r.MissingAnchor(rule, name, "proof combination not found")
		return
	}
	// the two groups: of every parameter type that occurs exactly twice the
	// first belongs to proof A, the second to proof B
	byType := map[string][]int{}
	for i, par := range fn.Params {
		k := types.TypeString(par.Type(), nil)
		byType[k] = append(byType[k], i)
	}
	src := map[int]srcBits{}
	groups := 0
	for _, idx := range byType {
		if len(idx) == 2 {
			src[idx[0]] = 1
			src[idx[1]] = 2
			groups++
		}
	}
	if groups == 0 {
		r.Undecided(rule, name+"/groups", p.Pos(fn.Pos()), "the combination has no pair of like-typed parameters to tell the two proofs apart")
		return
	}
	ca := &concatAnalysis{p: p, memo: map[*ssa.Function]*concatSummary{}, stack: map[*ssa.Function]bool{}}
	taint, joined, _ := ca.run(fn, src, 0)
	n := 0
	res := fn.Signature.Results()
	type verdict struct {
		bad string
		pos string
		mix bool
	}
	vs := make([]verdict, res.Len())
	for _, ret := range returnsOf(fn) {
		ops := retOperands(ret)
		for i, v := range ops {
			if i >= len(vs) || v == nil {
				continue
			}
			if taint[v] == 3 {
				vs[i].mix = true
			}
			if j := joined[v]; j != "" && vs[i].bad == "" {
				vs[i].bad = j
				vs[i].pos = posOf(p, ret)
			}
		}
	}
	for i := 0; i < res.Len(); i++ {
		if !vs[i].mix {
			continue // not a list of the union
		}
		n++
		key := fmt.Sprintf("%s/result#%d/union", name, i)
		if vs[i].bad != "" {
			r.Violate(rule, key, vs[i].pos, "a returned list of the combined proof is assembled by putting one proof's list behind the other's ("+vs[i].bad+"): an entry both proofs have is returned twice, however the list is sorted afterwards - more hashes than targets for two proofs that share a target", "in "+name)
		} else {
			r.Discharge(rule, key, p.Pos(fn.Pos()), "no concatenation of a list of proof A with a list of proof B flows into this result (the lists are joined by merge/subtract functions only)", true)
		}
	}
	r.Floor(rule, "returned lists of the combination that depend on both proofs", n, floor)
	_ = strings.TrimSpace
}

// ---------------------------------------------------------------------------
// R13o RESTORE-REPLACES
//
// The map forest is restored *into* a receiver (Read is a method, its node
// store and its leaf index are interfaces the user may have supplied, so they
// cannot be swapped for fresh ones). The stream describes the whole forest:
// every store the restore function refills with Put must first be emptied -
// a call that deletes from that store (directly or in a helper), or a store
// of a new value into the field, dominates every Put into it. Otherwise nodes
// and leaf-index entries of the previous state survive next to the ones read
// (D25: a forest of four leaves restored from the stream of a forest of one
// reported three never-added leaves as live).

type storeField struct {
	st  *types.Struct
	idx int
}

// storeFieldOfInvoke: cc is an invoke of method `name` on a load of a struct
// field of interface type; returns the field.
func storeFieldOfInvoke(cc *ssa.CallCommon, name string) (ssa.Value, storeField, bool) {
	if !cc.IsInvoke() || cc.Method == nil || cc.Method.Name() != name {
		return nil, storeField{}, false
	}
	u, ok := cc.Value.(*ssa.UnOp)
	if !ok {
		return nil, storeField{}, false
	}
	fa, ok := u.X.(*ssa.FieldAddr)
	if !ok {
		return nil, storeField{}, false
	}
	st, ok := deref(fa.X.Type()).Underlying().(*types.Struct)
	if !ok {
		return nil, storeField{}, false
	}
	return fa.X, storeField{st, fa.Field}, true
}

func checkRestoreReplaces(p *Program, r *Report, rule, name string, floor int) {
	fn := p.Func(name)
	if fn == nil {
		r.MissingAnchor(rule, name, "restore function not found")
		return
	}
	if len(fn.Params) == 0 {
		return
	}
	recv := fn.Params[0]
	// which functions delete from which store field (own body, closures, static callees)
	deletesMemo := map[*ssa.Function]map[storeField]bool{}
	deletes := func(f *ssa.Function) map[storeField]bool {
		if m, ok := deletesMemo[f]; ok {
			return m
		}
		m := map[storeField]bool{}
		deletesMemo[f] = m
		for g := range p.StaticReach(f) {
			for _, b := range g.Blocks {
				for _, in := range b.Instrs {
					if ci, ok := in.(ssa.CallInstruction); ok {
						if _, sf, ok := storeFieldOfInvoke(ci.Common(), "Delete"); ok {
							m[sf] = true
						}
					}
				}
			}
		}
		return m
	}
	putsMemo := map[*ssa.Function]map[storeField]bool{}
	putsIn := func(f *ssa.Function) map[storeField]bool {
		if m, ok := putsMemo[f]; ok {
			return m
		}
		m := map[storeField]bool{}
		putsMemo[f] = m
		for g := range p.StaticReach(f) {
			for _, b := range g.Blocks {
				for _, in := range b.Instrs {
					if ci, ok := in.(ssa.CallInstruction); ok {
						if _, sf, ok := storeFieldOfInvoke(ci.Common(), "Put"); ok {
							m[sf] = true
						}
					}
				}
			}
		}
		return m
	}
	type site struct {
		in ssa.Instruction
		sf storeField
	}
	var puts []site
	var clears []site
	for _, b := range fn.Blocks {
		for _, in := range b.Instrs {
			switch x := in.(type) {
			case *ssa.Store:
				if fa, ok := x.Addr.(*ssa.FieldAddr); ok && isRecvValue(fa.X, recv) {
					if st, ok := deref(fa.X.Type()).Underlying().(*types.Struct); ok {
						if _, isIface := st.Field(fa.Field).Type().Underlying().(*types.Interface); isIface {
							clears = append(clears, site{in, storeField{st, fa.Field}})
						}
					}
				}
			case ssa.CallInstruction:
				cc := x.Common()
				if base, sf, ok := storeFieldOfInvoke(cc, "Put"); ok && isRecvValue(base, recv) {
					puts = append(puts, site{in, sf})
					continue
				}
				if _, isDefer := in.(*ssa.Defer); isDefer {
					continue
				}
				if base, sf, ok := storeFieldOfInvoke(cc, "Delete"); ok && isRecvValue(base, recv) {
					_ = sf
					continue // a single Delete in the restore function itself empties nothing
				}
				if sc := cc.StaticCallee(); sc != nil && p.owns(sc) && len(sc.Blocks) > 0 {
					for sf := range deletes(sc) {
						clears = append(clears, site{in, sf})
					}
					// a helper of the restore function that fills a store (Put without Delete)
					for sf := range putsIn(sc) {
						if !deletes(sc)[sf] {
							puts = append(puts, site{in, sf})
						}
					}
				}
			}
		}
	}
	fields := map[storeField][]site{}
	var order []storeField
	for _, pt := range puts {
		if _, ok := fields[pt.sf]; !ok {
			order = append(order, pt.sf)
		}
		fields[pt.sf] = append(fields[pt.sf], pt)
	}
	for _, sf := range order {
		fname := sf.st.Field(sf.idx).Name()
		key := fmt.Sprintf("%s/%s/emptied-before-refill", name, fname)
		bad := ssa.Instruction(nil)
		for _, pt := range fields[sf] {
			ok := false
			for _, c := range clears {
				if c.sf == sf && dominatesInstr(c.in, pt.in) {
					ok = true
				}
			}
			if !ok && bad == nil {
				bad = pt.in
			}
		}
		if bad != nil {
			r.Violate(rule, key, posOf(p, bad), "the restore function fills the receiver's "+fname+" with the records of the stream without emptying it first (no call that deletes from it, and no new store assigned to the field, comes before this Put on every path): entries of the state the receiver held before survive next to the restored ones - look-ups report leaves the restored forest never had, positions outside it return hashes", "in "+name)
		} else {
			r.Discharge(rule, key, posOf(p, fields[sf][0].in), "every Put of the restore function into "+fname+" is dominated by a step that empties it", true)
		}
	}
	r.Floor(rule, "stores of the receiver the restore function refills", len(order), floor)
}

// ---------------------------------------------------------------------------
// R16f THE-MAXIMUM-IS-A-POSITION. maxPositionAtRow and maxPossiblePosAtRow
// return the *biggest position* of a row (inclusive; "-1 because we return
// the position, not the count"). A comparison of a value with such a result is
// therefore inclusive on the inside: x <= max inside, x > max outside. A strict
// x < max (or x >= max) treats the last position of the row - the right-most
// node, on the top row the root - as not existing: a loop bounded that way
// leaves it out (seed C02-r8m1: remap left the old root behind on growth).
// Only direct comparisons with the call's result are looked at (x < max+1 is
// a different expression and not matched).

func inclusiveMaxFuncs(p *Program) map[*ssa.Function]bool {
	out := map[*ssa.Function]bool{}
	for _, n := range []string{"maxPositionAtRow", "maxPossiblePosAtRow"} {
		if f := p.Func(n); f != nil {
			out[f] = true
		}
	}
	return out
}

func checkMaximumIsAPosition(p *Program, r *Report, rule string, floor int) {
	maxFns := inclusiveMaxFuncs(p)
	if len(maxFns) == 0 {
		r.MissingAnchor(rule, "maxPositionAtRow / maxPossiblePosAtRow", "inclusive-maximum functions not found")
		return
	}
	var isMax func(v ssa.Value, d int, seen map[ssa.Value]bool) bool
	isMax = func(v ssa.Value, d int, seen map[ssa.Value]bool) bool {
		if d > 6 || v == nil || seen[v] {
			return false
		}
		seen[v] = true
		switch x := v.(type) {
		case *ssa.Call:
			return maxFns[x.Common().StaticCallee()]
		case *ssa.Extract:
			return x.Index == 0 && isMax(x.Tuple, d+1, seen)
		case *ssa.Phi:
			// every edge is such a result (re-assigned in a loop)
			if len(x.Edges) == 0 {
				return false
			}
			for _, e := range x.Edges {
				if e == ssa.Value(x) {
					continue
				}
				if !isMax(e, d+1, seen) {
					return false
				}
			}
			return true
		case *ssa.UnOp:
			// a variable spilled to memory: all stores are such results
			if al, ok := x.X.(*ssa.Alloc); ok && x.Op == token.MUL && al.Referrers() != nil {
				n := 0
				for _, ref := range *al.Referrers() {
					if st, ok := ref.(*ssa.Store); ok && st.Addr == ssa.Value(al) {
						if !isMax(st.Val, d+1, seen) {
							return false
						}
						n++
					}
				}
				return n > 0
			}
		}
		return false
	}
	n := 0
	for _, fn := range p.Funcs {
		if fn.Blocks == nil || maxFns[fn] {
			continue
		}
		idx := 0
		for _, b := range fn.Blocks {
			for _, in := range b.Instrs {
				bo, ok := in.(*ssa.BinOp)
				if !ok {
					continue
				}
				var op token.Token
				switch {
				case isMax(bo.Y, 0, map[ssa.Value]bool{}) && !isMax(bo.X, 0, map[ssa.Value]bool{}):
					op = bo.Op
				case isMax(bo.X, 0, map[ssa.Value]bool{}) && !isMax(bo.Y, 0, map[ssa.Value]bool{}):
					op = map[token.Token]token.Token{token.LSS: token.GTR, token.GTR: token.LSS, token.LEQ: token.GEQ, token.GEQ: token.LEQ}[bo.Op]
				default:
					continue
				}
				switch op {
				case token.LSS, token.GEQ, token.LEQ, token.GTR:
				default:
					continue
				}
				idx++
				n++
				key := fmt.Sprintf("%s/value-vs-row-maximum#%d", p.FuncName(fn), idx)
				if op == token.LEQ || op == token.GTR {
					r.Discharge(rule, key, posOf(p, bo), "the value is compared inclusively with the biggest position of the row (x <= max inside, x > max outside)", true)
				} else {
					r.Violate(rule, key, posOf(p, bo), fmt.Sprintf("a value is compared with the biggest position of a row using %s: the maximum is itself a position of the row, so its right-most node (on the top row: the root) is treated as not existing - a loop bounded this way leaves it out", map[token.Token]string{token.LSS: "x < max", token.GEQ: "x >= max"}[op]), "in "+p.FuncName(fn))
				}
			}
		}
	}
	r.Floor(rule, "comparisons of a value with the biggest position of a row", n, floor)
}

// ---------------------------------------------------------------------------
// R03f (strengthened in round 8): a list counts as checked against the zero
// hash only if the compared element is read at an index that runs over the
// whole of *that* list. elementOfPartialScan reports the positive evidence of
// the opposite: the element is list[idx] where idx is the counter of a loop
// whose exit test bounds it by the length of another list (a single pass over
// two lists of different lengths leaves the tail of the longer one unchecked -
// the proof hashes beyond the number of targets).
func elementOfPartialScan(v ssa.Value) (bool, string) {
	u, ok := v.(*ssa.UnOp)
	if !ok || u.Op != token.MUL {
		return false, ""
	}
	ia, ok := u.X.(*ssa.IndexAddr)
	if !ok {
		return false, ""
	}
	idx := ia.Index
	if c, ok := idx.(*ssa.Convert); ok {
		idx = c.X
	}
	// the counter and the value compared by the loop's exit test
	var phi *ssa.Phi
	switch x := idx.(type) {
	case *ssa.Phi:
		phi = x
	case *ssa.BinOp: // range loops index with counter+1
		if p, ok := x.X.(*ssa.Phi); ok && x.Op == token.ADD {
			phi = p
		}
	}
	if phi == nil || len(latches(phi.Block())) == 0 {
		return false, ""
	}
	inLoop := func(b *ssa.BasicBlock) bool {
		if !phi.Block().Dominates(b) {
			return false
		}
		for _, l := range latches(phi.Block()) {
			if b == l || reachableBlocks([]*ssa.BasicBlock{b})[l] {
				return true
			}
		}
		return false
	}
	// exit tests of the loop on the counter: If whose one successor leaves the loop
	ownBound, otherBound := false, ""
	fn := phi.Parent()
	for _, b := range fn.Blocks {
		if !inLoop(b) || len(b.Instrs) == 0 {
			continue
		}
		iff, ok := b.Instrs[len(b.Instrs)-1].(*ssa.If)
		if !ok {
			continue
		}
		exits := false
		for _, s := range b.Succs {
			if !inLoop(s) {
				exits = true
			}
		}
		if !exits {
			continue
		}
		bo, ok := iff.Cond.(*ssa.BinOp)
		if !ok {
			continue
		}
		onCounter := func(x ssa.Value) bool {
			if c, ok := x.(*ssa.Convert); ok {
				x = c.X
			}
			if x == ssa.Value(phi) || x == idx {
				return true
			}
			if b2, ok := x.(*ssa.BinOp); ok && b2.Op == token.ADD && b2.X == ssa.Value(phi) {
				return true
			}
			return false
		}
		var bound ssa.Value
		switch {
		case onCounter(bo.X):
			bound = bo.Y
		case onCounter(bo.Y):
			bound = bo.X
		default:
			continue
		}
		call, ok := bound.(*ssa.Call)
		if !ok || builtinName(call.Common()) != "len" || len(call.Common().Args) != 1 {
			continue
		}
		if sameValue(call.Common().Args[0], ia.X) || call.Common().Args[0] == ia.X {
			ownBound = true
		} else {
			otherBound = "the loop ends with the length of another list (" + call.Common().Args[0].Name() + ")"
		}
	}
	if !ownBound && otherBound != "" {
		return true, otherBound
	}
	return false, ""
}

// ---------------------------------------------------------------------------
// R15m REBUILT-TABLE-STARTS-EMPTY. A method that rebuilds a table of the
// receiver (a slice of slices: allocates it with make and fills its rows by
// append) must allocate on every path that fills: a row that is appended to
// without the table having been re-made in this call still holds the entries
// of the previous run, which are then listed twice. (A method that never
// allocates the table - an incremental recorder - is not concerned.)

func checkRebuiltTableStartsEmpty(p *Program, r *Report, rule string, floor int) {
	n := 0
	for _, fn := range sortedFuncs(p, ownedFuncSet(p)) {
		if fn.Signature.Recv() == nil || len(fn.Params) == 0 || fn.Blocks == nil {
			continue
		}
		recv := fn.Params[0]
		// stores of a fresh make into a receiver field of type [][]T
		makes := map[int][]*ssa.Store{}
		var fills []struct {
			in    ssa.Instruction
			field int
		}
		for _, b := range fn.Blocks {
			for _, in := range b.Instrs {
				switch x := in.(type) {
				case *ssa.Store:
					fa, ok := x.Addr.(*ssa.FieldAddr)
					if !ok || !isRecvValue(fa.X, recv) {
						continue
					}
					if _, isMake := x.Val.(*ssa.MakeSlice); !isMake {
						continue
					}
					if sl, ok := x.Val.Type().Underlying().(*types.Slice); ok {
						if _, inner := sl.Elem().Underlying().(*types.Slice); inner {
							makes[fa.Field] = append(makes[fa.Field], x)
						}
					}
				case *ssa.Call:
					if builtinName(x.Common()) != "append" || len(x.Common().Args) != 2 {
						continue
					}
					// append(recv.F[i], ...)
					u, ok := x.Common().Args[0].(*ssa.UnOp)
					if !ok || u.Op != token.MUL {
						continue
					}
					ia, ok := u.X.(*ssa.IndexAddr)
					if !ok {
						continue
					}
					u2, ok := ia.X.(*ssa.UnOp)
					if !ok || u2.Op != token.MUL {
						continue
					}
					fa, ok := u2.X.(*ssa.FieldAddr)
					if !ok || !isRecvValue(fa.X, recv) {
						continue
					}
					fills = append(fills, struct {
						in    ssa.Instruction
						field int
					}{x, fa.Field})
				}
			}
		}
		seen := map[int]bool{}
		for _, f := range fills {
			if len(makes[f.field]) == 0 || seen[f.field] {
				continue
			}
			seen[f.field] = true
			n++
			fname := fieldName(recv.Type(), f.field)
			key := fmt.Sprintf("%s/%s/remade-before-filled", p.FuncName(fn), fname)
			var bad ssa.Instruction
			for _, g := range fills {
				if g.field != f.field {
					continue
				}
				ok := false
				for _, mk := range makes[f.field] {
					if dominatesInstr(mk, g.in) {
						ok = true
					}
				}
				if !ok && bad == nil {
					bad = g.in
				}
			}
			if bad != nil {
				r.Violate(rule, key, posOf(p, bad), "the method re-makes the receiver's table "+fname+" only on some paths but appends to its rows on all: on a path that skips the allocation the rows still hold the entries of the previous run and every entry is listed again", "in "+p.FuncName(fn))
			} else {
				r.Discharge(rule, key, posOf(p, makes[f.field][0]), "the allocation of the table dominates every append to its rows", true)
			}
		}
	}
	r.Floor(rule, "tables of a receiver that a method re-makes and fills by append", n, floor)
}

func ownedFuncSet(p *Program) map[*ssa.Function]bool {
	out := map[*ssa.Function]bool{}
	for _, f := range p.Funcs {
		if f.Blocks != nil && p.owns(f) {
			out[f] = true
		}
	}
	return out
}

// ---------------------------------------------------------------------------
// R14n RESTRICTION-RECOMPUTES. The proof of a subset of the held targets is
// made of proof hashes of the held proof *and* of nodes that are computed
// from the targets that are dropped (a dropped sibling, the parent of two
// dropped leaves). The restriction therefore runs the hashing core on every
// path to a success return; a path that skips it (say, because the held proof
// carries no proof hashes) can only ever return what the held proof had.

func checkRestrictionRecomputes(p *Program, r *Report, rule, name, core string) {
	fn, cf := p.Func(name), p.Func(core)
	if fn == nil || cf == nil {
		r.MissingAnchor(rule, name+" / "+core, "proof restriction or hashing core not found")
		return
	}
	var calls []ssa.Instruction
	for _, sc := range callsIn(p, fn) {
		callee := sc.call.Common().StaticCallee()
		if callee == nil {
			continue
		}
		if callee == cf || (p.owns(callee) && p.StaticReach(callee)[cf]) {
			calls = append(calls, sc.call)
		}
	}
	ei := errorResultIndex(fn.Signature)
	n := 0
	for _, ret := range returnsOf(fn) {
		ops := retOperands(ret)
		if ei >= 0 && ei < len(ops) && !isNilConst(ops[ei]) {
			continue // a failing return
		}
		n++
		key := fmt.Sprintf("%s/success#%d/recomputed", name, n)
		ok := false
		for _, c := range calls {
			if dominatesInstr(c, ret) {
				ok = true
			}
		}
		if ok {
			r.Discharge(rule, key, posOf(p, ret), "the hashing core runs on every path to this success return", true)
		} else {
			r.Violate(rule, key, posOf(p, ret), "a success return of the proof restriction can be reached without the hashing core having run: the proof of a subset needs nodes computed from the dropped targets (a dropped sibling, the parent of two dropped leaves) also when the held proof carries no proof hashes at all", "in "+name)
		}
	}
	r.Floor(rule, "success returns of the proof restriction", n, 1)
}

// ---------------------------------------------------------------------------
// R16g ROW-ZERO-ENDS-BEFORE-ONE-SHIFTED. In a layout of `rows` rows the
// positions of row 0 are 0 .. (1<<rows)-1 and 1<<rows is the first position of
// row 1. A *position* compared with 1<<rows is therefore compared strictly:
// pos < 1<<rows is "on row 0", pos >= 1<<rows is "above it". pos <= 1<<rows
// takes the first node of row 1 for a leaf slot (seed C09-r8m1: remap left a
// remembered leaf that had moved up to exactly that position untranslated).
// A value is a position by role: it is handed, in the same function, to a
// package function in the parameter slot named position/pos, or it is the
// value a leaf-index iteration / look-up yields. Counts (numLeaves <= 1<<rows
// is right) are never positions in that sense.

func checkRowZeroTestStrict(p *Program, r *Report, rule string) {
	isOneShifted := func(v ssa.Value) bool {
		if c, ok := v.(*ssa.Convert); ok {
			v = c.X
		}
		bo, ok := v.(*ssa.BinOp)
		if !ok || bo.Op != token.SHL {
			return false
		}
		x := bo.X
		if c, ok := x.(*ssa.Convert); ok {
			x = c.X
		}
		c, ok := x.(*ssa.Const)
		return ok && c.Value != nil && c.Value.String() == "1"
	}
	n := 0
	for _, fn := range sortedFuncs(p, ownedFuncSet(p)) {
		// positions by role
		pos := map[ssa.Value]bool{}
		for _, b := range fn.Blocks {
			for _, in := range b.Instrs {
				ci, ok := in.(ssa.CallInstruction)
				if !ok {
					continue
				}
				cc := ci.Common()
				if sc := cc.StaticCallee(); sc != nil && p.owns(sc) {
					for i, par := range sc.Params {
						nm := strings.ToLower(par.Name())
						if (nm == "pos" || nm == "position") && i < len(cc.Args) {
							pos[cc.Args[i]] = true
						}
					}
				}
			}
		}
		// the uint64 value parameter of a closure iterating the leaf index
		if fn.Parent() != nil && len(fn.Params) == 2 {
			if isHashType(fn.Params[0].Type()) {
				if b, ok := fn.Params[1].Type().Underlying().(*types.Basic); ok && b.Kind() == types.Uint64 {
					pos[fn.Params[1]] = true
				}
			}
		}
		if len(pos) == 0 {
			continue
		}
		idx := 0
		for _, b := range fn.Blocks {
			for _, in := range b.Instrs {
				bo, ok := in.(*ssa.BinOp)
				if !ok {
					continue
				}
				var op token.Token
				switch {
				case pos[bo.X] && isOneShifted(bo.Y):
					op = bo.Op
				case pos[bo.Y] && isOneShifted(bo.X):
					op = map[token.Token]token.Token{token.LSS: token.GTR, token.GTR: token.LSS, token.LEQ: token.GEQ, token.GEQ: token.LEQ}[bo.Op]
				default:
					continue
				}
				switch op {
				case token.LSS, token.GEQ, token.LEQ, token.GTR:
				default:
					continue
				}
				idx++
				n++
				key := fmt.Sprintf("%s/position-vs-row-zero-width#%d", p.FuncName(fn), idx)
				if op == token.LSS || op == token.GEQ {
					r.Discharge(rule, key, posOf(p, bo), "the position is compared strictly with 1<<rows", true)
				} else {
					r.Violate(rule, key, posOf(p, bo), "a position is compared with 1<<rows using "+map[token.Token]string{token.LEQ: "pos <= 1<<rows", token.GTR: "pos > 1<<rows"}[op]+": row 0 ends at (1<<rows)-1 and 1<<rows is the first position of row 1, which is taken for a leaf slot here", "in "+p.FuncName(fn))
				}
			}
		}
	}
	_ = n // no instance on the reviewed tree: the rule is kept alive by its controls
}
