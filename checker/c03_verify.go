package main

import (
	"fmt"
	"go/token"
	"go/types"

	"golang.org/x/tools/go/ssa"
)

// Verification anchors, resolved from the exported API. The verification core
// (calculateHashes on the reviewed tree) is found by role: it is the callee in
// Verify whose []Hash result is compared element-wise with the stump's roots.

type verifyAnchors struct {
	verify, pollardVerify, mpVerify, mpVPP, stumpUpdate *ssa.Function
	core                                                *ssa.Function
	entries                                             []*ssa.Function
	vc                                                  map[*ssa.Function]bool // verification closure
	spine                                               map[*ssa.Function]bool // functions from which the core is reachable
	missing                                             []string
}

func resolveVerifyAnchors(p *Program) *verifyAnchors {
	a := &verifyAnchors{}
	get := func(name string) *ssa.Function {
		f := p.Func(name)
		if f == nil {
			a.missing = append(a.missing, name)
		}
		return f
	}
	a.verify = get("Verify")
	a.pollardVerify = get("(*Pollard).Verify")
	a.mpVerify = get("(*MapPollard).Verify")
	a.mpVPP = get("(*MapPollard).VerifyPartialProof")
	a.stumpUpdate = get("(*Stump).Update")
	for _, f := range []*ssa.Function{a.verify, a.stumpUpdate, a.pollardVerify, a.mpVerify, a.mpVPP} {
		if f != nil {
			a.entries = append(a.entries, f)
		}
	}
	for _, f := range []*ssa.Function{a.verify, a.pollardVerify} {
		if f != nil && a.core == nil {
			a.core = findCore(p, f)
		}
	}
	a.vc = p.StaticReach(a.entries...)
	a.spine = map[*ssa.Function]bool{}
	if a.core != nil {
		for f := range a.vc {
			if p.StaticReach(f)[a.core] {
				a.spine[f] = true
			}
		}
	}
	return a
}

// candidatesIn returns the []Hash result (root candidates) of a call to a
// package function returning (.., []Hash, error) whose elements are compared
// for equality with Hash values in fn, together with that call.
func candidatesIn(p *Program, fn *ssa.Function, core *ssa.Function) (ssa.Value, *ssa.Call) {
	for _, b := range fn.Blocks {
		for _, in := range b.Instrs {
			c, ok := in.(*ssa.Call)
			if !ok {
				continue
			}
			sc := c.Common().StaticCallee()
			if sc == nil || !p.owns(sc) || (core != nil && sc != core) {
				continue
			}
			res := sc.Signature.Results()
			for i := 0; i < res.Len(); i++ {
				if !isHashSlice(res.At(i).Type()) {
					continue
				}
				v := resultValue(c, i)
				if v == nil {
					continue
				}
				if len(matchTests(fn, v)) > 0 {
					return v, c
				}
				if hc, _, _ := matchHelper(p, fn, v); hc != nil {
					return v, c
				}
			}
		}
	}
	return nil, nil
}

// matchHelper: the candidates C of fn are handed to a package function that
// contains the match tests (the matching loop extracted into a helper).
// Returns the call, the helper and the helper's parameter that receives C.
func matchHelper(p *Program, fn *ssa.Function, C ssa.Value) (*ssa.Call, *ssa.Function, ssa.Value) {
	for _, sc := range callsIn(p, fn) {
		h := sc.call.Common().StaticCallee()
		if h == nil || !p.owns(h) || h.Blocks == nil || h == fn {
			continue
		}
		args := sc.call.Common().Args
		for i, a := range args {
			if a != C || i >= len(h.Params) {
				continue
			}
			if len(matchTests(h, h.Params[i])) > 0 {
				return sc.call, h, h.Params[i]
			}
		}
	}
	return nil, nil, nil
}

func findCore(p *Program, verify *ssa.Function) *ssa.Function {
	_, c := candidatesIn(p, verify, nil)
	if c == nil {
		return nil
	}
	return c.Common().StaticCallee()
}

// matchTests lists the equality comparisons in fn between an element of the
// candidates slice C and a Hash value that does not come from C.
func matchTests(fn *ssa.Function, C ssa.Value) []*ssa.BinOp {
	isC := func(v ssa.Value) bool { return v == C }
	var out []*ssa.BinOp
	for _, b := range fn.Blocks {
		for _, in := range b.Instrs {
			bo, ok := in.(*ssa.BinOp)
			if !ok || (bo.Op != token.EQL && bo.Op != token.NEQ) || !isHashType(bo.X.Type()) {
				continue
			}
			xC, yC := elemLoadOf(bo.X, isC), elemLoadOf(bo.Y, isC)
			if xC == yC {
				continue // both or none from the candidates
			}
			other := bo.X
			if xC {
				other = bo.Y
			}
			if derivesFrom(other, isC, 8) {
				continue
			}
			out = append(out, bo)
		}
	}
	return out
}

func runC03(p *Program, r *Report) {
	r.Rule("R03a", "ERR-CHAIN: every rejection produced inside the verification spine reaches the caller as a non-nil error on every path")
	r.Rule("R03b", "MATCH-GUARD: a root is counted as matched only under an equality between a stored root and a recomputed candidate, and success is returned only when every candidate was matched")
	r.Rule("R03c", "LENGUARD: the verification core is only run on caller-supplied hashes after a length-equality test with the targets whose failing edge returns an error")
	a := resolveVerifyAnchors(p)
	for _, m := range a.missing {
		r.MissingAnchor("R03a", m, "exported verification entry point not found")
	}
	if a.core == nil {
		r.Undecided("R03b", "anchor:core", "-", "cannot identify the verification core (the callee of Verify whose []Hash result is compared with the stump's roots)")
		return
	}
	r.Notes = append(r.Notes, fmt.Sprintf("verification core resolved by role: %s; spine: %d functions; verification closure: %d functions",
		p.FuncName(a.core), len(a.spine), len(a.vc)))
	runErrChainSpine(p, r, a, "R03a")
	for _, f := range []*ssa.Function{a.verify, a.pollardVerify} {
		if f != nil {
			checkMatchGuard(p, r, f, a.core)
		}
	}
	runLenGuard(p, r, a, "R03c")
	r.Rule("R03k", "WORK-LIST-EXHAUSTED: the work loop of the verification core falls through to the success return only on a test that looks at the work list (a cursor of the loop or the result of a call that is given one); every other way out is an error")
	checkWorkListExhausted(p, r, "R03k", a.core)
}

// runErrChainSpine applies ERR-CHAIN to every fallible call made by a spine
// function to another spine function.
func runErrChainSpine(p *Program, r *Report, a *verifyAnchors, rule string) {
	n := 0
	for _, fn := range sortedFuncs(p, a.spine) {
		for _, sc := range callsIn(p, fn) {
			cc := sc.call.Common()
			if errorResultIndex(cc.Signature()) < 0 {
				continue
			}
			callee := cc.StaticCallee()
			if callee == nil || !a.spine[callee] {
				continue
			}
			n++
			key := fmt.Sprintf("%s->%s#%d", p.FuncName(fn), sc.label, sc.ord)
			if _, _, bound := errValue(sc.call); !bound {
				// discarded: acceptable only behind a successful verification of the same values
				if j, why := discardJustified(p, sc.call, a); j {
					r.Discharge(rule, key, posOf(p, sc.call), "error discarded, justified: "+why, true)
				} else {
					r.Violate(rule, key, posOf(p, sc.call), "the error of a verification-spine call is discarded and no dominating successful verification of the same values justifies it", "in "+p.FuncName(fn))
				}
				continue
			}
			v := errChain(sc.call, ErrChainOpts{})
			pos := p.Pos(v.Pos)
			if !v.Pos.IsValid() {
				pos = posOf(p, sc.call)
			}
			switch {
			case v.Undecid:
				r.Undecided(rule, key, pos, v.Detail)
			case !v.OK:
				r.Violate(rule, key, pos, v.Detail, "in "+p.FuncName(fn))
			default:
				r.Discharge(rule, key, posOf(p, sc.call), v.Detail, true)
			}
		}
	}
	r.Floor(rule, "fallible spine-to-spine calls", n, 8)
}

// discardJustified: the call (to a function of the spine, e.g. ingest) runs on
// values that a dominating call to the package-level verifier accepted: the
// call is dominated by the nil edge of the error test of Verify(_, h, p) with
// the same hashes and proof.
func discardJustified(p *Program, call *ssa.Call, a *verifyAnchors) (bool, string) {
	fn := call.Parent()
	for _, b := range fn.Blocks {
		for _, in := range b.Instrs {
			vc, ok := in.(*ssa.Call)
			if !ok || vc.Common().StaticCallee() != a.verify || a.verify == nil {
				continue
			}
			if !succeededBefore(vc, call) {
				continue
			}
			// same (hashes, proof): every slice/struct argument of the justified call
			// must be one of Verify's arguments
			okArgs := true
			for _, arg := range call.Common().Args {
				if !isHashSlice(arg.Type()) && !p.localNamed(arg.Type(), "Proof") {
					continue
				}
				found := false
				for _, varg := range vc.Common().Args {
					if sameValue(arg, varg) && !storedBetween(arg, varg) {
						found = true
					}
				}
				okArgs = okArgs && found
			}
			if okArgs {
				// The lemma "cannot fail after a successful verification of the same
				// values" only covers failures that come out of the hashing core. A
				// callee with a failing return of its own (a freshly created error)
				// can fail although verification succeeded.
				if callee := call.Common().StaticCallee(); callee != nil && callee != a.verify && callee != a.core {
					if own := ownFailure(p, callee, a); own != nil {
						return false, ""
					}
				}
				return true, "dominated by the success edge of " + p.FuncName(a.verify) + " on the same hashes and proof"
			}
		}
	}
	return false, ""
}

// ownFailure returns a failing return of fn whose error is not the (possibly
// re-bound) error result of a call to the verifier or the hashing core.
func ownFailure(p *Program, fn *ssa.Function, a *verifyAnchors) *ssa.Return {
	ei := errorResultIndex(fn.Signature)
	if ei < 0 || fn.Blocks == nil {
		return nil
	}
	for _, ret := range returnsOf(fn) {
		ops := retOperands(ret)
		if ei >= len(ops) || isNilConst(ops[ei]) {
			continue
		}
		fromCore := derivesDeep(ops[ei], func(x ssa.Value) bool {
			var c *ssa.Call
			switch y := x.(type) {
			case *ssa.Call:
				c = y
			case *ssa.Extract:
				c, _ = y.Tuple.(*ssa.Call)
			}
			if c == nil {
				return false
			}
			sc := c.Common().StaticCallee()
			return sc != nil && (sc == a.core || sc == a.verify)
		}, 0, map[ssa.Value]bool{})
		if !fromCore {
			return ret
		}
	}
	return nil
}

// succeededBefore: `later` is dominated by the nil edge of the error test of `first`.
func succeededBefore(first *ssa.Call, later ssa.Instruction) bool {
	ev, _, bound := errValue(first)
	if !bound {
		return false
	}
	for _, t := range nilTestsOf(aliasesOf(ev)) {
		if len(t.Nil.Preds) == 1 && (t.Nil == later.Block() || t.Nil.Dominates(later.Block())) {
			return true
		}
	}
	return false
}

// storedBetween: a and b are loads of the same local; some store to that local
// (or to a field of it) is not before both loads.
func storedBetween(a, b ssa.Value) bool {
	if a == b {
		return false
	}
	ua, ok1 := a.(*ssa.UnOp)
	ub, ok2 := b.(*ssa.UnOp)
	if !ok1 || !ok2 {
		return false
	}
	al, ok := ua.X.(*ssa.Alloc)
	if !ok || ub.X != al {
		return false
	}
	first, second := ssa.Instruction(ua), ssa.Instruction(ub)
	if !dominatesInstr(first, second) {
		first, second = second, first
	}
	var stores []ssa.Instruction
	for _, ref := range *al.Referrers() {
		switch x := ref.(type) {
		case *ssa.Store:
			stores = append(stores, x)
		case *ssa.FieldAddr:
			for _, rr := range *x.Referrers() {
				if st, ok := rr.(*ssa.Store); ok && st.Addr == x {
					stores = append(stores, st)
				}
			}
		}
	}
	for _, st := range stores {
		if !dominatesInstr(st, first) {
			if canReach(first, st) && canReach(st, second) {
				return true
			}
		}
	}
	return false
}

func checkMatchGuard(p *Program, r *Report, fn *ssa.Function, core *ssa.Function) {
	name := p.FuncName(fn)
	C, call := candidatesIn(p, fn, core)
	if C == nil {
		r.Violate("R03b", name+"/match", p.Pos(fn.Pos()),
			"no equality comparison between a stored root and a recomputed root candidate is left in the verifier", "in "+name)
		r.Violate("R03b", name+"/count", p.Pos(fn.Pos()), "the root candidates are never compared with the stored roots", "in "+name)
		return
	}
	_ = call
	tests := matchTests(fn, C)
	isC := func(v ssa.Value) bool { return v == C }
	isLenC := func(v ssa.Value) bool { s, ok := lenArg(v); return ok && s == C }

	// (ii) final count test
	var countIf *ssa.If
	var M ssa.Value
	for _, b := range fn.Blocks {
		iff, ok := b.Instrs[len(b.Instrs)-1].(*ssa.If)
		if !ok {
			continue
		}
		bo, ok := iff.Cond.(*ssa.BinOp)
		if !ok || (bo.Op != token.NEQ && bo.Op != token.EQL) {
			continue
		}
		var other ssa.Value
		switch {
		case isLenC(bo.X):
			other = bo.Y
		case isLenC(bo.Y):
			other = bo.X
		default:
			continue
		}
		if c, ok := other.(*ssa.Const); ok && c != nil {
			continue // comparison with a constant (e.g. == 0) is not the match count test
		}
		failSucc, okSucc := b.Succs[0], b.Succs[1]
		if bo.Op == token.EQL {
			failSucc, okSucc = okSucc, failSucc
		}
		if !blockReturnsNonNilError(failSucc) {
			continue
		}
		all := true
		for _, s := range successReturns(fn) {
			// success returns before any candidate exists (empty input) are exempt: they must precede the core call
			if !dominatesInstr(call, s) {
				continue
			}
			if !(edgeDominates(b, okSucc, s.Block())) {
				all = false
			}
		}
		if all {
			countIf, M = iff, other
		}
	}
	if countIf == nil {
		r.Violate("R03b", name+"/count", p.Pos(fn.Pos()),
			"no test 'number of root candidates == number of matched roots' (failing edge returning an error) dominates the success return: unmatched candidates are accepted", "in "+name)
	} else {
		r.Discharge("R03b", name+"/count", posOf(p, countIf),
			"every success return after the core ran is dominated by the passing edge of len(candidates) == matches; the failing edge returns an error", true)
	}

	// (i) growth of the match count only under an equality stored-root == candidate
	if M == nil {
		r.Violate("R03b", name+"/match", p.Pos(fn.Pos()), "cannot find the match counter (count test missing)", "in "+name)
		return
	}
	growth := growthSites(M)
	if hc, h, hC := matchHelper(p, fn, C); hc != nil && len(tests) == 0 {
		// the matching loop lives in a helper: the counter is what the helper returns
		if M != ssa.Value(hc) {
			r.Violate("R03b", name+"/match", posOf(p, hc), "the candidates are matched in "+p.FuncName(h)+" but the count test does not use what it returns", "in "+name)
			return
		}
		tests = matchTests(h, hC)
		growth = nil
		for _, ret := range returnsOf(h) {
			if ops := retOperands(ret); len(ops) > 0 {
				growth = append(growth, growthSites(ops[0])...)
			}
		}
	}
	if len(growth) == 0 {
		r.Undecided("R03b", name+"/match", posOf(p, countIf), "the match counter is never increased")
		return
	}
	isTest := map[ssa.Value]bool{}
	for _, t := range tests {
		isTest[t] = true
	}
	for i, g := range growth {
		key := fmt.Sprintf("%s/match#%d", name, i+1)
		ok := false
		for _, gd := range guardsAt(g.Block()) {
			// the equality holds on the true edge of ==, or on the false edge of !=
			if bo, isBO := gd.Cond.(*ssa.BinOp); isBO && isTest[gd.Cond] && gd.Truth == (bo.Op == token.EQL) {
				ok = true
			}
		}
		if ok {
			r.Discharge("R03b", key, posOf(p, g), "the match count grows only on the true edge of (stored root == candidate[matches])", true)
		} else {
			r.Violate("R03b", key, posOf(p, g), "the match count grows on a path that is not guarded by an equality between a stored root and a root candidate", "in "+name)
		}
	}
	_ = isC
}

// growthSites finds the instructions that increase the match counter M:
// appends feeding the slice whose length M is, or additions feeding the
// integer phi M.
func growthSites(M ssa.Value) []ssa.Instruction {
	var root ssa.Value = M
	if s, ok := lenArg(M); ok {
		root = s
	}
	var out []ssa.Instruction
	seen := map[ssa.Value]bool{}
	var walk func(v ssa.Value)
	walk = func(v ssa.Value) {
		if v == nil || seen[v] {
			return
		}
		seen[v] = true
		switch x := v.(type) {
		case *ssa.Phi:
			for _, e := range x.Edges {
				walk(e)
			}
		case *ssa.Call:
			if builtinName(x.Common()) == "append" {
				out = append(out, x)
				walk(x.Common().Args[0])
			}
		case *ssa.BinOp:
			if x.Op == token.ADD {
				out = append(out, x)
				walk(x.X)
			}
		case *ssa.Slice:
			walk(x.X)
		}
	}
	walk(root)
	return out
}

// runLenGuard: R03c / R04d.
func runLenGuard(p *Program, r *Report, a *verifyAnchors, rule string) {
	n := 0
	for _, fn := range sortedFuncs(p, a.spine) {
		for _, sc := range callsIn(p, fn) {
			if sc.call.Common().StaticCallee() != a.core {
				continue
			}
			args := sc.call.Common().Args
			var hashes, proof ssa.Value
			for _, x := range args {
				if isHashSlice(x.Type()) {
					hashes = x
				}
				if p.localNamed(x.Type(), "Proof") {
					proof = x
				}
			}
			key := fmt.Sprintf("%s->%s#%d", p.FuncName(fn), sc.label, sc.ord)
			if hashes == nil || proof == nil {
				r.Undecided(rule, key, posOf(p, sc.call), "cannot identify the hashes / proof arguments of the core call")
				continue
			}
			n++
			if isNilConst(hashes) {
				r.Discharge(rule, key, posOf(p, sc.call), "core called with nil hashes: it allocates them with the length of the targets itself", false)
				continue
			}
			// direct guard: len(hashes) == len(proof.Targets) holds at the call
			isLenHashes := func(v ssa.Value) bool { s, ok := lenArg(v); return ok && sameValue(s, hashes) }
			isLenTargets := func(v ssa.Value) bool {
				s, ok := lenArg(v)
				if !ok {
					return false
				}
				base, f, ok := fieldRead(s)
				if !ok || f != "Targets" {
					return false
				}
				return sameStructSource(base, proof)
			}
			if g, ok := holdsRel(guardsAtInstr(sc.call), []token.Token{token.EQL}, isLenHashes, isLenTargets); ok {
				// the failing edge must return an error
				failing := g.If.Block().Succs[0]
				if bo := g.If.Cond.(*ssa.BinOp); bo.Op == token.EQL {
					failing = g.If.Block().Succs[1]
				}
				if blockReturnsNonNilError(failing) {
					r.Discharge(rule, key, posOf(p, sc.call), "dominated by len(hashes) == len(proof.Targets); the failing edge returns an error", true)
					// sibling agreement: every verifier refuses a claim whose hash and target counts differ, so no
					// success return may come before the test (an early "nothing to verify" return for zero hashes
					// accepts a proof that names targets, which the other verifiers reject and Modify then deletes)
					passing := g.If.Block().Succs[0]
					if failing == passing {
						passing = g.If.Block().Succs[1]
					}
					k2 := p.FuncName(fn) + "/length-test-before-success"
					var early *ssa.Return
					for _, s := range successReturns(fn) {
						if !edgeDominates(g.If.Block(), passing, s.Block()) && early == nil {
							early = s
						}
					}
					if early != nil {
						r.Violate(rule, k2, posOf(p, early), "this verifier returns success before it has compared the number of hashes with the number of targets: a proof that names targets but comes with no hashes is accepted here and refused by the other verifiers, and applying it deletes the targets", "in "+p.FuncName(fn))
					} else {
						r.Discharge(rule, k2, posOf(p, g.If), "every success return comes after the comparison of the number of hashes with the number of targets", true)
					}
					continue
				}
				r.Violate(rule, key, posOf(p, sc.call), "the length test's failing edge does not return an error", "in "+p.FuncName(fn))
				continue
			}
			// indirect: behind a successful Verify on the same values, or the function is
			// only called that way
			if j, why := coreCallJustified(p, sc.call, a); j {
				r.Discharge(rule, key, posOf(p, sc.call), why, true)
				continue
			}
			r.Violate(rule, key, posOf(p, sc.call),
				"the verification core runs on caller-supplied hashes without a dominating length-equality test against proof.Targets (a mismatch panics inside sort.Sort on parallel slices)", "in "+p.FuncName(fn))
		}
	}
	r.Floor(rule, "core call sites in the verification spine", n, 4)
}

// sameStructSource: base designates the same struct value as v (v is a load of
// the local base, or both are the same parameter).
func sameStructSource(base, v ssa.Value) bool {
	if base == v {
		return true
	}
	if u, ok := v.(*ssa.UnOp); ok && u.Op == token.MUL && u.X == base {
		return true
	}
	if a, ok := base.(*ssa.Alloc); ok {
		// v is the parameter the local was initialised from
		for _, ref := range *a.Referrers() {
			if st, ok := ref.(*ssa.Store); ok && st.Addr == a && st.Val == v {
				return true
			}
		}
	}
	return false
}

// coreCallJustified: the enclosing function receives (hashes, proof) as
// parameters, is not exported-with-unverified-contract, and every call site of
// it in the spine passes values that were accepted by a dominating Verify — or
// the function is the documented unverified entry (exported Ingest), which
// the property does not cover.
func coreCallJustified(p *Program, call *ssa.Call, a *verifyAnchors) (bool, string) {
	fn := call.Parent()
	// hashes/proof must be parameters of fn
	for _, arg := range call.Common().Args {
		if isHashSlice(arg.Type()) || p.localNamed(arg.Type(), "Proof") {
			if _, ok := paramOf(fn, arg); !ok {
				if u, isLoad := arg.(*ssa.UnOp); !isLoad || func() bool { _, ok := paramOf(fn, u); return !ok }() {
					return false, ""
				}
			}
		}
	}
	callers := 0
	for _, g := range sortedFuncs(p, a.vc) {
		for _, sc := range callsIn(p, g) {
			if sc.call.Common().StaticCallee() != fn {
				continue
			}
			callers++
			if j, _ := discardJustified(p, sc.call, a); !j {
				return false, ""
			}
		}
	}
	if callers == 0 {
		return false, ""
	}
	return true, fmt.Sprintf("%s is reached inside the verification closure only behind a successful %s on the same hashes and proof (%d call site(s))", p.FuncName(fn), p.FuncName(a.verify), callers)
}

var _ = types.Typ
