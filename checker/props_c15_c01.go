package main

import "golang.org/x/tools/go/ssa"

func init() {
	register(&PropertyDef{
		ID:    "C15",
		Title: "The caching schedule names real leaves and never exceeds the memory limit",
		Explanation: "In (*CachingScheduleTracker).GenerateCachingSchedule: the working cache (the slice made with capacity maxMemory, followed through phis, appends " +
			"and deletions) grows only under a strict test len(cache) < maxMemory on the very value appended to, or directly onto the result of a one-element removal " +
			"(R15a); every position written to a schedule row is read from an element of that cache and rows are only written by append (R15b); after every append a " +
			"sort of the same row lies on every path to the return (R15c). With R15a+R15b no more than maxMemory scheduled leaves are ever resident.",
		NotDecided: "that TTLs and positions are right (insertion slots of leaves added in that block and deleted later), uniqueness, completeness when the limit is large, optimality.",
		Rules: []RuleDef{{ID: "R15", Statement: "memory bound and ordering of the caching schedule", Run: runC15},
			{ID: "R15d", Statement: "recorded deletions are sorted before de-twinning", Run: func(p *Program, r *Report) {
				r.Rule("R15d", "ORDER-TAINT: the deletion targets recorded for a block (in the prover's order) never reach a requires-sorted function unsorted, neither when the block is recorded nor when TTLs are generated")
				or := runOrderEngine(p, r, "R15d", []string{"(*CachingScheduleTracker).AddBlockSummary", "getPrevPos"})
				_, nSink := reportOrderEvents(p, r, or, orderRules{sink: "R15d"})
				r.Floor("R15d", "requires-sorted call sites reached from the tracker", nSink, 2)
			}},
			{ID: "R15j", Statement: "resized lists are taken from the helper's result", Run: func(p *Program, r *Report) {
				var es []*ssa.Function
				for _, n := range []string{"(*CachingScheduleTracker).AddBlockSummary", "(*CachingScheduleTracker).GenerateCachingSchedule"} {
					if f := p.Func(n); f != nil {
						es = append(es, f)
					}
				}
				checkThreadedState(p, r, "R15j", es, 2)
			}},
			{ID: "R15m", Statement: "a table a method rebuilds starts empty", Run: func(p *Program, r *Report) {
				r.Rule("R15m", "REBUILT-TABLE-STARTS-EMPTY: a method that allocates a table of its receiver (a slice of slices) and fills its rows by append allocates it on every path that fills (the TTL table of the schedule generator is rebuilt on every generation)")
				checkRebuiltTableStartsEmpty(p, r, "R15m", 1)
			}},
			{ID: "R15l", Statement: "every root a block empties is marked", Run: func(p *Program, r *Report) {
				r.Rule("R15l", "MARK-EVERY-EMPTIED-ROOT: the outermost loop around the store that marks a tracked root as emptied is left only through its own bound (a block can empty several trees)")
				checkMarkEveryEmptiedRoot(p, r, "R15l", "delRootInfo")
			}},
			{ID: "R15k", Statement: "the tracker's simulation of overwritten empty roots agrees with the verifier's", Run: func(p *Program, r *Report) {
				r.Rule("R15k", "SIBLING-SIMULATIONS-AGREE: the tracker's and the verifier's simulation of the empty roots that additions write over have the same control structure over their inputs (early exits, loop bounds, the test under which a position is recorded)")
				checkSiblingSimulations(p, r, "R15k", "rootsToDestory", "rootInfoToDestroy")
			}},
			{ID: "R15i", Statement: "the memory limit bounds, it does not size", Run: func(p *Program, r *Report) {
				r.Rule("R15i", "LIMIT-NOT-ALLOCATED: no allocation of the schedule generator is sized by its memory-limit parameter (the property ranges over limits up to unbounded)")
				checkLimitNotAllocated(p, r, "R15i")
			}},
			{ID: "R15h", Statement: "generating a schedule leaves the recorded history untouched", Run: func(p *Program, r *Report) {
				r.Rule("R15h", "HISTORY-READ-ONLY: under GenerateCachingSchedule no write (element store, append onto, in-place sort/delete/insert, copy into) reaches a list recorded by AddBlockSummary or anything that may alias it")
				checkHistoryReadOnly(p, r, "R15h")
			}},
			{ID: "R15g", Statement: "detection with a discarded error only on positions that exist", Run: func(p *Program, r *Report) {
				r.Rule("R15g", "EXISTENCE-BEFORE-DETECTION: in the tracker, a position function whose error is discarded is applied to an element of a position list only behind an exact existence test of that position (or the list is in the reviewed table of lists that hold existing positions only)")
				checkExistenceBeforeDetection(p, r, "R15g")
			}},
			{ID: "R15f", Statement: "recording a block applies its deletions", Run: func(p *Program, r *Report) {
				r.Rule("R15f", "RECORD-APPLIES-DELETIONS: every root-info state the tracker records for a block (except the first) is computed by the call that applies the block's deletions to the previous root infos")
				checkRecordAppliesDeletions(p, r, "R15f")
			}},
			{ID: "R15e", Statement: "TTL table is fresh", Run: func(p *Program, r *Report) {
				r.Rule("R15e", "TTL-FRESH: the generator recomputes the TTL table before reading it, or refreshes it under a flag that recording a block resets")
				checkTTLFresh(p, r, "R15e")
			}}},
	})
	register(&PropertyDef{
		ID:    "C01",
		Title: "All implementations agree on the roots, for every history",
		Explanation: "Sibling agreement of the three block-application implementations ((*Stump).Update, (*Pollard).Modify, (*MapPollard).Modify) on three structural " +
			"clauses that are necessary for equal roots: the deletion phase dominates the addition phase (R01a); where an added node is merged with an existing root, " +
			"the left hash input reads the existing root from the accumulator state and the right input is the incoming node (R01b); the merge is control-dependent on " +
			"the existing root not being the empty root (R01c). Phases and merge sites are found by dataflow role, the hash function by its use of crypto/sha512.",
		NotDecided: "position arithmetic, deletion, TotalRows handling, equality with the reference value, batching independence — the behavioural core. This is a thin " +
			"claim: a change that breaks R01a-c is almost certainly caught by the existing tests as well.",
		Rules: []RuleDef{{ID: "R01", Statement: "sibling agreement of the block-application implementations", Run: runC01},
			{ID: "R01g", Statement: "the forest grows before the leaf is stored", Run: func(p *Program, r *Report) {
				r.Rule("R01g", "GROW-BEFORE-STORE: in the map forest's single-leaf insertion the growth step dominates every write to the node store and the leaf index")
				checkGrowBeforeStore(p, r, "R01g")
			}},
			{ID: "R01f", Statement: "the leaf count only grows while a block is applied", Run: func(p *Program, r *Report) {
				r.Rule("R01f", "LEAF-COUNT-MONOTONE: under Stump.Update, Pollard.Modify and MapPollard.Modify every store into a NumLeaves field is an increment of the value read from that field")
				checkLeafCountMonotone(p, r, "R01f", []string{"(*Stump).Update", "(*Pollard).Modify", "(*MapPollard).Modify"})
			}},
			{ID: "R01e", Statement: "the forest grows per added leaf", Run: func(p *Program, r *Report) {
				r.Rule("R01e", "GROW-PER-LEAF: the map forest's growth step (which sizes the forest for one more leaf) is reached on every iteration of the add phase's loop over the added leaves")
				checkGrowPerLeaf(p, r, "R01e")
			}},
			{ID: "R01d", Statement: "moves keep the node", Run: func(p *Program, r *Report) {
				r.Rule("R01d", "MOVE-PAIRING: where the map forest deletes a node at its old position and puts the value read there at a new one (growth, move-up, undo), the put happens on every path that deletes - empty roots included")
				checkMovePairing(p, r, "R01d")
			}}},
	})
}
